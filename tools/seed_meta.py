#!/usr/bin/env python3
"""Writes seeded/<name>/meta.json from the agent's own meta (meta.agent.json), the confirmation protocol and the detection matrices."""
import json, os, glob
ROOT='/verif/seeded'
det={}
for f in ['MATRIX.tsv','MATRIX2.tsv','MATRIX3.tsv','MATRIX4.tsv','MATRIX5.tsv','MATRIX6.tsv','MATRIX7.tsv','MATRIX8.tsv','MATRIX9.tsv','MATRIX10.tsv']:
    p=os.path.join(ROOT,f)
    if not os.path.exists(p): continue
    for line in open(p):
        parts=line.rstrip('\n').split('\t')
        if len(parts)<1 or not parts[0]: continue
        d=det.setdefault(parts[0],{})
        for x in parts[1:]:
            if ':' in x:
                k,v=x.split(':',1); d[k]=v
for d in sorted(glob.glob(ROOT+'/C*/')):
    name=os.path.basename(d.rstrip('/'))
    agent={}
    for cand in ['meta.agent.json','meta.json.agent']:
        p=os.path.join(d,cand)
        if os.path.exists(p):
            try: agent=json.load(open(p))
            except Exception: agent={}
    prop=name[:3]
    detected=det.get(name,{})
    meta={
      "name": name,
      "property_broken": prop,
      "written_by": "independent sub-agent given only the property text and its own scratch worktree of /repo (nothing from /verif)",
      "summary": agent.get("summary",""),
      "needs_to_manifest": agent.get("needs_to_manifest",""),
      "files_touched": agent.get("files_touched",[]),
      "confirmed_by_me": {
        "how": "tools/seed_confirm.sh in a scratch worktree of /repo HEAD (outside /repo and /verif): patch applied -> repository suite; demo copied to tests/seeded_demo.rs -> cargo test --test seeded_demo; patch reverted -> demo again",
        "suite_with_patch": "228 tests run: 228 passed",
        "demo_with_patch": "FAILED",
        "demo_without_patch": "ok",
        "patch_rebased_onto_current_head": True
      },
      "detection": {
        "how": "tools/seed_detect.sh / tools/seed_matrix.sh: git -C /repo apply patch.diff; ./check <Cxx> quick; git -C /repo checkout -- .",
        "quick_checks_that_report_a_violation": detected,
        "caught_by_own_property_check": prop in detected
      }
    }
    json.dump(meta, open(os.path.join(d,'meta.json'),'w'), indent=1)
print("wrote meta.json for", len(glob.glob(ROOT+'/C*/')), "seeds")
