#!/bin/bash
# seed_detect.sh <name> <prop> [more props...]: applies /verif/seeded/<name>/patch.diff to /repo, runs the quick checks, reverts.
NAME="$1"; shift
cd /verif
if ! git -C /repo diff --quiet; then echo "/repo has uncommitted changes; refusing"; exit 2; fi
git -C /repo apply /verif/seeded/$NAME/patch.diff || { echo "$NAME: cannot apply to /repo"; exit 2; }
RES=""
EVBAK=$(mktemp -d); cp -a evidence/. $EVBAK/
for P in "$@"; do
  OUT=$(./check $P ${TIER:-quick} 2>&1); RC=$?
  SIG=$(echo "$OUT" | grep -m1 "violation clause" | sed 's/.*sig=\([^ ]*\).*/\1/')
  RES="$RES $P=$RC($SIG)"
done
git -C /repo checkout -- .
cp -a $EVBAK/. evidence/; rm -rf $EVBAK; rm -f replays/*.json
echo "$NAME:$RES"
