#!/usr/bin/env python3
"""Writes /verif/MANIFEST.json from the table below (kept in one place so the manifest is always valid)."""
import json, os
ROOT = os.path.dirname(os.path.dirname(os.path.abspath(__file__)))

# id -> (category, technique, level text, level note, design ref)
CHECKS = {
 "C01": ("exploration", "property-based testing (proptest, shrinking): generated A/V histories, round-trip through an independent ISO-BMFF reader",
         "Every sample-table entry of every generated file is dereferenced and compared byte-for-byte with the submitted frame in MP4 framing; ranges must tile the mdat payload. A fixed list of long / large recordings (1 100 .. 1 048 700 samples, single samples to 16 MiB, files beyond 2^24 / 2^31 bytes) runs through the same oracle. Exploration of generated histories (no exhaustiveness): the right level because the property quantifies over unbounded histories and sizes.",
         "Trusted: harness reader (stsc/stco/stsz/stss resolution), generator-side expected framing, rustc/proptest.", "3/C01"),
 "C02": ("exploration", "property-based testing: generated histories, strict recursive box-grammar validity predicate",
         "Every emitted stream is parsed by a strict walker that fails on one byte of slack/overrun, then mandatory boxes and table counts are checked.",
         "Trusted: box grammar encoded in harness/src/reader.rs.", "3/C02"),
 "C03": ("exploration", "property-based testing: generated timelines, reference exact-integer tick arithmetic vs stts/ctts/mdhd read back",
         "Timing tables of every generated file are expanded and compared with exactly rounded submitted timestamps (deltas, drift, last duration, signed composition offsets, ctts iff non-zero, mdhd = sum). The convenience calls' own clocks (encode_video / encode_audio) are judged against the documented instants (auto_timestamps).",
         "Trusted: ticks_exact (integer arithmetic on the f64 mantissa), harness reader. Half-tick ties are unconstrained and counted.", "3/C03"),
 "C08": ("exploration", "property-based testing: differential/metamorphic relation between the fast-start and standard layouts of the same history",
         "Each history is muxed twice; top-level order, per-layout sample resolution and equality of the layout-free description are checked.",
         "Trusted: harness reader; description covers headers, config, timing, samples (bytes), udta.", "3/C08"),
 "C09": ("exploration", "property-based testing: cross-track presentation timeline (stts+ctts+elst) vs submitted timestamps",
         "Audio presentation times relative to the first video sample are compared with the submitted differences to one tick. The known root cause (tracks start at 0, no offset written) is excluded by exact signature; any other deviation is reported.",
         "Trusted: presentation-time model in props/c09.rs (edit lists honoured when present).", "3/C09"),
 "C15": ("exploration", "property-based testing: merge-order model on true payload locations found by byte search",
         "The true storage location of each uniquely tagged sample is found by searching the mdat, independent of the tables; per-track order and the cross-track timestamp merge (video first on ties) are checked under four submission orders.",
         "Trusted: unique payload tags; ambiguous searches are skipped and counted.", "3/C15"),
 "C04": ("exploration", "stateful property-based testing: generated call histories interpreted against a 3-valued executable reference model of docs/contract.md",
         "Every call of every generated history is judged must-accept / must-reject(class set) / unconstrained by the model; accept, reject and error-naming clauses are checked. Unconstrained cases are counted, and the model then follows the implementation.",
         "Trusted: the contract model in harness/src/contract.rs (appendix C of DESIGN.md).", "3/C04"),
 "C05": ("exploration", "property-based testing: metamorphic relation (history vs history with its rejected calls deleted)",
         "Decisions, statistics and output bytes of H and H-minus-rejected-calls must be identical, for the progressive and the fragmented muxer; each rejected call re-inserted alone must be rejected again; fixed lists add rejection bursts (1..300 calls), long accepted runs after a rejection and more than 2^32 rejected bytes.",
         "Purely differential; no model needed.", "3/C05"),
 "C06": ("exploration", "property-based testing: recording sink + accounting model over histories with finish attempts anywhere",
         "A sink that tags each write with the API call in progress shows that only the one successful finish writes; delivered bytes, frame counts, byte count and duration are recomputed independently. scenario_statistics repeats the statistics clauses on the scenario generator's content-rich histories and against the file's own sample counts.",
         "Trusted: tick arithmetic; a lone sample's end may be pts+0 or pts+1.", "3/C06"),
 "C07": ("exploration", "property-based testing: independent bitstream writers (AV1 sequence header per spec syntax, NAL/OBU builders) -> expected configuration record",
         "The stsd entry of files and init segments is decoded per the codec bindings and compared with the structured value the keyframe was written from. Three mono_chrome signatures are listed open findings.",
         "Trusted: the AV1 header writer in gen.rs follows spec section 5.5; VP9 uses muxide's documented accepted form.", "3/C07"),
 "C10": ("exploration", "stateful property-based testing: op sequences against a queue model, every segment parsed, differential purity run",
         "After every step the model queue, acceptance rule and sequence numbers are compared; each flushed segment is parsed and every sample located via data_offset. several_muxers: the same judgement for every muxer of a pool kept alive on one thread and fed alternately.",
         "Trusted: harness segment parser (tfhd/tfdt/trun).", "3/C10"),
 "C11": ("exploration", "property-based testing: timeline relations inside and across generated segmentations",
         "In-segment deltas, signed composition offsets, non-sync flags, base decode time monotonicity/non-overlap/constant origin and init byte-stability.",
         "Constant-origin clause only judged for constant-interval input with >= 2 samples per segment, as the property states.", "3/C11"),
 "C13": ("fault_enumeration", "fault-injection enumeration over generated histories: scripted Write sink failing at every call index x 20 error kinds (ErrorKinds and genuine OS error codes) and every byte offset, plus generated short-write/Interrupted schedules",
         "For each generated small history every sink write call and every output byte offset is a fault point (exhaustive per history); clauses: no panic, Err iff a write ultimately failed, accepted bytes are a prefix of the fault-free file, nothing written and no call succeeding after the finish, benign schedules are transparent. aimed_offsets: recordings built in two passes so that a sample ends exactly at file offset 4 KiB .. 128 KiB; every write call of those fails (sticky and once) and faults after exactly 2^k accepted bytes.",
         "Trusted: std write_all semantics; unbounded Interrupted runs are not generated.", "3/C13"),
 "C14": ("exploration", "exhaustive small-scope enumeration + property-based testing against an independent reference splitter; ADTS lengths enumerated exhaustively and read back from muxed files",
         "All strings over {00,01,03,AB} up to length 10 (quick) / 13 (thorough) and all 8192 ADTS lengths x flag x buffer relation are enumerated; constructive NAL lists and random biased strings are generated.",
         "Sub-spaces are exhaustive, the property as a whole (all byte strings) is explored. Zero-payload ADTS excluded while that finding is open.", "3/C14"),
 "C16": ("exploration", "boundary-directed property-based testing: generators straddling 2^8/2^16/2^31/2^32/2^53/2^64, exact recomputation of every numeric field or a justified error",
         "Either a call fails and the value really does not fit, or every field read back equals the exact value from the history. Nine narrowing sites are listed open findings by signature. The 4 GiB limits (mdat size, chunk offsets) are probed by a fixed list of ~4 GiB recordings (two in the quick tier, seven in the thorough tier), not searched; long recordings up to 1 048 700 samples run through the same oracle.",
         "Trusted: exact tick arithmetic; reader field widths per version.", "3/C16"),
 "C18": ("exploration", "exhaustive enumeration (all 26^3 language codes; every day 1970-9999 at two instants quick / three instants thorough, every second of whole days) + property-based titles with a metadata/no-metadata differential",
         "Independent civil-from-days calendar, 5-bit language unpacking, udta decoder; isolation by differential description. command_line: titles and languages given to the real binary (quoted, padded, line-terminated, multi-byte; ISO 639-2 B/T pairs) are read back from the file.",
         "ISO-8601 claimed to year 9999; beyond only termination (10 s deadline).", "3/C18"),
 "C19": ("exploration", "property-based testing over configurations with strict specification-derived decoders per box and record",
         "Every fixed-layout box/record of progressive files, init segments and media segments is decoded strictly (size, version, flags, reserved bits, positions). The progressive tkhd length/flags deviations are listed open findings; its remaining fields are still judged at the shifted positions. av1C profile/level/tier are compared with the sequence header in the record's own configOBUs, avcC's High-profile extension and hvcC's chroma format / bit depths / general profile-tier-level bytes with the SPS the record carries (own bit readers; generated SPS open like real ones); the handler type with the sample entry's coding and the media header box.",
         "Trusted: my reading of ISO/IEC 14496-12/-14/-15 and the AV1/VP9/Opus bindings (appendix A of DESIGN.md).", "3/C19"),
 "C12": ("exploration", "property-based testing with a panic hook, overflow-checked build and a watchdog thread per case (parsers on generated/mutated bitstreams, raw-valued API histories); libFuzzer targets for the thorough tier",
         "Every public parser, the progressive API and the fragmented API are driven with arbitrary and boundary values; any panic, arithmetic overflow or call exceeding the deadline (10 s, confirmed at 60 s) is a violation. Display/Debug of the codec enums and of every returned error also run under width / fill / alignment / precision specifications; the generators of C04, C07, C16 and C18 are borrowed and judged for panics only.",
         "Trusted: overflow-checked release build behaves like the user's build apart from the checks; contract_test/assert_invariant are documented to panic and excluded.", "3/C12"),
 "C17": ("exploration", "property-based testing: byte equality across instances, 1..16 concurrent threads, 9 sink types and pairs of equivalent API paths; plus a compile probe for the type-level Send/Sync clause",
         "Generated pools of histories are replayed in other instances, threads and sinks and through alias/finish/none/encode paths; all must equal the single-threaded reference byte for byte. Muxers of a pool (progressive, fragmented, mixed) are also kept alive together on one thread and driven alternately; after a muxer whose sink failed at each of its write calls the next recordings on the thread are compared with their references; child processes vary environment variables and the kind of file behind the standard streams (null, file, pseudo-terminal); sinks that panic in write() or fail in flush(); muxers moved to another thread in the middle of a history.",
         "The 'for all W: Send' clause is decided by the compiler on harness/send_probe, not by generated search (declared).", "3/C17"),
 "C20": ("exploration", "property-based testing: subprocess (built CLI) vs in-process library differential over a generated option grammar and input-file classes",
         "Generated command lines are run against the binary built from the working tree; output file and reported counts must equal the library's, invalid cases must exit non-zero without a completion report, validate verdicts follow the stated rule, info terminates and lists the reader's top-level boxes. Output and input paths are also spelt relative to the child's working directory; titles up to ~120 mixed-width characters; info is also run on well-formed files of other writers (64-bit box sizes, size-0 last box, free/skip/uuid boxes, headers straddling 8 KiB blocks).",
         "Trusted: in-process run uses the same single-frame-at-t=0 convention the CLI documents; 20 s process deadline.", "3/C20"),
}
NOT_YET = {
}
ALL = ["C%02d" % i for i in range(1, 21)]

def main():
    checks = []
    for pid in ALL:
        if pid not in CHECKS:
            continue
        cat, tech, text, note, ref = CHECKS[pid]
        checks.append({
            "property_id": pid,
            "quick_cmd": "./check %s quick" % pid,
            "thorough_cmd": "./check %s thorough" % pid,
            "evidence_file": "evidence/%s.json" % pid,
            "replay_cmd_template": "./check %s --replay {path}" % pid,
            "engine": "harness",
            "level_claimed": {"category": cat, "text": text, "design_ref": "DESIGN.md section " + ref},
            "level_note": note,
            "technique": tech,
        })
    na = []
    for pid in ALL:
        if pid not in CHECKS:
            na.append({"property_id": pid, "reason": NOT_YET.get(pid, "check not built yet in this round (planned, see DESIGN.md); not claimed until its check exists")})
    m = {
        "version": 1,
        "setup_cmd": "cd harness && CARGO_NET_OFFLINE=true cargo build --release --offline",
        "hooks": {
            "guard": "muxide_verif",
            "enable": "no hooks exist: every property is observed through the public API, the Write sink, the CLI process boundary and the panic hook; the cfg name is reserved only",
            "baseline_off_cmd": "cd /repo && cargo nextest run --workspace --no-fail-fast --test-threads 8 --offline || cargo test --workspace --no-fail-fast --offline",
            "source_commits": [],
            "add_only": True,
        },
        "engines": [
            {"name": "harness", "path": "harness", "serves_properties": [c["property_id"] for c in checks],
             "kind_free_text": "Rust crate: proptest TestRunner (fixed seeds, shrinking), exhaustive enumerators, independent ISO-BMFF reader and reference models; muxide is a path dependency on /repo so every run rebuilds from the working tree"},
        ],
        "checks": checks,
        "not_applicable": na,
        "notes": "exit 0 held / 1 VIOLATION / 2 infrastructure (no verdict). VERIF_SEED selects the PRNG seed; KNOWN_FINDINGS.txt lists open findings by signature.",
    }
    json.dump(m, open(os.path.join(ROOT, "MANIFEST.json"), "w"), indent=1)
    print("wrote MANIFEST.json with", len(checks), "checks,", len(na), "not_applicable")

main()
