#!/bin/bash
# add_known.sh <prop> <replay-file> <sig> <name> <text...>
P=$1; R=$2; S=$3; N=$4; shift 4
cp "$R" replays/known/$P-$N.json
echo "open: property=$P sig=$S replay=replays/known/$P-$N.json :: $*" >> KNOWN_FINDINGS.txt
