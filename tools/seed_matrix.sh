#!/bin/bash
# Runs every quick check against every confirmed seed (applied to /repo, reverted afterwards); writes seeded/MATRIX.tsv
cd /verif
EVBAK=$(mktemp -d); cp -a /verif/evidence/. $EVBAK/
trap 'cp -a $EVBAK/. /verif/evidence/; rm -rf $EVBAK; rm -f /verif/replays/*.json' EXIT
OUT=seeded/MATRIX.tsv
: > $OUT
for d in seeded/C*/; do
  NAME=$(basename $d)
  if ! git -C /repo diff --quiet; then echo "/repo dirty"; exit 2; fi
  if ! git -C /repo apply /verif/$d/patch.diff 2>/dev/null; then echo -e "$NAME\tPATCH_DOES_NOT_APPLY" >> $OUT; continue; fi
  LINE="$NAME"
  for P in $(seq -f "C%02g" 1 20); do
    RES=$(./check $P quick 2>&1); RC=$?
    SIG=$(echo "$RES" | grep -m1 "violation clause" | sed 's/.*sig=\([^ ]*\).*/\1/' | cut -c1-80)
    if [ $RC = 1 ]; then LINE="$LINE\t$P:$SIG"; elif [ $RC != 0 ]; then LINE="$LINE\t$P:rc$RC"; fi
  done
  git -C /repo checkout -- .
  echo -e "$LINE" >> $OUT
  echo -e "$LINE"
done
