#!/usr/bin/env python3
import json, sys, glob, jsonschema
m = json.load(open('/verif/MANIFEST.json'))
jsonschema.validate(m, json.load(open('/root/.vp/MANIFEST.schema.json')))
es = json.load(open('/root/.vp/EVIDENCE.schema.json'))
for c in m['checks']:
    p = '/verif/' + c['evidence_file']
    try:
        jsonschema.validate(json.load(open(p)), es)
    except FileNotFoundError:
        print('missing', p)
    except Exception as e:
        print('INVALID', p, str(e)[:300])
print('manifest ok;', len(m['checks']), 'checks')
