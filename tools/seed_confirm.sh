#!/bin/bash
# seed_confirm.sh <src-dir> <name>   e.g. seed_confirm.sh /tmp/wt/C01/seeded/a C01a
# Confirms a seeded change in a scratch worktree of /repo HEAD: (1) patch applies, (2) repo suite passes with it,
# (3) demo fails with it, (4) demo passes without it.  Prints one summary line; copies into /verif/seeded/<name>/ on success.
SRC="$1"; NAME="$2"
WT=/tmp/seedchk/wt${SLOT:-}
export CARGO_NET_OFFLINE=true
mkdir -p /tmp/seedchk
if [ ! -d "$WT" ]; then git -C /repo worktree add -q --detach "$WT" HEAD || exit 2; fi
cd "$WT" || exit 2
git checkout -q --detach "$(git -C /repo rev-parse HEAD)" 2>/dev/null
git reset -q --hard HEAD; rm -f tests/seeded_demo.rs
if ! git apply "$SRC/patch.diff" 2>/tmp/seedchk/apply${SLOT:-}.err; then
  if ! git apply --3way "$SRC/patch.diff" 2>>/tmp/seedchk/apply${SLOT:-}.err; then echo "$NAME: PATCH DOES NOT APPLY"; head -3 /tmp/seedchk/apply${SLOT:-}.err; git reset -q --hard HEAD; exit 1; fi
fi
git diff HEAD -- src > /tmp/seedchk/rebased${SLOT:-}.diff
git reset -q
SUITE=$(cargo nextest run --workspace --no-fail-fast --test-threads 8 --offline 2>&1 | grep -E "Summary" | tail -1)
cp "$SRC/demo.rs" tests/seeded_demo.rs
DEMO_WITH=$(cargo test --offline --test seeded_demo 2>&1 | grep -E "^test result|^error(\[|:)" | head -3 | tr '\n' ' ')
git reset -q --hard HEAD
DEMO_WITHOUT=$(cargo test --offline --test seeded_demo 2>&1 | grep -E "^test result|^error(\[|:)" | head -3 | tr '\n' ' ')
rm -f tests/seeded_demo.rs
echo "$NAME: suite[$SUITE] demo_with_patch[$DEMO_WITH] demo_without[$DEMO_WITHOUT]"
OK=1
echo "$SUITE" | grep -q "228 passed" || OK=0
echo "$DEMO_WITH" | grep -q "FAILED" || OK=0
echo "$DEMO_WITHOUT" | grep -q "test result: ok" || OK=0
if [ $OK = 1 ]; then
  mkdir -p /verif/seeded/$NAME
  cp /tmp/seedchk/rebased${SLOT:-}.diff /verif/seeded/$NAME/patch.diff
  cp "$SRC/demo.rs" /verif/seeded/$NAME/demo.rs
  cp "$SRC/meta.json" /verif/seeded/$NAME/meta.agent.json
  echo "$NAME: CONFIRMED"
else
  echo "$NAME: NOT CONFIRMED"
fi
