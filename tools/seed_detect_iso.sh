#!/bin/bash
# seed_detect_iso.sh <slot> <name> <prop> [more props...]
# Like seed_detect.sh, but never touches /repo's working tree: a scratch worktree of /repo HEAD plus a scratch copy of
# /verif (with the path dependency pointed at the worktree) live under /tmp/det/<slot>.  Several slots can run in
# parallel, and a `vp run` that uses /repo is not disturbed.  Detection only; nothing registered in MANIFEST uses this.
SLOT="$1"; NAME="$2"; shift 2
D=/tmp/det/$SLOT
export CARGO_NET_OFFLINE=true
mkdir -p $D
if [ ! -d $D/repo ]; then git -C /repo worktree add -q -f --detach $D/repo HEAD || exit 2; fi
git -C $D/repo checkout -q --detach "$(git -C /repo rev-parse HEAD)" 2>/dev/null
git -C $D/repo reset -q --hard HEAD; git -C $D/repo clean -fdq -e target
rsync -a --delete --exclude harness/target --exclude fuzz/target --exclude fuzz/corpus --exclude .git --exclude evidence --exclude replays /verif/ $D/verif/
mkdir -p $D/verif/evidence $D/verif/replays
cp -a /verif/replays/known $D/verif/replays/ 2>/dev/null
sed -i "s#\"/repo#\"$D/repo#g" $D/verif/harness/src/exec.rs $D/verif/harness/src/props/c20.rs $D/verif/harness/Cargo.toml $D/verif/harness/send_probe/Cargo.toml
PATCH=/verif/seeded/$NAME/patch.diff
[ -f "$PATCH" ] || PATCH="$NAME"
if [ "$NAME" != "none" ]; then
  git -C $D/repo apply "$PATCH" || { echo "$NAME: cannot apply"; exit 2; }
fi
RES=""
for P in "$@"; do
  OUT=$(cd $D/verif && ./check $P ${TIER:-quick} 2>&1); RC=$?
  SIG=$(echo "$OUT" | grep -m1 "violation clause" | sed 's/.*sig=\([^ ]*\).*/\1/' | cut -c1-90)
  RES="$RES $P=$RC($SIG)"
  [ -n "${VERBOSE:-}" ] && echo "$OUT" | tail -${VERBOSE}
done
git -C $D/repo reset -q --hard HEAD; git -C $D/repo clean -fdq -e target
echo "$NAME:$RES"
