#!/usr/bin/env python3
"""Rewrites the block between <!-- BUDGET-BEGIN --> and <!-- BUDGET-END --> in DESIGN.md from evidence/*.json."""
import json, glob, os, re
ROOT = os.path.dirname(os.path.dirname(os.path.abspath(__file__)))
rows = []
for f in sorted(glob.glob(os.path.join(ROOT, 'evidence', 'C*.json'))):
    d = json.load(open(f))
    pid = os.path.basename(f)[:-5]
    cov = d.get('coverage', {})
    subs = cov.get('sub_checks') or {}
    if isinstance(subs, dict):
        sub_txt = ', '.join('%s %s' % (k, v.get('evaluations')) for k, v in subs.items())
    else:
        sub_txt = ''
    rows.append('| %s | %s | %s | %s | %.1f s | %s |' % (pid, d.get('tier', ''), cov.get('evaluations'), cov.get('distinct_nontrivial'), d.get('wall_s', 0.0), sub_txt))
block = ['<!-- BUDGET-BEGIN -->', 'Measured by the last committed quick run on the unchanged tree (generated from `evidence/*.json` by `tools/design_budget.py`):', '',
         '| id | tier | evaluations | distinct non-trivial | wall | sub-checks (evaluations) |', '|----|------|-------------|----------------------|------|--------------------------|'] + rows + ['<!-- BUDGET-END -->']
p = os.path.join(ROOT, 'DESIGN.md')
s = open(p).read()
if '<!-- BUDGET-BEGIN -->' in s:
    s = re.sub(r'<!-- BUDGET-BEGIN -->.*?<!-- BUDGET-END -->', '\n'.join(block), s, flags=re.S)
else:
    s = s.replace('\n## 1. Ground rules\n', '\n' + '\n'.join(block) + '\n\n## 1. Ground rules\n', 1)
open(p, 'w').write(s)
print('budget table:', len(rows), 'rows')
