#!/usr/bin/env python3
"""Regenerates the seeds table in DESIGN.md (between the SEEDS markers) from seeded/*/meta.json."""
import json, glob, os, re
rows=[]
for f in sorted(glob.glob('/verif/seeded/C*/meta.json')):
    m=json.load(open(f))
    det=m['detection']['quick_checks_that_report_a_violation']
    own=m['property_broken']
    dets=', '.join('%s (%s)'%(k,v[:45]) for k,v in sorted(det.items(), key=lambda kv:(kv[0]!=own,kv[0])))
    summ=(m.get('summary') or '').replace('\n',' ').replace('|','/')
    need=(m.get('needs_to_manifest') or '').replace('\n',' ').replace('|','/')
    rows.append('| %s | %s | %s | %s |'%(m['name'], summ[:170]+('…' if len(summ)>170 else ''), need[:150]+('…' if len(need)>150 else ''), dets or '**none**'))
tbl='| seed | change | needs | quick checks that report it (signature) |\n|------|--------|-------|------------------------------------------|\n'+'\n'.join(rows)
n=len(rows)
own=sum(1 for f in glob.glob('/verif/seeded/C*/meta.json') if json.load(open(f))['detection']['caught_by_own_property_check'])
head='%d confirmed seeds; %d are reported by the check of the property they were written against, the rest by a neighbouring property\'s check (listed).\n\n'%(n,own)
p='/verif/DESIGN.md'
s=open(p).read()
a=s.index('<!-- SEEDS-BEGIN -->')+len('<!-- SEEDS-BEGIN -->')
b=s.index('<!-- SEEDS-END -->')
s=s[:a]+'\n'+head+tbl+'\n'+s[b:]
open(p,'w').write(s)
print(n,'seeds,',own,'caught by own check')
