//! Executes concrete call histories against muxide's progressive API and records everything observable.

use muxide::api::{AacProfile, AudioCodec, Metadata, Muxer, MuxerBuilder, MuxerError, MuxerStats, VideoCodec};
use std::cell::RefCell;
use std::io::Write;
use std::panic::{catch_unwind, AssertUnwindSafe};
use std::sync::{Arc, Mutex, Once};

// ------------------------------------------------------------------------------------------
// panic capture

thread_local! {
    static LAST_PANIC: RefCell<Option<String>> = RefCell::new(None);
}
static HOOK: Once = Once::new();

pub fn install_panic_hook() {
    HOOK.call_once(|| {
        std::panic::set_hook(Box::new(|info| {
            let msg = if let Some(s) = info.payload().downcast_ref::<&str>() {
                s.to_string()
            } else if let Some(s) = info.payload().downcast_ref::<String>() {
                s.clone()
            } else {
                "<non-string panic>".to_string()
            };
            let loc = info.location().map(|l| l.file().to_string()).unwrap_or_default();
            let in_muxide = loc.starts_with("/repo/") || loc.contains("muxide");
            let in_harness = !in_muxide && (loc.starts_with("src/") || loc.contains("/verif/harness/") || loc.contains("harness/src"));
            LAST_PANIC.with(|p| *p.borrow_mut() = Some(format!("{} @ {}", normalise_msg(&msg), short_file(&loc))));
            if (in_harness && !in_muxide) || std::env::var_os("VERIF_DEBUG_PANIC").is_some() {
                eprintln!("HARNESS PANIC: {} at {:?}", msg, info.location());
            }
        }));
    });
}

fn short_file(f: &str) -> String {
    match f.find("src/") {
        Some(i) if f.contains("/repo/") => f[i..].to_string(),
        _ => f.rsplit('/').take(2).collect::<Vec<_>>().into_iter().rev().collect::<Vec<_>>().join("/"),
    }
}

/// Strip run-specific numbers from a panic message so that the signature is stable.
fn normalise_msg(m: &str) -> String {
    let mut out = String::new();
    let mut last_digit = false;
    for ch in m.chars() {
        if ch.is_ascii_digit() {
            if !last_digit {
                out.push('#');
            }
            last_digit = true;
        } else {
            out.push(ch);
            last_digit = false;
        }
    }
    // keep INV ids readable: "INV-#" is fine
    if out.len() > 120 {
        // never cut inside a multi-byte character (a panic inside the panic hook aborts the whole process)
        let cut = (0..=120).rev().find(|i| out.is_char_boundary(*i)).unwrap_or(0);
        out.truncate(cut);
    }
    out
}

/// Run `f`, catching a panic; Err carries the panic signature.
pub fn guarded<T>(f: impl FnOnce() -> T) -> Result<T, String> {
    install_panic_hook();
    LAST_PANIC.with(|p| *p.borrow_mut() = None);
    match catch_unwind(AssertUnwindSafe(f)) {
        Ok(v) => Ok(v),
        Err(_) => Err(LAST_PANIC.with(|p| p.borrow_mut().take()).unwrap_or_else(|| "panic (no message)".into())),
    }
}

// ------------------------------------------------------------------------------------------
// sinks

#[derive(Default, Debug)]
pub struct SinkState {
    pub bytes: Vec<u8>,
    /// (api call index in progress, bytes offered, bytes accepted)
    pub writes: Vec<(usize, usize, usize)>,
    pub flushes: Vec<usize>,
    pub current_call: usize,
}

#[derive(Clone, Default)]
pub struct RecSink(pub Arc<Mutex<SinkState>>);

impl RecSink {
    pub fn new() -> Self {
        Self::default()
    }
    pub fn set_call(&self, i: usize) {
        self.0.lock().unwrap().current_call = i;
    }
    pub fn bytes(&self) -> Vec<u8> {
        self.0.lock().unwrap().bytes.clone()
    }
    pub fn n_writes(&self) -> usize {
        self.0.lock().unwrap().writes.len()
    }
}

impl Write for RecSink {
    fn write(&mut self, buf: &[u8]) -> std::io::Result<usize> {
        let mut s = self.0.lock().unwrap();
        let c = s.current_call;
        s.bytes.extend_from_slice(buf);
        s.writes.push((c, buf.len(), buf.len()));
        Ok(buf.len())
    }
    fn flush(&mut self) -> std::io::Result<()> {
        let mut s = self.0.lock().unwrap();
        let c = s.current_call;
        s.flushes.push(c);
        Ok(())
    }
}

// ------------------------------------------------------------------------------------------
// configuration and operations

#[derive(Clone, Debug, PartialEq)]
pub struct CCfg {
    pub codec: u8, // 0 h264, 1 h265, 2 av1, 3 vp9
    pub video: bool,
    /// 0 none configured, 1..=6 AAC profiles (Lc, Main, Ssr, Ltp, He, Hev2), 7 Opus, 8 AudioCodec::None passed explicitly
    pub audio: u8,
    pub sample_rate: u32,
    pub channels: u16,
    pub width: u32,
    pub height: u32,
    pub fps: f64,
    /// None = builder default
    pub fast_start: Option<bool>,
    pub title: Option<String>,
    pub ctime: Option<u64>,
    pub lang: Option<String>,
    /// with_metadata(Metadata::new()) even when all three are None
    pub empty_metadata: bool,
    /// use the alias builder methods (set_video_track / set_audio_track / set_create_time / set_language)
    pub alias_builder: bool,
    /// configure things twice, a decoy value first and the real one last (the last configuration must win):
    /// bit 0: every Metadata setter; bit 1: with_metadata(decoy) before with_metadata(real); bit 2: language / creation time
    /// re-set through the builder after with_metadata carried decoys; bit 3: video(), audio(), with_fast_start() twice;
    /// bits 4..6: order of the Metadata with_* chain (six permutations of title / creation time / language)
    pub reconfig: u8,
    /// 1..=7: every frame is handed to the muxer as a sub-slice that starts at that offset inside a larger buffer (same bytes,
    /// another memory alignment); 0: the frame's own Vec
    pub misalign: u8,
}

impl CCfg {
    pub fn basic(codec: u8) -> Self {
        CCfg {
            codec,
            video: true,
            audio: 0,
            sample_rate: 48000,
            channels: 2,
            width: 640,
            height: 480,
            fps: 30.0,
            fast_start: None,
            title: None,
            ctime: None,
            lang: None,
            empty_metadata: false,
            alias_builder: false,
            reconfig: 0,
            misalign: 0,
        }
    }
    pub fn has_audio(&self) -> bool {
        (1..=7).contains(&self.audio)
    }
    pub fn is_aac(&self) -> bool {
        (1..=6).contains(&self.audio)
    }
    pub fn fast_start_effective(&self) -> bool {
        self.fast_start.unwrap_or(true)
    }
}

pub fn vcodec(c: u8) -> VideoCodec {
    match c % 4 {
        0 => VideoCodec::H264,
        1 => VideoCodec::H265,
        2 => VideoCodec::Av1,
        _ => VideoCodec::Vp9,
    }
}

pub fn acodec(a: u8) -> AudioCodec {
    match a {
        1 => AudioCodec::Aac(AacProfile::Lc),
        2 => AudioCodec::Aac(AacProfile::Main),
        3 => AudioCodec::Aac(AacProfile::Ssr),
        4 => AudioCodec::Aac(AacProfile::Ltp),
        5 => AudioCodec::Aac(AacProfile::He),
        6 => AudioCodec::Aac(AacProfile::Hev2),
        7 => AudioCodec::Opus,
        _ => AudioCodec::None,
    }
}

#[derive(Clone, Copy, Debug, PartialEq, Eq, Hash, serde::Serialize, serde::Deserialize)]
pub enum FinishKind {
    InPlace,
    InPlaceStats,
    Finish,
    FinishStats,
    Flush,
}

impl FinishKind {
    pub fn consuming(self) -> bool {
        matches!(self, FinishKind::Finish | FinishKind::FinishStats | FinishKind::Flush)
    }
    pub fn from_idx(i: u8) -> Self {
        match i % 5 {
            0 => FinishKind::InPlace,
            1 => FinishKind::InPlaceStats,
            2 => FinishKind::Finish,
            3 => FinishKind::FinishStats,
            _ => FinishKind::Flush,
        }
    }
}

#[derive(Clone, Debug)]
pub enum COp {
    Video { pts: f64, data: Vec<u8>, key: bool },
    VideoDts { pts: f64, dts: f64, data: Vec<u8>, key: bool },
    Audio { pts: f64, data: Vec<u8> },
    EncVideo { data: Vec<u8>, ms: u32 },
    EncAudio { data: Vec<u8>, samples: u32 },
    Finish(FinishKind),
}

impl COp {
    pub fn is_video(&self) -> bool {
        matches!(self, COp::Video { .. } | COp::VideoDts { .. } | COp::EncVideo { .. })
    }
    pub fn is_audio(&self) -> bool {
        matches!(self, COp::Audio { .. } | COp::EncAudio { .. })
    }
    pub fn is_finish(&self) -> bool {
        matches!(self, COp::Finish(_))
    }
}

/// Classes of errors = preconditions of the documented contract (DESIGN appendix C).
#[derive(Clone, Copy, Debug, PartialEq, Eq, Hash, PartialOrd, Ord)]
pub enum ErrClass {
    VideoConfig,
    NonFinite,
    Negative,
    VideoOrder,
    AudioOrder,
    AudioBeforeVideo,
    Empty,
    FirstFrameKey,
    FirstFrameConfig,
    AudioFraming,
    DurationOverflow,
    AudioNotConfigured,
    Finished,
    IoOther,
}

pub fn classify(e: &MuxerError, codec: u8, aac: bool) -> (ErrClass, &'static str) {
    use ErrClass::*;
    match e {
        MuxerError::MissingVideoConfig => (VideoConfig, "MissingVideoConfig"),
        MuxerError::Io(ioe) => {
            if ioe.kind() == std::io::ErrorKind::InvalidData && ioe.to_string().contains("duration overflow") {
                (DurationOverflow, "Io(duration overflow)")
            } else {
                (IoOther, "Io")
            }
        }
        MuxerError::AlreadyFinished => (Finished, "AlreadyFinished"),
        MuxerError::NegativeVideoPts { .. } => (Negative, "NegativeVideoPts"),
        MuxerError::NegativeVideoDts { .. } => (Negative, "NegativeVideoDts"),
        MuxerError::InvalidVideoPts { .. } => (NonFinite, "InvalidVideoPts"),
        MuxerError::InvalidVideoDts { .. } => (NonFinite, "InvalidVideoDts"),
        MuxerError::NegativeAudioPts { .. } => (Negative, "NegativeAudioPts"),
        MuxerError::InvalidAudioPts { .. } => (NonFinite, "InvalidAudioPts"),
        MuxerError::AudioNotConfigured => (AudioNotConfigured, "AudioNotConfigured"),
        MuxerError::EmptyAudioFrame { .. } => (Empty, "EmptyAudioFrame"),
        MuxerError::EmptyVideoFrame { .. } => (Empty, "EmptyVideoFrame"),
        MuxerError::NonIncreasingVideoPts { .. } => (VideoOrder, "NonIncreasingVideoPts"),
        MuxerError::DecreasingAudioPts { .. } => (AudioOrder, "DecreasingAudioPts"),
        MuxerError::AudioBeforeFirstVideo { .. } => (AudioBeforeVideo, "AudioBeforeFirstVideo"),
        MuxerError::FirstVideoFrameMustBeKeyframe => (FirstFrameKey, "FirstVideoFrameMustBeKeyframe"),
        MuxerError::FirstVideoFrameMissingSpsPps => {
            if codec <= 1 {
                (FirstFrameConfig, "FirstVideoFrameMissingSpsPps")
            } else {
                (IoOther, "FirstVideoFrameMissingSpsPps(wrong codec)")
            }
        }
        MuxerError::FirstAv1FrameMissingSequenceHeader => {
            if codec == 2 {
                (FirstFrameConfig, "FirstAv1FrameMissingSequenceHeader")
            } else {
                (IoOther, "FirstAv1FrameMissingSequenceHeader(wrong codec)")
            }
        }
        MuxerError::FirstVp9FrameMissingSequenceHeader => {
            if codec == 3 {
                (FirstFrameConfig, "FirstVp9FrameMissingSequenceHeader")
            } else {
                (IoOther, "FirstVp9FrameMissingSequenceHeader(wrong codec)")
            }
        }
        MuxerError::InvalidAdts { .. } | MuxerError::InvalidAdtsDetailed { .. } => {
            if aac {
                (AudioFraming, "InvalidAdts")
            } else {
                (IoOther, "InvalidAdts(not aac)")
            }
        }
        MuxerError::InvalidOpusPacket { .. } => {
            if !aac {
                (AudioFraming, "InvalidOpusPacket")
            } else {
                (IoOther, "InvalidOpusPacket(not opus)")
            }
        }
        MuxerError::NonIncreasingDts { .. } => (VideoOrder, "NonIncreasingDts"),
        // an error variant this harness does not know (added by a later change to the library): the harness keeps compiling
        // and the contract model treats it as naming no documented precondition
        #[allow(unreachable_patterns)]
        _ => (IoOther, "UnknownVariant"),
    }
}

#[derive(Clone, Debug, PartialEq)]
pub enum CallResult {
    Ok,
    OkStats(StatsLite),
    Err { class: ErrClass, variant: &'static str, display: String },
    Panic(String),
    /// not executed (muxer consumed / earlier panic)
    Skipped,
}

impl CallResult {
    pub fn is_ok(&self) -> bool {
        matches!(self, CallResult::Ok | CallResult::OkStats(_))
    }
    pub fn is_err(&self) -> bool {
        matches!(self, CallResult::Err { .. })
    }
    pub fn short(&self) -> String {
        match self {
            CallResult::Ok => "Ok".into(),
            CallResult::OkStats(s) => format!("Ok({:?})", s),
            CallResult::Err { variant, .. } => format!("Err({})", variant),
            CallResult::Panic(p) => format!("Panic({})", p),
            CallResult::Skipped => "Skipped".into(),
        }
    }
}

#[derive(Clone, Copy, Debug, PartialEq)]
pub struct StatsLite {
    pub video_frames: u64,
    pub audio_frames: u64,
    pub duration_secs_bits: u64,
    pub bytes_written: u64,
}
impl StatsLite {
    pub fn duration_secs(&self) -> f64 {
        f64::from_bits(self.duration_secs_bits)
    }
}
fn lite(s: MuxerStats) -> StatsLite {
    StatsLite {
        video_frames: s.video_frames,
        audio_frames: s.audio_frames,
        duration_secs_bits: s.duration_secs.to_bits(),
        bytes_written: s.bytes_written,
    }
}

#[derive(Debug)]
pub struct Run {
    pub build: CallResult,
    pub results: Vec<CallResult>,
    pub out: Vec<u8>,
    pub sink: SinkState,
    pub panic: Option<String>,
    /// index of the op whose finish succeeded first
    pub finished_at: Option<usize>,
    pub stats: Option<StatsLite>,
}

/// `CCfg::ctime` sentinel: configure the creation time with `Metadata::with_current_time()` instead of an explicit instant
pub const CTIME_NOW: u64 = u64::MAX - 12_345;

pub fn build_muxer<W: Write>(w: W, cfg: &CCfg) -> Result<Muxer<W>, MuxerError> {
    let mut b = MuxerBuilder::new(w);
    let rc = cfg.reconfig;
    let decoy_lang = if cfg.lang.as_deref() == Some("zxx") { "qaa" } else { "zxx" };
    let decoy_time = |t: u64| if t >= 86_400 { t - 86_399 } else { t + 31_622_400 };
    if rc & 8 != 0 && cfg.video {
        // decoys first: another codec, other dimensions, other audio parameters, the opposite layout
        b = b.video(vcodec((cfg.codec + 1) % 4), cfg.width + 16, cfg.height + 8, 12.5);
        if cfg.audio != 0 {
            b = b.audio(acodec(if cfg.audio == 7 { 1 } else { 7 }), 48000, 1);
        }
        if let Some(fs) = cfg.fast_start {
            b = b.with_fast_start(!fs);
        }
        // the fragmented-only parameter setters (documented as ignored by build()): a complete, plausible group for the SAME
        // codec - the progressive file must still take its configuration from the first keyframe
        b = b
            .with_sps(vec![0x67, 0x42, 0x00, 0x1e, 0x8d, 0x68, 0x50, 0x1e])
            .with_pps(vec![0x68, 0xce, 0x3c, 0x80])
            .with_vps(vec![0x40, 0x01, 0x0c, 0x01, 0xff, 0xff, 0x01, 0x60])
            .with_av1_sequence_header(crate::gen::obu(1, false, 0, true, 0, &crate::gen::Av1Seq::simple().payload()))
            .with_vp9_config(muxide::codec::vp9::Vp9Config { width: 64, height: 64, profile: 1, bit_depth: 8, color_space: 2, transfer_function: 2, matrix_coefficients: 2, level: 10, full_range_flag: 1 });
    }
    if cfg.video {
        b = if cfg.alias_builder {
            b.set_video_track(vcodec(cfg.codec), cfg.width, cfg.height, cfg.fps)
        } else {
            b.video(vcodec(cfg.codec), cfg.width, cfg.height, cfg.fps)
        };
    }
    if cfg.audio != 0 {
        b = if cfg.alias_builder {
            b.set_audio_track(acodec(cfg.audio), cfg.sample_rate, cfg.channels)
        } else {
            b.audio(acodec(cfg.audio), cfg.sample_rate, cfg.channels)
        };
    }
    if let Some(fs) = cfg.fast_start {
        b = b.with_fast_start(fs);
    }
    let any_meta = cfg.title.is_some() || cfg.ctime.is_some() || cfg.lang.is_some();
    if cfg.alias_builder && cfg.title.is_none() {
        if let Some(t) = cfg.ctime {
            b = b.set_create_time(t);
        }
        if let Some(l) = &cfg.lang {
            b = b.set_language(l.clone());
        }
        if !any_meta && cfg.empty_metadata {
            b = b.with_metadata(Metadata::new());
        }
    } else if any_meta || cfg.empty_metadata {
        if rc & 2 != 0 {
            b = b.with_metadata(Metadata::new().with_title("decoy title (e-acute: \u{e9})").with_creation_time(1).with_language(decoy_lang));
        }
        let late = rc & 4 != 0; // language / creation time arrive through the builder after with_metadata carried decoys
        let mut m = Metadata::new();
        // the with_* chain in one of its six orders (bits 4..6 of `reconfig`): every setter must leave the other fields alone
        let perm: [u8; 3] = [[0, 1, 2], [0, 2, 1], [1, 0, 2], [1, 2, 0], [2, 0, 1], [2, 1, 0]][((rc >> 4) % 6) as usize];
        for which in perm {
            match which {
                0 => {
                    if let Some(t) = &cfg.title {
                        if rc & 1 != 0 {
                            m = m.with_title(format!("{} (decoy)", t));
                        }
                        m = m.with_title(t.clone());
                    }
                }
                1 => {
                    if cfg.ctime == Some(CTIME_NOW) {
                        m = m.with_current_time();
                    } else if let Some(t) = cfg.ctime {
                        if rc & 1 != 0 || late {
                            m = m.with_creation_time(decoy_time(t));
                        }
                        if !late {
                            m = m.with_creation_time(t);
                        }
                    }
                }
                _ => {
                    if let Some(l) = &cfg.lang {
                        if rc & 1 != 0 || late {
                            m = m.with_language(decoy_lang);
                        }
                        if !late {
                            m = m.with_language(l.clone());
                        }
                    }
                }
            }
        }
        b = b.with_metadata(m);
        if late {
            if let Some(t) = cfg.ctime {
                b = b.set_create_time(decoy_time(t)).set_create_time(t);
            }
            if let Some(l) = &cfg.lang {
                b = b.set_language(decoy_lang).set_language(l.clone());
            }
        }
    }
    b.build()
}

fn to_result<T>(r: Result<Result<T, MuxerError>, String>, cfg: &CCfg, map: impl FnOnce(T) -> CallResult) -> CallResult {
    match r {
        Ok(Ok(v)) => map(v),
        Ok(Err(e)) => {
            let (class, variant) = classify(&e, cfg.codec % 4, cfg.is_aac());
            // every public way of looking at an error value must be panic-free as well (C12)
            let fmt = guarded(|| {
                // the text kept for comparisons between runs is the Display AND the Debug rendering (the latter shows every
                // field of the error value, e.g. the diagnostics attached to an ADTS rejection)
                let d = format!("{} | {:?}", e, e);
                let _ = format!("{:#}", e);
                // Display / Debug with a width, fill, alignment and precision, as a table or a log line applies them
                let _ = format!("{:>4.3}|{:<60}|{:*^7}|{:.0}|{:#?}|{:12?}", e, e, e, e, e, e);
                if let MuxerError::InvalidAdtsDetailed { error, .. } = &e {
                    let _ = error.to_json();
                    let _ = error.to_json_compact();
                    let _ = error.is_critical();
                    let _ = error.all_errors().len();
                    let _ = format!("{:#}", error);
                    let _ = format!("{:>3.2}|{:<200}|{:-^9}", error, error, error);
                }
                if let MuxerError::Io(ioe) = &e {
                    let _ = std::error::Error::source(ioe);
                }
                d
            });
            match fmt {
                Ok(display) => CallResult::Err { class, variant, display },
                Err(p) => CallResult::Panic(format!("formatting {}: {}", variant, p)),
            }
        }
        Err(p) => CallResult::Panic(p),
    }
}

/// Execute a history with a recording sink.
pub fn run_history(cfg: &CCfg, ops: &[COp]) -> Run {
    let sink = RecSink::new();
    run_history_on(cfg, ops, sink.clone(), move || {
        let s = sink.0.lock().unwrap();
        SinkState { bytes: s.bytes.clone(), writes: s.writes.clone(), flushes: s.flushes.clone(), current_call: s.current_call }
    })
}

/// Generic executor: `snapshot` extracts the sink state at the end. `set_call` is invoked through the RecSink clone by
/// the caller if needed (here: handled by wrapping in CallTagged).
/// Presents a frame at another memory alignment (see `CCfg::misalign`).
struct Misaligner {
    k: usize,
    buf: Vec<u8>,
}
impl Misaligner {
    fn get<'a>(&'a mut self, data: &'a [u8]) -> &'a [u8] {
        if self.k == 0 {
            return data;
        }
        self.buf.clear();
        // the allocator hands out blocks aligned to at least 8 bytes: the sub-slice starts at address = k (mod 8)
        self.buf.resize(self.k, 0xa5);
        self.buf.extend_from_slice(data);
        &self.buf[self.k..]
    }
}

/// One muxer driven call by call (so that several can be driven alternately on one thread).
pub struct Session<W: Write> {
    cfg: CCfg,
    muxer: Option<Muxer<W>>,
    al: Misaligner,
    pub build: CallResult,
    pub results: Vec<CallResult>,
    pub panic: Option<String>,
    pub finished_at: Option<usize>,
    pub stats: Option<StatsLite>,
}

impl<W: Write> Session<W> {
    pub fn new(sink: W, cfg: &CCfg) -> Self {
        let built = guarded(|| build_muxer(sink, cfg));
        let mut panic = None;
        let (build, muxer) = match built {
            Ok(Ok(m)) => (CallResult::Ok, Some(m)),
            Ok(Err(e)) => {
                let (class, variant) = classify(&e, cfg.codec % 4, cfg.is_aac());
                (CallResult::Err { class, variant, display: format!("{}", e) }, None)
            }
            Err(p) => {
                panic = Some(p.clone());
                (CallResult::Panic(p), None)
            }
        };
        Session { cfg: cfg.clone(), muxer, al: Misaligner { k: (cfg.misalign % 8) as usize, buf: Vec::new() }, build, results: Vec::new(), panic, finished_at: None, stats: None }
    }

    /// false: the call was skipped (no muxer any more, or an earlier panic)
    pub fn live(&self) -> bool {
        self.muxer.is_some() && self.panic.is_none()
    }

    pub fn step(&mut self, op: &COp) {
        let i = self.results.len();
        if !self.live() {
            self.results.push(CallResult::Skipped);
            return;
        }
        let cfg = &self.cfg;
        let al = &mut self.al;
        let muxer = &mut self.muxer;
        let r = match op {
            COp::Video { pts, data, key } => {
                let m = muxer.as_mut().unwrap();
                to_result(guarded(|| m.write_video(*pts, al.get(data), *key)), cfg, |_| CallResult::Ok)
            }
            COp::VideoDts { pts, dts, data, key } => {
                let m = muxer.as_mut().unwrap();
                to_result(guarded(|| m.write_video_with_dts(*pts, *dts, al.get(data), *key)), cfg, |_| CallResult::Ok)
            }
            COp::Audio { pts, data } => {
                let m = muxer.as_mut().unwrap();
                to_result(guarded(|| m.write_audio(*pts, al.get(data))), cfg, |_| CallResult::Ok)
            }
            COp::EncVideo { data, ms } => {
                let m = muxer.as_mut().unwrap();
                to_result(guarded(|| m.encode_video(al.get(data), *ms)), cfg, |_| CallResult::Ok)
            }
            COp::EncAudio { data, samples } => {
                let m = muxer.as_mut().unwrap();
                to_result(guarded(|| m.encode_audio(al.get(data), *samples)), cfg, |_| CallResult::Ok)
            }
            COp::Finish(k) => match k {
                FinishKind::InPlace => {
                    let m = muxer.as_mut().unwrap();
                    to_result(guarded(|| m.finish_in_place()), cfg, |_| CallResult::Ok)
                }
                FinishKind::InPlaceStats => {
                    let m = muxer.as_mut().unwrap();
                    to_result(guarded(|| m.finish_in_place_with_stats()), cfg, |s| CallResult::OkStats(lite(s)))
                }
                FinishKind::Finish => {
                    let m = muxer.take().unwrap();
                    to_result(guarded(|| m.finish()), cfg, |_| CallResult::Ok)
                }
                FinishKind::FinishStats => {
                    let m = muxer.take().unwrap();
                    to_result(guarded(|| m.finish_with_stats()), cfg, |s| CallResult::OkStats(lite(s)))
                }
                FinishKind::Flush => {
                    let m = muxer.take().unwrap();
                    to_result(guarded(|| m.flush()), cfg, |_| CallResult::Ok)
                }
            },
        };
        if let CallResult::Panic(p) = &r {
            self.panic = Some(p.clone());
        }
        if op.is_finish() && r.is_ok() && self.finished_at.is_none() {
            self.finished_at = Some(i);
            if let CallResult::OkStats(s) = &r {
                self.stats = Some(*s);
            }
        }
        self.results.push(r);
    }

    /// Drops the muxer (which must not write or panic either).
    pub fn close(&mut self) {
        let m = self.muxer.take();
        if let Err(p) = guarded(|| drop(m)) {
            if self.panic.is_none() {
                self.panic = Some(format!("drop: {}", p));
            }
        }
    }
}

pub fn run_history_on<W: Write + CallTag>(
    cfg: &CCfg,
    ops: &[COp],
    sink: W,
    snapshot: impl FnOnce() -> SinkState,
) -> Run {
    let tagger = sink.tagger();
    tagger(usize::MAX); // build
    let mut s = Session::new(sink, cfg);
    for (i, op) in ops.iter().enumerate() {
        if s.live() {
            tagger(i);
        }
        s.step(op);
    }
    tagger(usize::MAX - 1);
    s.close();
    let sink = snapshot();
    Run { build: s.build, results: s.results, out: sink.bytes.clone(), sink, panic: s.panic, finished_at: s.finished_at, stats: s.stats }
}

/// The muxer is built and fed the first `cut` calls on this thread, then MOVED to a new thread which makes the remaining calls
/// (a muxer over a `Send` sink may change threads between any two calls).
pub fn run_moved(cfg: &CCfg, ops: &[COp], cut: usize) -> Run {
    let sink = RecSink::new();
    sink.set_call(usize::MAX);
    let mut s = Session::new(sink.clone(), cfg);
    let cut = cut.min(ops.len());
    for (i, op) in ops.iter().enumerate().take(cut) {
        if s.live() {
            sink.set_call(i);
        }
        s.step(op);
    }
    let rest: Vec<COp> = ops[cut..].to_vec();
    let sink2 = sink.clone();
    let s = std::thread::spawn(move || {
        for (j, op) in rest.iter().enumerate() {
            if s.live() {
                sink2.set_call(cut + j);
            }
            s.step(op);
        }
        sink2.set_call(usize::MAX - 1);
        s.close();
        s
    })
    .join()
    .expect("worker thread of run_moved");
    let st = sink.0.lock().unwrap();
    let state = SinkState { bytes: st.bytes.clone(), writes: st.writes.clone(), flushes: st.flushes.clone(), current_call: st.current_call };
    Run { build: s.build, results: s.results, out: state.bytes.clone(), sink: state, panic: s.panic, finished_at: s.finished_at, stats: s.stats }
}

/// Several histories on one thread, one call at a time in the order given by `schedule` (indices into `runs`; a history whose
/// calls are used up is skipped; after the schedule the remaining calls run history by history).
pub fn run_lockstep(runs: &[(&CCfg, &[COp])], schedule: &[u8]) -> Vec<Run> {
    let sinks: Vec<RecSink> = runs.iter().map(|_| RecSink::new()).collect();
    let mut sessions: Vec<Session<RecSink>> = Vec::new();
    for ((cfg, _), sink) in runs.iter().zip(sinks.iter()) {
        sink.set_call(usize::MAX);
        sessions.push(Session::new(sink.clone(), cfg));
    }
    let mut next = vec![0usize; runs.len()];
    let n = runs.len().max(1);
    let mut order: Vec<usize> = schedule.iter().map(|k| *k as usize % n).collect();
    for (k, (_, ops)) in runs.iter().enumerate() {
        order.extend(std::iter::repeat(k).take(ops.len()));
    }
    // the muxer values also change places in memory now and then (a muxer may be moved between calls like any other value)
    let mut slot: Vec<usize> = (0..runs.len()).collect();
    for (step, k) in order.into_iter().enumerate() {
        let ops = runs[k].1;
        if next[k] >= ops.len() {
            continue;
        }
        if step % 5 == 3 && runs.len() >= 2 {
            let other = (k + 1 + step / 5) % runs.len();
            if other != k {
                sessions.swap(slot[k], slot[other]);
                slot.swap(k, other);
            }
        }
        if sessions[slot[k]].live() {
            sinks[k].set_call(next[k]);
        }
        sessions[slot[k]].step(&ops[next[k]]);
        next[k] += 1;
    }
    // back into history order
    let mut by_hist: Vec<Option<Session<RecSink>>> = sessions.into_iter().map(Some).collect();
    let sessions: Vec<Session<RecSink>> = (0..runs.len()).map(|k| by_hist[slot[k]].take().unwrap()).collect();
    let mut out = Vec::new();
    for (mut s, sink) in sessions.into_iter().zip(sinks.into_iter()) {
        sink.set_call(usize::MAX - 1);
        s.close();
        let st = sink.0.lock().unwrap();
        let state = SinkState { bytes: st.bytes.clone(), writes: st.writes.clone(), flushes: st.flushes.clone(), current_call: st.current_call };
        out.push(Run { build: s.build, results: s.results, out: state.bytes.clone(), sink: state, panic: s.panic, finished_at: s.finished_at, stats: s.stats });
    }
    out
}

/// Sinks that can be told which API call is in progress.
pub trait CallTag {
    fn tagger(&self) -> Box<dyn Fn(usize)>;
}
impl CallTag for RecSink {
    fn tagger(&self) -> Box<dyn Fn(usize)> {
        let s = self.clone();
        Box::new(move |i| s.set_call(i))
    }
}

/// Convenience: run and also append a final in-place finish when the history has none.
pub fn run_to_file(cfg: &CCfg, ops: &[COp]) -> Run {
    run_history(cfg, ops)
}


/// Plain executor for arbitrary sink types (no call tagging): returns the per-call results only.
/// Like `run_history_on`, with real pauses of `dur` right before the ops whose indices are listed in `at`.
pub fn run_paused<W: Write + CallTag>(w: W, cfg: &CCfg, ops: &[COp], at: Vec<usize>, dur: std::time::Duration) -> Run {
    struct Paused<W> {
        inner: W,
        at: Vec<usize>,
        dur: std::time::Duration,
    }
    impl<W: Write> Write for Paused<W> {
        fn write(&mut self, b: &[u8]) -> std::io::Result<usize> {
            self.inner.write(b)
        }
        fn flush(&mut self) -> std::io::Result<()> {
            self.inner.flush()
        }
        fn write_vectored(&mut self, bufs: &[std::io::IoSlice<'_>]) -> std::io::Result<usize> {
            self.inner.write_vectored(bufs)
        }
    }
    impl<W: CallTag> CallTag for Paused<W> {
        fn tagger(&self) -> Box<dyn Fn(usize)> {
            let inner = self.inner.tagger();
            let at = self.at.clone();
            let dur = self.dur;
            Box::new(move |i| {
                if at.contains(&i) {
                    std::thread::sleep(dur);
                }
                inner(i)
            })
        }
    }
    run_history_on(cfg, ops, Paused { inner: w, at, dur }, SinkState::default)
}

pub fn run_plain<W: Write>(w: W, cfg: &CCfg, ops: &[COp], between: &dyn Fn(usize)) -> (CallResult, Vec<CallResult>) {
    struct NoTag<W>(W);
    impl<W: Write> Write for NoTag<W> {
        fn write(&mut self, b: &[u8]) -> std::io::Result<usize> {
            self.0.write(b)
        }
        fn flush(&mut self) -> std::io::Result<()> {
            self.0.flush()
        }
        // a wrapper must not hide the sink's own gather write
        fn write_vectored(&mut self, bufs: &[std::io::IoSlice<'_>]) -> std::io::Result<usize> {
            self.0.write_vectored(bufs)
        }
    }
    impl<W> CallTag for NoTag<W> {
        fn tagger(&self) -> Box<dyn Fn(usize)> {
            Box::new(|_| ())
        }
    }
    let _ = between;
    let run = run_history_on(cfg, ops, NoTag(w), SinkState::default);
    (run.build, run.results)
}
