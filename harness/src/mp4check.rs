//! Shared oracles over a finished progressive file.

use crate::engine::Outcome;
use crate::exec::{CCfg, Run};
use crate::reader::{parse_movie, Movie, Node, Track};
use crate::scenario::{ExpSample, Lowered};

pub struct Parsed {
    pub tree: Vec<Node>,
    pub movie: Movie,
}

pub fn parse(out: &[u8]) -> Result<Parsed, String> {
    let (tree, movie) = parse_movie(out)?;
    Ok(Parsed { tree, movie })
}

pub fn video_track(m: &Movie) -> Option<&Track> {
    m.tracks.iter().find(|t| &t.hdlr.handler == b"vide")
}
pub fn audio_track(m: &Movie) -> Option<&Track> {
    m.tracks.iter().find(|t| &t.hdlr.handler == b"soun")
}

/// Expected samples of the calls that actually returned Ok, in submission order per track.
pub fn accepted<'a>(l: &'a Lowered, run: &Run) -> (Vec<&'a ExpSample>, Vec<&'a ExpSample>) {
    let mut v = Vec::new();
    let mut a = Vec::new();
    for (i, r) in run.results.iter().enumerate() {
        if !r.is_ok() {
            continue;
        }
        match l.op_sample.get(i).copied().flatten() {
            Some((true, k)) => v.push(&l.vexp[k]),
            Some((false, k)) => a.push(&l.aexp[k]),
            None => {}
        }
    }
    (v, a)
}

pub fn hex(b: &[u8], max: usize) -> String {
    let mut s = String::new();
    for x in b.iter().take(max) {
        s.push_str(&format!("{:02x}", x));
    }
    if b.len() > max {
        s.push_str(&format!("..(+{})", b.len() - max));
    }
    s
}

/// C01 oracle: every sample resolves to the submitted bytes and key flag; ranges tile the mdat payload.
/// `sig_ctx` is appended to signatures to discriminate root causes (e.g. ":reordered+audio").
pub fn check_samples(o: &mut Outcome, out: &[u8], p: &Parsed, vexp: &[&ExpSample], aexp: &[&ExpSample], cfg: &CCfg, sig_ctx: &str) {
    let m = &p.movie;
    let vt = match video_track(m) {
        Some(t) => t,
        None => {
            o.fail("tracks", "tracks.no_video", "no video track in file");
            return;
        }
    };
    let at = audio_track(m);
    if cfg.has_audio() != at.is_some() {
        o.fail(
            "tracks",
            format!("tracks.audio_present={}", at.is_some()),
            format!("audio configured: {}, audio track present: {}", cfg.has_audio(), at.is_some()),
        );
    }
    let (mlo, mhi) = m.mdat.unwrap_or((0, 0));
    let mut ranges: Vec<(u64, u64, &'static str, usize)> = Vec::new();
    let mut one = |o: &mut Outcome, name: &'static str, t: &Track, exp: &[&ExpSample], is_video: bool| {
        if t.samples.len() != exp.len() {
            o.fail(
                "count",
                format!("count.{}", name),
                format!("{} track has {} samples, {} frames were accepted", name, t.samples.len(), exp.len()),
            );
            return;
        }
        for (i, (s, e)) in t.samples.iter().zip(exp.iter()).enumerate() {
            let lo = s.offset;
            let hi = s.offset + s.size as u64;
            if m.mdat.is_none() || lo < mlo as u64 || hi > mhi as u64 {
                o.fail(
                    "in_mdat",
                    format!("in_mdat.{}{}", name, sig_ctx),
                    format!("{} sample {} range {}..{} outside mdat payload {}..{}", name, i, lo, hi, mlo, mhi),
                );
                continue;
            }
            ranges.push((lo, hi, name, i));
            let got = &out[lo as usize..hi as usize];
            if got != &e.bytes[..] {
                let kind = if s.size as usize != e.bytes.len() { "size" } else { "content" };
                o.fail(
                    "bytes",
                    format!("bytes.{}.{}{}", name, kind, sig_ctx),
                    format!(
                        "{} sample {} (of {}) at {}..{}: file has {} expected {} (len {} vs {})",
                        name,
                        i,
                        exp.len(),
                        lo,
                        hi,
                        hex(got, 24),
                        hex(&e.bytes, 24),
                        got.len(),
                        e.bytes.len()
                    ),
                );
                // one report per track is enough
                break;
            }
            if is_video && s.sync != e.key {
                o.fail(
                    "sync",
                    format!("sync.{}{}", name, sig_ctx),
                    format!("video sample {}: sync flag in file {} but submitted keyframe flag {}", i, s.sync, e.key),
                );
                break;
            }
        }
    };
    one(o, "video", vt, vexp, true);
    if let Some(at) = at {
        one(o, "audio", at, aexp, false);
    }
    // disjoint + cover
    ranges.sort();
    let total: usize = vexp.len() + aexp.len();
    if total == 0 {
        if let Some((lo, hi)) = m.mdat {
            if hi != lo {
                o.fail("cover", "cover.nonempty_mdat_without_samples", format!("mdat payload {} bytes but no samples", hi - lo));
            }
        }
        return;
    }
    if ranges.len() != total {
        return; // already reported above
    }
    let mut cur = mlo as u64;
    for (lo, hi, name, i) in &ranges {
        if *lo < cur {
            o.fail(
                "disjoint",
                format!("disjoint{}", sig_ctx),
                format!("{} sample {} range {}..{} overlaps the previous range ending at {}", name, i, lo, hi, cur),
            );
            return;
        }
        if *lo > cur {
            o.fail(
                "cover",
                format!("cover.gap{}", sig_ctx),
                format!("gap {}..{} in mdat payload before {} sample {}", cur, lo, name, i),
            );
            return;
        }
        cur = *hi;
    }
    if cur != mhi as u64 {
        o.fail("cover", format!("cover.tail{}", sig_ctx), format!("samples end at {} but mdat payload ends at {}", cur, mhi));
    }
}
