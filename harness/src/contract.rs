//! Raw call histories (legal and illegal calls mixed), the executable contract model (DESIGN appendix C)
//! and the interpreter that lowers genes to concrete calls while stepping the model.

use crate::exec::{CCfg, COp, ErrClass, FinishKind};
use crate::gen::*;
use crate::model::{secs, ticks_exact};
use proptest::collection::vec;
use proptest::prelude::*;
use serde::{Deserialize, Serialize};
use std::collections::BTreeSet;

#[derive(Clone, Debug, Serialize, Deserialize, PartialEq, Eq, Hash)]
pub enum Ts {
    NaN,
    PosInf,
    NegInf,
    NegZero,
    /// -(n+1) ticks
    Negative(u32),
    /// absolute tick + jitter
    Abs(u64, i8),
    /// relative to the track's reference (last accepted decode tick for video, last accepted pts tick for audio):
    /// reference + delta ticks (delta may be <= 0), with jitter
    Rel(i64, i8),
    /// same tick as the reference but a slightly larger f64 (sub-tick above)
    SubTickAbove,
    /// reference + 2^32-1 + off ticks (off in -1..=1)
    GapU32(i8),
    /// relative to the first accepted video PTS (audio gating): first + delta ticks
    RelFirstVideo(i64, i8),
    /// >= 2^53 ticks
    Huge(u8),
    /// the f64 of the first accepted video PTS moved by k units in the last place (k < 0: just below it)
    UlpsFromFirstVideo(i8),
    /// the f64 of the track's last accepted timestamp moved by k units in the last place
    UlpsFromLast(i8),
}

#[derive(Clone, Debug, Serialize, Deserialize, PartialEq, Eq, Hash)]
pub enum VKind {
    Empty,
    /// keyframe bytes with complete configuration
    KeyCfg,
    /// keyframe slice(s) only, no parameter sets / sequence header / VP9 keyframe header
    KeyNoCfg,
    Delta,
    Garbage,
}

#[derive(Clone, Debug, Serialize, Deserialize, PartialEq, Eq, Hash)]
pub struct VF {
    pub kind: VKind,
    pub size: u16,
    pub shape: u8,
}

#[derive(Clone, Debug, Serialize, Deserialize, PartialEq, Eq, Hash)]
pub enum AKind {
    Empty,
    Valid,
    /// ADTS corruption 1..=9 (see gen::AdtsGene) / Opus corruption 1..=3
    Corrupt(u8),
    Garbage,
}

#[derive(Clone, Debug, Serialize, Deserialize, PartialEq, Eq, Hash)]
pub struct AF {
    pub kind: AKind,
    pub size: u16,
    pub shape: u8,
}

#[derive(Clone, Debug, Serialize, Deserialize, PartialEq, Eq, Hash)]
pub enum ROp {
    Video { ts: Ts, frame: VF, key: bool },
    VideoDts { pts: Ts, dts: Ts, frame: VF, key: bool },
    Audio { ts: Ts, frame: AF },
    EncVideo { frame: VF, ms: u32 },
    EncAudio { frame: AF, samples: u32 },
    Finish(u8),
}

#[derive(Clone, Debug, Serialize, Deserialize, PartialEq, Eq, Hash)]
pub struct RawCase {
    pub codec: u8,
    pub video_configured: bool,
    /// 0 none, 1..=6 AAC, 7 Opus, 8 explicit AudioCodec::None
    pub audio: u8,
    pub rate_idx: u8,
    pub channels: u8,
    pub fast_start: bool,
    pub title: Option<String>,
    pub ops: Vec<ROp>,
    /// tick of the leading keyframe inserted by the strategy (recordings that do not start at zero)
    #[serde(default)]
    pub start: u64,
    /// (op index, n): the op at that index is issued n more times in a row (relative timestamps advance by themselves;
    /// a rejected call repeated n times is a rejection burst).  Keeps long histories compact in replay files.
    #[serde(default)]
    pub repeat: Vec<(u16, u16)>,
}

impl RawCase {
    pub fn expanded_ops(&self) -> std::borrow::Cow<'_, [ROp]> {
        if self.repeat.is_empty() {
            return std::borrow::Cow::Borrowed(&self.ops[..]);
        }
        let mut out = Vec::new();
        for (i, op) in self.ops.iter().enumerate() {
            out.push(op.clone());
            for &(at, n) in &self.repeat {
                if at as usize == i && !matches!(op, ROp::Finish(_)) {
                    for _ in 0..n {
                        out.push(op.clone());
                    }
                }
            }
        }
        std::borrow::Cow::Owned(out)
    }
}

#[derive(Clone, Debug, PartialEq)]
pub enum Verdict {
    MustAccept,
    MustReject(BTreeSet<ErrClass>),
    Either(String),
}

#[derive(Clone, Debug)]
pub struct Step {
    pub op: COp,
    pub verdict: Verdict,
    /// expected stored sample when the call is accepted: (is_video, bytes, key, pts tick, dts tick)
    pub sample: Option<(bool, Vec<u8>, bool, u64, u64)>,
    pub tie: bool,
}

#[derive(Clone, Debug, Default)]
pub struct ModelState {
    pub finished: bool,
    pub last_vpts: Option<f64>,
    pub last_vdts_explicit: Option<f64>,
    pub last_vtick: Option<u64>,
    pub first_vpts: Option<f64>,
    pub first_vpts_tick: Option<u64>,
    pub last_apts: Option<f64>,
    pub last_atick: Option<u64>,
    pub n_video: u64,
    pub n_audio: u64,
    pub vclock: f64,
    pub aclock: f64,
    pub v_first_tick: Option<u64>,
    pub v_last_delta: u64,
    pub a_first_tick: Option<u64>,
    pub a_last_delta: u64,
    /// after an Either verdict the model state may differ from the implementation: stop judging
    pub desynced: bool,
    /// the last accepted timestamp of the track sits on a half-tick tie: its tick is known only to within one
    pub last_vtick_tie: bool,
    pub last_atick_tie: bool,
    /// some accepted sample of the track sits on a half-tick tie (track totals are known only to within two ticks)
    pub v_tie_seen: bool,
    pub a_tie_seen: bool,
}

pub fn raw_ccfg(c: &RawCase) -> CCfg {
    let audio = c.audio % 9;
    let channels = if audio == 7 { (c.channels % 8) + 1 } else { (c.channels % 6) + 1 };
    CCfg {
        codec: c.codec % 4,
        video: c.video_configured,
        audio,
        sample_rate: AAC_RATES[(c.rate_idx % 13) as usize],
        channels: channels as u16,
        width: 640,
        height: 480,
        fps: 30.0,
        fast_start: Some(c.fast_start),
        title: c.title.clone(),
        ctime: None,
        lang: None,
        empty_metadata: false,
        alias_builder: false,
        reconfig: 0,
        misalign: 0,
    }
}

fn nudge(x: f64, k: i8) -> f64 {
    if !x.is_finite() || x < 0.0 {
        return x;
    }
    let b = x.to_bits() as i128 + k as i128;
    if b < 0 {
        -f64::from_bits((-b) as u64)
    } else {
        f64::from_bits(b as u64)
    }
}

fn ts_value(ts: &Ts, reference: Option<u64>, first_video: Option<u64>, first_video_f64: Option<f64>, last_f64: Option<f64>) -> f64 {
    match ts {
        Ts::UlpsFromFirstVideo(k) => nudge(first_video_f64.unwrap_or(0.0), *k),
        Ts::UlpsFromLast(k) => nudge(last_f64.or(first_video_f64).unwrap_or(0.0), *k),
        Ts::NaN => f64::NAN,
        Ts::PosInf => f64::INFINITY,
        Ts::NegInf => f64::NEG_INFINITY,
        Ts::NegZero => -0.0,
        Ts::Negative(n) => -((*n as f64 + 1.0) / 90000.0),
        Ts::Abs(t, j) => secs(*t, *j),
        Ts::Rel(d, j) => {
            let r = reference.unwrap_or(0) as i128 + *d as i128;
            if r < 0 {
                -((-r) as f64 / 90000.0)
            } else {
                secs(r as u64, *j)
            }
        }
        Ts::SubTickAbove => secs(reference.unwrap_or(0), 30),
        Ts::GapU32(off) => secs((reference.unwrap_or(0) as i128 + u32::MAX as i128 + *off as i128) as u64, 0),
        Ts::RelFirstVideo(d, j) => {
            let r = first_video.unwrap_or(0) as i128 + *d as i128;
            if r < 0 {
                -((-r) as f64 / 90000.0)
            } else {
                secs(r as u64, *j)
            }
        }
        Ts::Huge(k) => 2f64.powi(53 + (*k % 12) as i32) / 90000.0 * 1.5,
    }
}

/// Frame bytes for a gene. Returns (bytes, expected stored sample, is_detected_keyframe_by_documented_rule).
pub fn vframe(codec: u8, f: &VF, idx: u64) -> (Vec<u8>, Vec<u8>, bool) {
    let tag = (5u64 << 60) | (idx << 20) | f.size as u64;
    let size = f.size.max(1);
    let sh = f.shape;
    match f.kind {
        VKind::Empty => (vec![], vec![], false),
        VKind::Garbage => {
            let mut g = filler(size as usize, tag, 0);
            if codec % 4 == 2 {
                g[0] |= 0x80; // AV1: forbidden bit => no OBU parses
            }
            if codec % 4 == 3 && g.len() >= 3 && g[0] == 0x49 {
                g[0] = 0x48;
            }
            // H.264/5: no zero bytes => no start code => whole input is one "unit"
            let exp = if codec % 4 <= 1 {
                length_prefixed(&[g.clone()])
            } else {
                g.clone()
            };
            (g, exp, false)
        }
        _ => match codec % 4 {
            c @ (0 | 1) => {
                let hevc = c == 1;
                let mut nals = Vec::new();
                let sc4 = sh & 1 != 0;
                let mut push = |typ: u8, len: u16, fill: u8| nals.push(NalGene { typ, len, fill, sc4, aux: 2 });
                if f.kind == VKind::KeyCfg {
                    // the configuration in canonical order, reversed (PPS first), with an AUD / SEI in front, or with a
                    // byte-identical second PPS: all of them "carry the codec configuration"
                    let mut group: Vec<(u8, u16, u8)> = if hevc { vec![(h265t::VPS, 5, 1), (h265t::SPS, 16, 2), (h265t::PPS, 3, 0)] } else { vec![(h264t::SPS, 8, 2), (h264t::PPS, 3, 0)] };
                    match (sh >> 2) % 6 {
                        1 => group.reverse(),
                        2 => group.insert(0, (if hevc { h265t::AUD } else { h264t::AUD }, 1, 0)),
                        3 => group.insert(0, (if hevc { h265t::SEI } else { h264t::SEI }, 6, 2)),
                        4 => group.push((if hevc { h265t::PPS } else { h264t::PPS }, 1, 255)),
                        _ => {}
                    }
                    if (sh >> 2) % 6 == 5 {
                        // the sets follow the slice inside the buffer: the frame still carries the configuration
                        let t0 = if hevc { [h265t::IDR_W, h265t::IDR_N, h265t::CRA][(sh % 3) as usize] } else { h264t::IDR };
                        push(t0, 4, 1);
                    }
                    for (t, l, fl) in group {
                        push(t, l, fl);
                    }
                }
                let is_key = matches!(f.kind, VKind::KeyCfg | VKind::KeyNoCfg);
                let t = if is_key {
                    if hevc {
                        [h265t::IDR_W, h265t::IDR_N, h265t::CRA][(sh % 3) as usize]
                    } else {
                        h264t::IDR
                    }
                } else if hevc {
                    h265t::TRAIL
                } else {
                    h264t::SLICE
                };
                push(t, size, sh >> 6);
                let fr = AnnexBFrame { nals, lead_zeros: 0, trail_zeros: 0 };
                let (b, units) = fr.build(hevc, tag);
                (b, length_prefixed(&units), is_key)
            }
            2 => {
                let mut obus = vec![];
                if sh & 2 != 0 {
                    obus.push(ObuGene { typ: 2, ext: false, ext_byte: 0, has_size: true, leb_pad: 0, len: 0, fill: 0 });
                }
                if f.kind == VKind::KeyCfg {
                    obus.push(ObuGene { typ: 1, ext: false, ext_byte: 0, has_size: true, leb_pad: sh & 1, len: 0, fill: 0 });
                }
                obus.push(ObuGene { typ: 6, ext: false, ext_byte: 0, has_size: true, leb_pad: 0, len: size, fill: 0 });
                let fr = Av1Frame { obus, seq: Some(Av1Seq::simple()) };
                let (b, _) = fr.build(tag);
                // encode_video's documented heuristic for AV1: the first frame is the keyframe
                (b.clone(), b, false)
            }
            _ => {
                if f.kind == VKind::KeyCfg {
                    let k = Vp9Key {
                        profile: sh & 3,
                        byte4: sh,
                        sync: 0,
                        width: 320,
                        height: 240,
                        wlen: 2,
                        hlen: 2,
                        render: None,
                        color: Some((sh & 0xf1, None)),
                        tail: size,
                    };
                    let (b, _) = k.build(tag);
                    (b.clone(), b, true)
                } else if f.kind == VKind::KeyNoCfg {
                    // marker + keyframe bits but too short for the accepted form (5 bytes)
                    let b = vec![0x49, 0x83, 0x42, 0x00, 0x00];
                    (b.clone(), b, true)
                } else {
                    let b = vp9_delta(size as usize, tag);
                    (b.clone(), b, false)
                }
            }
        },
    }
}

/// (bytes, expected stored sample if structurally valid, grey zone)
pub fn aframe(cfg: &CCfg, f: &AF, idx: u64) -> (Vec<u8>, Option<Vec<u8>>, bool) {
    let tag = (6u64 << 60) | (idx << 20) | f.size as u64;
    let size = f.size.clamp(1, 8000);
    match f.kind {
        AKind::Empty => (vec![], None, false),
        AKind::Garbage if cfg.audio != 7 && f.shape % 4 == 3 => {
            // a well-formed ID3v2 tag (as packed-audio segments carry in front of ADTS), alone or followed by a valid ADTS
            // frame: the buffer does not start with the ADTS syncword, so it is not an ADTS frame
            let body = (size as usize).min(120);
            let footer = f.shape & 4 != 0;
            let mut g = vec![b'I', b'D', b'3', 4, 0, if footer { 0x10 } else { 0 }, 0, 0, (body >> 7) as u8, (body & 0x7f) as u8];
            g.extend(filler(body, tag, 0).iter().map(|b| b & 0x7f));
            if footer {
                g.extend_from_slice(&[b'3', b'D', b'I', 4, 0, 0x10, 0, 0, (body >> 7) as u8, (body & 0x7f) as u8]);
            }
            if f.shape & 8 != 0 {
                let ag = AdtsGene { protection_absent: true, profile: 1, sfi: 3, chan: 2, payload_len: 32, extra: 0, fill: 0, corrupt: 0, misc: 0 };
                g.extend(ag.build(tag).0);
            }
            (g, None, false)
        }
        AKind::Garbage if f.shape % 4 == 2 => {
            // the first bytes of another audio / container format, cut at every length: an ID3v1 trailer (exactly 128 bytes
            // from "TAG"), RIFF/WAVE, FORM/AIFF, ADIF, Ogg, FLAC, .snd, MIDI, Matroska, an MP4 ftyp, an ID3v2 header
            const MAGIC: [&[u8]; 12] = [
                b"TAG",
                b"RIFF\x24\x08\x00\x00WAVEfmt \x10\x00\x00\x00",
                b"FORM\x00\x00\x08\x24AIFFCOMM\x00\x00\x00\x12",
                b"ADIF\x00\x10\x00\x00\x00\x00\x00\x00\x00\x00\x00\x00",
                b"OggS\x00\x02\x00\x00\x00\x00\x00\x00\x00\x00\x00\x00",
                b"fLaC\x00\x00\x00\x22\x10\x00\x10\x00\x00\x00\x00\x00",
                b".snd\x00\x00\x00\x18\x00\x00\x00\x00\x00\x00\x00\x03",
                b"MThd\x00\x00\x00\x06\x00\x01\x00\x02\x01\xe0MT",
                b"\x1a\x45\xdf\xa3\x9f\x42\x86\x81\x01\x42\xf7\x81\x01\x42\xf2\x81",
                b"\x00\x00\x00\x18ftypM4A \x00\x00\x00\x00",
                b"ID3\x04\x00\x00\x00\x00\x00",
                b"RIFF",
            ];
            let m = MAGIC[(f.shape as usize / 4) % MAGIC.len()];
            let len = if (f.shape as usize / 4) % MAGIC.len() == 0 { [128usize, 127, 129, 3, 4][(f.size % 5) as usize] } else { 1 + (f.size as usize % 24) };
            let mut g: Vec<u8> = m.iter().copied().chain(filler(130, tag, 0).into_iter().map(|b| b & 0x7f)).take(len).collect();
            if cfg.audio == 7 && g.len() >= 2 {
                // Opus: make it an invalid packet as below (code 3, zero frames)
                g[0] |= 3;
                g[1] &= 0xc0;
            } else if cfg.audio == 7 {
                g = vec![g[0] | 3];
            }
            (g, None, false)
        }
        AKind::Garbage => {
            let mut g = filler(size as usize, tag, 0);
            // ADTS: first byte 0x1x is not a syncword. Opus: any first byte is a TOC => make the packet invalid:
            // code 3 with frame count 0
            if cfg.audio == 7 {
                g[0] |= 3;
                if g.len() >= 2 {
                    g[1] &= 0xc0;
                } else {
                    g.truncate(1);
                }
            }
            (g, None, false)
        }
        AKind::Valid | AKind::Corrupt(_) => {
            let corrupt = if let AKind::Corrupt(k) = f.kind { k } else { 0 };
            if cfg.audio == 7 {
                let og = OpusGene {
                    config: f.shape >> 3,
                    stereo: f.shape & 4 != 0,
                    code: f.shape & 3,
                    count_byte: 1 + (f.shape >> 7),
                    len: size,
                    corrupt: if corrupt == 0 { 0 } else { 1 + (corrupt - 1) % 3 },
                };
                let (p, valid) = og.build(tag);
                let grey = opus_grey(&p);
                (p.clone(), if valid { Some(p) } else { None }, grey)
            } else {
                let ag = AdtsGene {
                    protection_absent: f.shape & 1 != 0,
                    profile: (f.shape >> 1) & 3,
                    sfi: (f.shape >> 3) % 13,
                    chan: f.shape >> 5,
                    payload_len: size,
                    extra: if f.shape & 4 != 0 { 2 } else { 0 },
                    fill: (f.shape >> 4) & 1,
                    corrupt: if corrupt == 0 { 0 } else { 1 + (corrupt - 1) % 9 },
                    misc: (f.shape as u16).wrapping_mul(0x0101) ^ f.size,
                };
                let (b, exp) = ag.build(tag);
                // MPEG-2 ID bit and channel configuration 0 are structurally valid ADTS that the library documents as unsupported
                let grey = matches!(ag.corrupt, 7 | 8);
                (b, exp, grey)
            }
        }
    }
}

fn reject(set: &mut BTreeSet<ErrClass>, c: ErrClass) {
    set.insert(c);
}

/// Interpret the raw case: produce the concrete calls and the model's verdict for each.
pub fn interpret(c: &RawCase, decisions: &std::collections::BTreeMap<usize, bool>) -> (CCfg, Verdict, Vec<Step>) {
    let cfg = raw_ccfg(c);
    let build_verdict = if c.video_configured {
        Verdict::MustAccept
    } else {
        Verdict::MustReject([ErrClass::VideoConfig].into_iter().collect())
    };
    let mut st = ModelState::default();
    let mut steps = Vec::new();
    let audio_cfg = cfg.has_audio();
    let expanded = c.expanded_ops();
    for (i, op) in expanded.iter().enumerate() {
        let idx = i as u64;
        match op {
            ROp::Video { ts, frame, key } => {
                let pts = ts_value(ts, st.last_vtick, st.first_vpts_tick, st.first_vpts, st.last_vpts);
                let (data, exp, _) = vframe(cfg.codec, frame, idx);
                let (v, tick, tie) = judge_video(&st, &cfg, pts, None, frame, *key, &data);
                let sample = Some((true, exp, *key, tick, tick));
                apply_video(&mut st, &v, pts, None, tick, decisions.get(&i).copied());
                steps.push(Step { op: COp::Video { pts, data, key: *key }, verdict: v, sample, tie });
            }
            ROp::VideoDts { pts, dts, frame, key } => {
                let d = ts_value(dts, st.last_vtick, st.first_vpts_tick, st.first_vpts, st.last_vdts_explicit.or(st.last_vpts));
                // pts relative to the dts of this very call
                let dt = if d.is_finite() && d >= 0.0 { Some(ticks_exact(d).tick) } else { st.last_vtick };
                let p = ts_value(pts, dt, st.first_vpts_tick, st.first_vpts, Some(d));
                let (data, exp, _) = vframe(cfg.codec, frame, idx);
                let (v, dtick, tie) = judge_video(&st, &cfg, p, Some(d), frame, *key, &data);
                let ptick = if p.is_finite() && p >= 0.0 { ticks_exact(p).tick } else { 0 };
                let sample = Some((true, exp, *key, ptick, dtick));
                apply_video(&mut st, &v, p, Some(d), dtick, decisions.get(&i).copied());
                steps.push(Step { op: COp::VideoDts { pts: p, dts: d, data, key: *key }, verdict: v, sample, tie });
            }
            ROp::Audio { ts, frame } => {
                let pts = ts_value(ts, st.last_atick.or(st.first_vpts_tick), st.first_vpts_tick, st.first_vpts, st.last_apts);
                let (data, exp, grey) = aframe(&cfg, frame, idx);
                let (v, tick, tie) = judge_audio(&st, audio_cfg, pts, &data, exp.is_some(), grey);
                let sample = exp.map(|e| (false, e, true, tick, tick));
                apply_audio(&mut st, &v, pts, tick, decisions.get(&i).copied());
                steps.push(Step { op: COp::Audio { pts, data }, verdict: v, sample, tie });
            }
            ROp::EncVideo { frame, ms } => {
                let pts = st.vclock;
                let (data, exp, detected) = vframe(cfg.codec, frame, idx);
                let key = match cfg.codec {
                    2 => st.n_video == 0,
                    _ => detected,
                };
                let (v, tick, tie) = judge_video(&st, &cfg, pts, None, frame, key, &data);
                let sample = Some((true, exp, key, tick, tick));
                let accepted_before = st.n_video;
                apply_video(&mut st, &v, pts, None, tick, decisions.get(&i).copied());
                if st.n_video > accepted_before {
                    st.vclock += *ms as f64 / 1000.0;
                }
                steps.push(Step { op: COp::EncVideo { data, ms: *ms }, verdict: v, sample, tie });
            }
            ROp::EncAudio { frame, samples } => {
                let pts = st.aclock;
                let (data, exp, grey) = aframe(&cfg, frame, idx);
                let (v, tick, tie) = if !audio_cfg {
                    (Verdict::MustReject([ErrClass::AudioNotConfigured].into_iter().collect()), 0, false)
                } else {
                    judge_audio(&st, audio_cfg, pts, &data, exp.is_some(), grey)
                };
                let sample = exp.map(|e| (false, e, true, tick, tick));
                let before = st.n_audio;
                apply_audio(&mut st, &v, pts, tick, decisions.get(&i).copied());
                if st.n_audio > before {
                    st.aclock += *samples as f64 / cfg.sample_rate as f64;
                }
                steps.push(Step { op: COp::EncAudio { data, samples: *samples }, verdict: v, sample, tie });
            }
            ROp::Finish(k) => {
                let total = |first: Option<u64>, last: Option<u64>, d: u64| match (first, last) {
                    (Some(f), Some(l)) => (l - f) as u128 + d as u128,
                    _ => 0,
                };
                let too_long = total(st.v_first_tick, st.last_vtick, st.v_last_delta) + 2 * st.v_tie_seen as u128 > u32::MAX as u128
                    || total(st.a_first_tick, st.last_atick, st.a_last_delta) + 2 * st.a_tie_seen as u128 > u32::MAX as u128;
                let v = if st.finished {
                    Verdict::MustReject([ErrClass::Finished].into_iter().collect())
                } else if st.desynced {
                    Verdict::Either("after_unconstrained_call".into())
                } else if too_long {
                    // not among the documented preconditions; a 32-bit duration field cannot hold it (C16)
                    Verdict::Either("track_duration_beyond_u32(C16)".into())
                } else {
                    Verdict::MustAccept
                };
                match &v {
                    Verdict::MustAccept => st.finished = true,
                    Verdict::Either(_) => match decisions.get(&i) {
                        Some(true) => st.finished = true,
                        // a failed finish leaves the muxer unusable for writes as well (its writer is finalised)
                        Some(false) => st.desynced = true,
                        None => st.desynced = true,
                    },
                    Verdict::MustReject(_) => {}
                }
                steps.push(Step { op: COp::Finish(FinishKind::from_idx(*k)), verdict: v, sample: None, tie: false });
            }
        }
    }
    (cfg, build_verdict, steps)
}

fn judge_video(st: &ModelState, cfg: &CCfg, pts: f64, dts: Option<f64>, frame: &VF, key: bool, data: &[u8]) -> (Verdict, u64, bool) {
    use ErrClass::*;
    let mut v = BTreeSet::new();
    // classes of contested (documented but arguably unenforceable / contradictory) preconditions this call violates
    let mut contested: BTreeSet<ErrClass> = BTreeSet::new();
    let mut either: Option<String> = None;
    if st.desynced {
        return (Verdict::Either("after_unconstrained_call".into()), 0, false);
    }
    if st.finished {
        reject(&mut v, Finished);
    }
    if data.is_empty() {
        reject(&mut v, Empty);
    }
    let mut tick = 0u64;
    let mut tie = false;
    for t in [Some(pts), dts].into_iter().flatten() {
        if !t.is_finite() {
            reject(&mut v, NonFinite);
        } else if t < 0.0 {
            reject(&mut v, Negative);
        }
    }
    let order_ts = dts.unwrap_or(pts);
    if order_ts.is_finite() && order_ts >= 0.0 && pts.is_finite() && pts >= 0.0 {
        let te = ticks_exact(order_ts);
        tick = te.tick;
        tie = te.tie || ticks_exact(pts).tie;
        if te.huge || ticks_exact(pts).huge || te.tick >= (1u64 << 53) || ticks_exact(pts).tick >= (1u64 << 53) {
            either = Some("timestamp_beyond_2^53_ticks(C16)".into());
            // any range error is an acceptable name for a timestamp the tick counter cannot represent exactly
            contested.insert(DurationOverflow);
        }
        if dts.is_some() {
            let pt = ticks_exact(pts).tick;
            // a timestamp on a half-tick tie is known only to within one tick: the 32-bit offset rule is judged with that slack
            let slack = ticks_exact(pts).tie as u128 + te.tie as u128;
            if (pt as i128 - te.tick as i128).unsigned_abs() + slack > i32::MAX as u128 {
                // not among the documented preconditions; a 32-bit composition offset cannot hold it (C16)
                either.get_or_insert("composition_offset_beyond_i32(C16)".into());
                contested.insert(DurationOverflow);
            }
        }
        if let Some(last) = st.last_vtick {
            if st.last_vtick_tie && te.tick.saturating_add(1) >= last && te.tick <= last.saturating_add(1) {
                // the previous accepted timestamp sits on a half-tick tie: its tick is known only to within one, so the order of
                // a timestamp within one tick of it cannot be judged
                either.get_or_insert("half_tick_tie".into());
                contested.insert(VideoOrder);
            } else if te.tick < last {
                reject(&mut v, VideoOrder);
            } else if te.tick == last {
                // same tick: not representable. f64-wise it may or may not be "strictly greater".
                let f64_greater = match dts {
                    None => st.last_vpts.map(|l| pts > l).unwrap_or(true),
                    Some(d) => st.last_vdts_explicit.map(|l| d > l).unwrap_or(true),
                };
                if f64_greater {
                    either.get_or_insert("same_tick_but_larger_f64".into());
                    contested.insert(VideoOrder);
                } else {
                    reject(&mut v, VideoOrder);
                }
            } else {
                let slack = st.last_vtick_tie as u64 + te.tie as u64;
                if te.tick - last > u32::MAX as u64 + slack {
                    reject(&mut v, DurationOverflow);
                } else if te.tick - last + slack > u32::MAX as u64 {
                    either.get_or_insert("half_tick_tie".into());
                    contested.insert(DurationOverflow);
                }
                // documented f64 rules of the entry point
                match dts {
                    None => {
                        if let Some(l) = st.last_vpts {
                            if pts <= l {
                                // PTS rule violated while the decode-order rule holds (mixed entry points)
                                either.get_or_insert("write_video_pts_not_above_previous_pts_after_reordered_frame".into());
                                contested.insert(VideoOrder);
                            }
                        }
                    }
                    Some(_) => {}
                }
            }
            if te.tie {
                either.get_or_insert("half_tick_tie".into());
            }
        }
    }
    if st.n_video == 0 {
        if !key {
            reject(&mut v, FirstFrameKey);
        }
        if !matches!(frame.kind, VKind::KeyCfg | VKind::Empty) {
            reject(&mut v, FirstFrameConfig);
        }
    } else if frame.kind == VKind::Garbage && v.is_empty() {
        either.get_or_insert("garbage_as_non_first_frame".into());
    }
    if !v.is_empty() {
        v.extend(contested);
        return (Verdict::MustReject(v), tick, tie);
    }
    if let Some(e) = either {
        return (Verdict::Either(e), tick, tie);
    }
    let _ = cfg;
    (Verdict::MustAccept, tick, tie)
}

fn apply_video(st: &mut ModelState, v: &Verdict, pts: f64, dts: Option<f64>, tick: u64, decided: Option<bool>) {
    let accept = match v {
        Verdict::MustAccept => true,
        Verdict::MustReject(_) => false,
        Verdict::Either(_) => match decided {
            Some(a) => a,
            None => {
                st.desynced = true;
                false
            }
        },
    };
    match accept {
        true => {
            st.last_vpts = Some(pts);
            if let Some(d) = dts {
                st.last_vdts_explicit = Some(d);
            }
            if let Some(l) = st.last_vtick {
                st.v_last_delta = tick.saturating_sub(l);
            }
            if st.v_first_tick.is_none() {
                st.v_first_tick = Some(tick);
            }
            st.last_vtick = Some(tick);
            st.last_vtick_tie = ticks_exact(dts.unwrap_or(pts)).tie;
            st.v_tie_seen |= st.last_vtick_tie;
            if st.first_vpts.is_none() {
                st.first_vpts = Some(pts);
                st.first_vpts_tick = Some(ticks_exact(pts).tick);
            }
            st.n_video += 1;
        }
        false => {}
    }
}

fn judge_audio(st: &ModelState, audio_cfg: bool, pts: f64, data: &[u8], framing_valid: bool, grey: bool) -> (Verdict, u64, bool) {
    use ErrClass::*;
    let mut v = BTreeSet::new();
    let mut either: Option<String> = None;
    if st.desynced {
        return (Verdict::Either("after_unconstrained_call".into()), 0, false);
    }
    if st.finished {
        reject(&mut v, Finished);
    }
    if !audio_cfg {
        reject(&mut v, AudioNotConfigured);
    }
    if data.is_empty() {
        reject(&mut v, Empty);
    }
    let mut tick = 0;
    let mut tie = false;
    let mut gap_within_slack = false;
    if !pts.is_finite() {
        reject(&mut v, NonFinite);
    } else if pts < 0.0 {
        reject(&mut v, Negative);
    } else {
        let te = ticks_exact(pts);
        tick = te.tick;
        tie = te.tie;
        if te.huge || te.tick >= (1u64 << 53) {
            either = Some("timestamp_beyond_2^53_ticks(C16)".into());
        }
        if let Some(l) = st.last_apts {
            if pts < l {
                reject(&mut v, AudioOrder);
            } else if let Some(lt) = st.last_atick {
                // a timestamp on a half-tick tie is known only to within one tick: the 32-bit gap rule is judged with that slack
                let slack = st.last_atick_tie as u64 + te.tie as u64;
                if te.tick > lt && te.tick - lt > u32::MAX as u64 + slack {
                    reject(&mut v, DurationOverflow);
                } else if te.tick > lt && te.tick - lt + slack > u32::MAX as u64 {
                    either.get_or_insert("half_tick_tie".into());
                    gap_within_slack = true;
                }
                if te.tick < lt {
                    either.get_or_insert("half_tick_tie".into());
                }
            }
        }
        match st.first_vpts {
            None => reject(&mut v, AudioBeforeVideo),
            Some(f) => {
                if pts < f {
                    reject(&mut v, AudioBeforeVideo);
                }
            }
        }
    }
    if audio_cfg && !data.is_empty() {
        if grey {
            either.get_or_insert("audio_framing_grey_zone".into());
        } else if !framing_valid {
            reject(&mut v, AudioFraming);
        }
    }
    if !v.is_empty() {
        // a grey-zone frame that is rejected for framing is fine too
        if grey {
            v.insert(AudioFraming);
        }
        if huge_audio_ts(pts) || gap_within_slack {
            v.insert(DurationOverflow);
        }
        return (Verdict::MustReject(v), tick, tie);
    }
    if let Some(e) = either {
        return (Verdict::Either(e), tick, tie);
    }
    (Verdict::MustAccept, tick, tie)
}

fn apply_audio(st: &mut ModelState, v: &Verdict, pts: f64, tick: u64, decided: Option<bool>) {
    let accept = match v {
        Verdict::MustAccept => true,
        Verdict::MustReject(_) => false,
        Verdict::Either(_) => match decided {
            Some(a) => a,
            None => {
                st.desynced = true;
                false
            }
        },
    };
    match accept {
        true => {
            st.last_apts = Some(pts);
            if let Some(l) = st.last_atick {
                st.a_last_delta = tick.saturating_sub(l);
            }
            if st.a_first_tick.is_none() {
                st.a_first_tick = Some(tick);
            }
            st.last_atick = Some(tick);
            st.last_atick_tie = ticks_exact(pts).tie;
            st.a_tie_seen |= st.last_atick_tie;
            st.n_audio += 1;
        }
        false => {}
    }
}

// ------------------------------------------------------------------------------------------
// strategies

pub fn ts_strategy() -> impl Strategy<Value = Ts> {
    prop_oneof![
        1 => Just(Ts::NaN),
        1 => Just(Ts::PosInf),
        1 => Just(Ts::NegInf),
        1 => Just(Ts::NegZero),
        1 => (0u32..1000).prop_map(Ts::Negative),
        4 => (0u64..2_000_000, -49i8..=49).prop_map(|(t, j)| Ts::Abs(t, j)),
        20 => (prop_oneof![4 => Just(3000i64), 3 => 1i64..10000, 1 => 1i64..300_000_000], -49i8..=49).prop_map(|(d, j)| Ts::Rel(d, j)),
        3 => (-5000i64..=0, -49i8..=49).prop_map(|(d, j)| Ts::Rel(d, j)),
        1 => Just(Ts::SubTickAbove),
        1 => (-1i8..=1).prop_map(Ts::GapU32),
        3 => (prop_oneof![Just(0i64), -3000i64..3000, 0i64..200000], -49i8..=49).prop_map(|(d, j)| Ts::RelFirstVideo(d, j)),
        1 => (0u8..12).prop_map(Ts::Huge),
        1 => (-3i8..=3).prop_map(Ts::UlpsFromFirstVideo),
        1 => (-3i8..=3).prop_map(Ts::UlpsFromLast),
    ]
}

pub fn vf_strategy() -> impl Strategy<Value = VF> {
    (
        prop_oneof![1 => Just(VKind::Empty), 5 => Just(VKind::KeyCfg), 2 => Just(VKind::KeyNoCfg), 8 => Just(VKind::Delta), 1 => Just(VKind::Garbage)],
        1u16..200,
        any::<u8>(),
    )
        .prop_map(|(kind, size, shape)| VF { kind, size, shape })
}

pub fn af_strategy() -> impl Strategy<Value = AF> {
    (
        prop_oneof![1 => Just(AKind::Empty), 12 => Just(AKind::Valid), 3 => (1u8..10).prop_map(AKind::Corrupt), 1 => Just(AKind::Garbage)],
        1u16..200,
        any::<u8>(),
    )
        .prop_map(|(kind, size, shape)| AF { kind, size, shape })
}

pub fn rop_strategy(finish_weight: u32) -> impl Strategy<Value = ROp> {
    prop_oneof![
        10 => (ts_strategy(), vf_strategy(), prop::bool::weighted(0.5)).prop_map(|(ts, frame, key)| ROp::Video { ts, frame, key }),
        6 => (
            prop_oneof![
                6 => Just(Ts::Rel(0, 0)),
                4 => (-9000i64..9000, -49i8..=49).prop_map(|(d, j)| Ts::Rel(d, j)),
                2 => ts_strategy(),
                // composition offsets straddling the signed 32-bit limit
                1 => (((1i64 << 31) - 3)..((1i64 << 31) + 3), any::<bool>()).prop_map(|(d, neg)| Ts::Rel(if neg { -d } else { d }, 0)),
            ],
            ts_strategy(),
            vf_strategy(),
            prop::bool::weighted(0.5)
        )
            .prop_map(|(pts, dts, frame, key)| ROp::VideoDts { pts, dts, frame, key }),
        10 => (ts_strategy(), af_strategy()).prop_map(|(ts, frame)| ROp::Audio { ts, frame }),
        3 => (vf_strategy(), prop_oneof![Just(33u32), Just(40u32), 0u32..2000, any::<u32>()]).prop_map(|(frame, ms)| ROp::EncVideo { frame, ms }),
        3 => (af_strategy(), prop_oneof![Just(1024u32), Just(960u32), 0u32..5000]).prop_map(|(frame, samples)| ROp::EncAudio { frame, samples }),
        finish_weight => (0u8..5).prop_map(ROp::Finish),
    ]
}

/// `key` is tied to the frame kind most of the time so that histories make progress.
fn tidy(mut op: ROp, loose: bool) -> ROp {
    if loose {
        return op;
    }
    match &mut op {
        ROp::Video { frame, key, .. } | ROp::VideoDts { frame, key, .. } => {
            *key = matches!(frame.kind, VKind::KeyCfg | VKind::KeyNoCfg);
        }
        _ => {}
    }
    op
}

pub fn raw_case_strategy(max_ops: usize, finish_weight: u32) -> impl Strategy<Value = RawCase> {
    (
        0u8..4,
        prop::bool::weighted(0.97),
        prop_oneof![2 => Just(0u8), 5 => 1u8..7, 3 => Just(7u8), 1 => Just(8u8)],
        0u8..13,
        0u8..8,
        any::<bool>(),
        proptest::option::weighted(0.2, "[a-z]{0,12}"),
        vec((rop_strategy(finish_weight), prop::bool::weighted(0.25)), 0..=max_ops),
        (any::<bool>(), prop_oneof![6 => Just(0u64), 2 => 0u64..10_000_000, 2 => (1u64 << 32) - 100_000..(1u64 << 33), 1 => 0u64..(1u64 << 40), 1 => (1u64 << 40)..(1u64 << 52), 1 => (33u32..52, 1u64..100_000).prop_map(|(k, b)| (1u64 << k) - b)]),
    )
        .prop_map(|(codec, video_configured, audio, rate_idx, channels, fast_start, title, ops, (lead_key, start))| {
            let mut ops: Vec<ROp> = ops.into_iter().map(|(op, loose)| tidy(op, loose)).collect();
            if lead_key && !ops.is_empty() {
                // most histories start with a proper first keyframe so that later calls reach deeper states
                ops.insert(0, ROp::Video { ts: Ts::Abs(start, 0), frame: VF { kind: VKind::KeyCfg, size: 20, shape: 1 }, key: true });
            }
            RawCase { codec, video_configured, audio, rate_idx, channels, fast_start, title, ops, start, repeat: vec![] }
        })
}

fn huge_audio_ts(pts: f64) -> bool {
    pts.is_finite() && pts >= 0.0 && {
        let t = ticks_exact(pts);
        t.huge || t.tick >= (1u64 << 53)
    }
}


// ------------------------------------------------------------------------------------------
// fixed list: rejection bursts and long histories after a rejection

pub const BURST_NOTE: &str = "fixed list: every kind of rejected call (garbage / corrupt / empty / backwards / NaN audio, garbage encode_audio, \
     same-timestamp / empty / NaN / dts-backwards video, empty encode_video) repeated 1, 63, 64, 65, 300 times in a row between accepted frames \
     of all framing variants (AAC with and without CRC, Opus); and 4 300 / 65 535 accepted frames (explicit and automatic timestamps) after a rejected call; \
     encode_video / encode_audio advanced 120..5 000 times by the largest steps whose gap still fits 32 bits";

pub fn burst_cases(_t: crate::engine::Tier) -> Vec<RawCase> {
    let vkey = |ts: Ts| ROp::Video { ts, frame: VF { kind: VKind::KeyCfg, size: 24, shape: 0 }, key: true };
    let vdelta = |ts: Ts, shape: u8| ROp::Video { ts, frame: VF { kind: VKind::Delta, size: 9, shape }, key: false };
    let aud = |ts: Ts, kind: AKind, shape: u8| ROp::Audio { ts, frame: AF { kind, size: 11, shape } };
    let mut out = Vec::new();
    let rejected: Vec<ROp> = vec![
        aud(Ts::Rel(1920, 0), AKind::Garbage, 0),
        aud(Ts::Rel(1920, 0), AKind::Corrupt(1), 1),
        aud(Ts::Rel(1920, 0), AKind::Corrupt(3), 0),
        aud(Ts::Rel(1920, 0), AKind::Corrupt(5), 1),
        aud(Ts::Rel(1920, 0), AKind::Empty, 0),
        aud(Ts::Rel(-5, 0), AKind::Valid, 0),
        aud(Ts::NaN, AKind::Valid, 1),
        ROp::EncAudio { frame: AF { kind: AKind::Garbage, size: 11, shape: 0 }, samples: 1024 },
        vdelta(Ts::Rel(0, 0), 0),
        ROp::Video { ts: Ts::Rel(3000, 0), frame: VF { kind: VKind::Empty, size: 0, shape: 0 }, key: false },
        vdelta(Ts::NaN, 0),
        ROp::VideoDts { pts: Ts::Rel(3000, 0), dts: Ts::Rel(-1, 0), frame: VF { kind: VKind::Delta, size: 9, shape: 0 }, key: false },
        ROp::EncVideo { frame: VF { kind: VKind::Empty, size: 0, shape: 0 }, ms: 33 },
    ];
    for (k, rej) in rejected.iter().enumerate() {
        for (j, &n) in [1u16, 63, 64, 65, 300].iter().enumerate() {
            for audio in [1u8, 7] {
                let mut ops = vec![vkey(Ts::Abs(0, 0)), aud(Ts::RelFirstVideo(0, 0), AKind::Valid, 0), aud(Ts::Rel(1920, 0), AKind::Valid, 1)];
                let first_burst = ops.len();
                ops.push(rej.clone());
                for sh in 0..16u8 {
                    ops.push(aud(Ts::Rel(1920, 0), AKind::Valid, sh.wrapping_mul(17)));
                }
                ops.push(vdelta(Ts::Rel(3000, 0), 1));
                ops.push(vdelta(Ts::Rel(3000, 0), 2));
                let second_burst = ops.len();
                ops.push(rej.clone());
                ops.push(vdelta(Ts::Rel(3000, 0), 3));
                ops.push(aud(Ts::Rel(1920, 0), AKind::Valid, 4));
                ops.push(ROp::Finish(1));
                out.push(RawCase {
                    codec: ((k + j) % 4) as u8,
                    video_configured: true,
                    audio,
                    rate_idx: 3,
                    channels: 1,
                    fast_start: (k + j) % 2 == 0,
                    title: None,
                    ops,
                    start: 0,
                    repeat: vec![(first_burst as u16, n - 1), (second_burst as u16, n - 1)],
                });
            }
        }
    }
    // long runs of accepted frames after a rejected call
    for (n, audios) in [(4300u16, vec![1u8, 7]), (65_535u16, vec![1u8])] {
        for audio in audios {
            for enc in [false, true] {
                let good = if enc { ROp::EncAudio { frame: AF { kind: AKind::Valid, size: 7, shape: 1 }, samples: 1024 } } else { aud(Ts::Rel(1920, 0), AKind::Valid, 1) };
                let bad = if enc { ROp::EncAudio { frame: AF { kind: AKind::Garbage, size: 7, shape: 0 }, samples: 1024 } } else { aud(Ts::Rel(1920, 0), AKind::Garbage, 0) };
                let ops = vec![vkey(Ts::Abs(0, 0)), good.clone(), bad, good.clone(), vdelta(Ts::Rel(3000, 0), 0), good, ROp::Finish(1)];
                out.push(RawCase { codec: enc as u8, video_configured: true, audio, rate_idx: 3, channels: 1, fast_start: enc, title: None, ops, start: 0, repeat: vec![(1, 49), (3, n)] });
                let (vgood, vbad, first) = if enc {
                    (
                        ROp::EncVideo { frame: VF { kind: VKind::Delta, size: 7, shape: 0 }, ms: 33 },
                        ROp::EncVideo { frame: VF { kind: VKind::Empty, size: 0, shape: 0 }, ms: 33 },
                        ROp::EncVideo { frame: VF { kind: VKind::KeyCfg, size: 24, shape: 0 }, ms: 33 },
                    )
                } else {
                    (vdelta(Ts::Rel(3000, 0), 0), vdelta(Ts::Rel(0, 0), 0), vkey(Ts::Abs(0, 0)))
                };
                let ops = vec![first, vgood.clone(), vbad, vgood.clone(), aud(Ts::RelFirstVideo(0, 0), AKind::Valid, 0), vgood, ROp::Finish(0)];
                out.push(RawCase { codec: 2 + enc as u8, video_configured: true, audio, rate_idx: 3, channels: 2, fast_start: !enc, title: None, ops, start: 0, repeat: vec![(1, 49), (3, n)] });
            }
        }
    }
    // deep reordering: the frame that is presented last sits 17 / 32 / 65 positions before the end in decode order
    // (I, P shown after all the B-frames, then the B-frames): statistics and tables must look at every sample
    for (codec, nb) in [(0u8, 16u16), (1, 31), (2, 64)] {
        let p = ROp::VideoDts { pts: Ts::Rel(nb as i64 * 3000, 0), dts: Ts::Rel(3000, 0), frame: VF { kind: VKind::Delta, size: 9, shape: 1 }, key: false };
        let b = ROp::VideoDts { pts: Ts::Rel(-3000, 0), dts: Ts::Rel(3000, 0), frame: VF { kind: VKind::Delta, size: 8, shape: 2 }, key: false };
        out.push(RawCase { codec, video_configured: true, audio: 0, rate_idx: 3, channels: 1, fast_start: nb % 2 == 0, title: None, ops: vec![vkey(Ts::Abs(0, 0)), p, b, ROp::Finish(1)], start: 0, repeat: vec![(2, nb - 1)] });
    }
    // two video samples with the same presentation time (a field pair / hidden frame + shown frame) at the presentation tail,
    // the second with the longer decode duration, then earlier-presented frames
    {
        let vd = |pts: i64, dts: i64| ROp::VideoDts { pts: Ts::Rel(pts, 0), dts: Ts::Rel(dts, 0), frame: VF { kind: VKind::Delta, size: 9, shape: 1 }, key: false };
        for codec in [0u8, 2] {
            let ops = vec![vkey(Ts::Abs(0, 0)), vd(18_000, 9_000), vd(16_200, 1_800), vd(-9_000, 7_200), vd(-9_000, 9_000), ROp::Finish(1)];
            out.push(RawCase { codec, video_configured: true, audio: 0, rate_idx: 3, channels: 1, fast_start: codec == 0, title: None, ops, start: 0, repeat: vec![] });
        }
    }
    // both tracks end on exactly the same tick (25 fps x 8 frames = 48 kHz AAC x 15 frames; x 256 / 480; 50 fps with 20 ms Opus)
    for (audio, vstep, nv, astep, na) in [(1u8, 3600i64, 8u16, 1920i64, 15u16), (1, 3600, 256, 1920, 480), (7, 1800, 40, 1800, 40)] {
        let ops = vec![vkey(Ts::Abs(0, 0)), vdelta(Ts::Rel(vstep, 0), 0), aud(Ts::RelFirstVideo(0, 0), AKind::Valid, 33), aud(Ts::Rel(astep, 0), AKind::Valid, 33), ROp::Finish(1)];
        out.push(RawCase { codec: 1, video_configured: true, audio, rate_idx: 3, channels: 1, fast_start: true, title: None, ops, start: 0, repeat: vec![(1, nv - 2), (3, na - 2)] });
    }
    // automatic clocks advanced by the largest legal steps: the accumulated time crosses 2^32 ms (49.7 days) and 2^32 samples long
    // before the number of calls is large; every call must still be accepted (the gap fits 32 bits each time)
    for (codec, ms, n) in [(2u8, 47_721_858u32, 200u16), (3, 40_000_000, 150), (0, 1_000_000, 5000)] {
        let first = ROp::EncVideo { frame: VF { kind: VKind::KeyCfg, size: 24, shape: 0 }, ms };
        let step = ROp::EncVideo { frame: VF { kind: VKind::Delta, size: 7, shape: 0 }, ms };
        out.push(RawCase { codec, video_configured: true, audio: 0, rate_idx: 3, channels: 1, fast_start: true, title: None, ops: vec![first, step, ROp::Finish(1)], start: 0, repeat: vec![(1, n)] });
    }
    for (rate_idx, samples, n) in [(3u8, 2_290_000_000u32, 150u16), (4, 2_000_000_000, 120), (11, 381_000_000, 200)] {
        let ops = vec![vkey(Ts::Abs(0, 0)), ROp::EncAudio { frame: AF { kind: AKind::Valid, size: 7, shape: 33 }, samples }, ROp::Finish(1)];
        out.push(RawCase { codec: 1, video_configured: true, audio: 1, rate_idx, channels: 1, fast_start: false, title: None, ops, start: 0, repeat: vec![(1, n)] });
    }
    out
}
