//! Frame builders: every frame is *constructed* from a structured gene so the expected
//! stored sample is known without re-parsing.  Nothing here calls into muxide.

use serde::{Deserialize, Serialize};

// ---------------------------------------------------------------------------------
// deterministic filler

/// Body bytes for payloads.  `mode` 0: tag-cycled bytes >= 0x10 (no zeros);
/// 1: sprinkled single zeros; 2: zero pairs that need emulation prevention (for NALs the
/// caller applies EPB); 3: bytes 0x00..0x03 heavy.
pub fn filler(len: usize, tag: u64, mode: u8) -> Vec<u8> {
    let t = tag.to_be_bytes();
    let mut out = Vec::with_capacity(len);
    let mut x = tag.wrapping_mul(0x9E37_79B9_7F4A_7C15) | 1;
    for i in 0..len {
        x ^= x << 13;
        x ^= x >> 7;
        x ^= x << 17;
        // first 16 bytes: the tag, one nibble per byte (0x10..0x1f): unique per sample, never zero
        let base = if i < 16 { 0x10 | ((t[i / 2] >> (4 * (1 - i % 2))) & 0x0f) } else { ((x >> 24) as u8) | 0x10 };
        let b = match mode {
            0 => base,
            1 => {
                if i % 5 == 3 {
                    0
                } else {
                    base
                }
            }
            2 => {
                if i % 7 == 2 || i % 7 == 3 {
                    0
                } else if i % 7 == 4 {
                    (x >> 40) as u8 & 3
                } else {
                    base
                }
            }
            _ => {
                if i < 16 {
                    base
                } else {
                    (x >> 33) as u8 & 3
                }
            }
        };
        out.push(b);
    }
    // dictionary: one payload in 16 (of at least 48 bytes) carries a string that means something elsewhere in the container or
    // in a sibling framing - none of them contains a zero byte, so "mode 0 has no zeros" still holds
    if len >= 48 && (tag ^ (tag >> 20)) % 16 == 3 {
        const DICT: [&[u8]; 10] = [b"trun\x01", b"moof", b"mdat", b"OpusHead", b"OpusTags", b"stco", b"\xff\xf1\x4c\x80\x02\x1f\xfc", b"avcC\x01", b"tfdt\x01", b"\x0c\xff\xff\xff\x80"];
        let d = DICT[((tag >> 8) % 10) as usize];
        let at = 20 + ((tag >> 12) as usize % (len - 20 - d.len()).max(1));
        if at + d.len() <= len {
            out[at..at + d.len()].copy_from_slice(d);
        }
    }
    out
}

/// RBSP -> NAL payload: insert emulation-prevention 0x03 after `00 00` when the next byte is <= 3,
/// and make sure the unit does not end in 0x00 (append the rbsp stop byte 0x80).
pub fn epb(raw: &[u8]) -> Vec<u8> {
    let mut out = Vec::with_capacity(raw.len() + 4);
    let mut zeros = 0;
    for &b in raw {
        if zeros >= 2 && b <= 3 {
            out.push(3);
            zeros = 0;
        }
        out.push(b);
        if b == 0 {
            zeros += 1;
        } else {
            zeros = 0;
        }
    }
    if out.last().copied().unwrap_or(0) == 0 {
        out.push(0x80);
    }
    out
}

// ---------------------------------------------------------------------------------
// H.264 / H.265

#[derive(Clone, Debug, Serialize, Deserialize, PartialEq, Eq, Hash)]
pub struct NalGene {
    /// NAL unit type (H.264: 5 bits; H.265: 6 bits)
    pub typ: u8,
    /// body length after the NAL header
    pub len: u16,
    pub fill: u8,
    /// 4-byte start code?
    pub sc4: bool,
    /// nal_ref_idc (H.264) / temporal id plus one (H.265, 1..7)
    pub aux: u8,
}

#[derive(Clone, Debug, Serialize, Deserialize, PartialEq, Eq, Hash)]
pub struct AnnexBFrame {
    pub nals: Vec<NalGene>,
    pub lead_zeros: u8,
    /// 1..=3: that many zero bytes after the last unit (they belong to it); >= 100: a bare start code (3-byte for 100,
    /// 4-byte for 101) at the very end of the frame, i.e. an empty trailing unit that must be skipped
    pub trail_zeros: u8,
}

/// Every box type the muxer writes: injected into caller-controlled byte strings and numbers that end up inside
/// moov / moof (titles, parameter sets, timestamps), where a byte search for a fourcc would find them.
pub const FOURCC_DICT: [&[u8; 4]; 48] = [
    b"stco", b"trun", b"mdat", b"moov", b"tfdt", b"moof", b"stsz", b"ftyp", b"mvhd", b"trak", b"tkhd", b"mdia", b"mdhd", b"hdlr", b"minf", b"vmhd",
    b"smhd", b"dinf", b"dref", b"stbl", b"stsd", b"stts", b"ctts", b"stsc", b"stss", b"udta", b"meta", b"ilst", b"data", b"avcC", b"hvcC", b"av1C",
    b"vpcC", b"esds", b"dOps", b"mvex", b"trex", b"mfhd", b"traf", b"tfhd", b"avc1", b"hvc1", b"av01", b"vp09", b"mp4a", b"Opus", b"url ", b"co64",
];

pub fn nal_bytes(hevc: bool, g: &NalGene, tag: u64) -> Vec<u8> {
    let mut nal = Vec::new();
    if hevc {
        nal.push((g.typ & 0x3f) << 1);
        nal.push((g.aux % 7) + 1);
    } else {
        nal.push(((g.aux & 3) << 5) | (g.typ & 0x1f));
    }
    if g.fill == 254 {
        // filler-data style payload: 0xFF bytes and the rbsp trailing bits (what CBR / broadcast encoders pad with)
        nal.extend(std::iter::repeat(0xffu8).take(g.len as usize));
        nal.push(0x80);
        return nal;
    }
    let body = filler(g.len as usize, tag, g.fill % 4);
    if !hevc && g.typ & 0x1f == 7 && (160..192).contains(&g.fill) {
        // an H.264 SPS that opens like a real one: profile_idc, constraint flags, level_idc and, for the High profiles, valid
        // codes for seq_parameter_set_id, chroma_format_idc [separate_colour_plane_flag], bit_depth_luma/chroma_minus8
        const OPEN: [&[u8]; 12] = [
            &[0x42, 0xe0, 0x1f],             // constrained baseline
            &[0x4d, 0x40, 0x1f],             // main
            &[0x64, 0x00, 0x28, 0xac],       // high, 4:2:0, 8 bit
            &[0x6e, 0x00, 0x28, 0xa6, 0xc0], // high 10, 4:2:0, 10 bit
            &[0x7a, 0x00, 0x1f, 0xb6, 0xc0], // high 4:2:2, 10 bit
            &[0x7a, 0x00, 0x1f, 0xb8],       // high 4:2:2, 8 bit
            &[0xf4, 0x00, 0x1f, 0x91, 0x80], // high 4:4:4 predictive, 8 bit
            &[0xf4, 0x00, 0x1f, 0x90, 0xd8], // high 4:4:4 predictive, 10 bit
            &[0x90, 0x00, 0x1f, 0x91, 0x80], // profile 144 (the older High 4:4:4), 4:4:4, 8 bit
            &[0x64, 0x00, 0x28, 0xf0],       // high, monochrome
            &[0x64, 0x00, 0x33, 0x93, 0x80], // high signalling 4:4:4 with separate colour planes
            &[0x2c, 0x00, 0x1f, 0x90, 0xd8], // CAVLC 4:4:4 intra, 10 bit
        ];
        nal.extend_from_slice(OPEN[(g.fill - 160) as usize % OPEN.len()]);
    }
    if hevc && g.typ & 0x3f == 33 && (160..192).contains(&g.fill) {
        // an H.265 SPS that opens like a real one, up to bit_depth_chroma_minus8 (H.265 7.3.2.2 / 7.3.3):
        // (max_sub_layers_minus1, sub-layer (profile_present, level_present) flags, chroma_format_idc, separate planes,
        //  conformance window, bit_depth_luma_minus8, bit_depth_chroma_minus8)
        const V: [(u8, &[(bool, bool)], u32, bool, bool, u32, u32); 10] = [
            (0, &[], 1, false, false, 0, 0),
            (0, &[], 1, false, true, 2, 2),
            (0, &[], 2, false, false, 2, 2),
            (0, &[], 3, false, true, 0, 0),
            (0, &[], 3, true, false, 4, 4),
            (0, &[], 0, false, false, 0, 0),
            (2, &[(false, true), (false, false)], 1, false, false, 0, 0),
            (1, &[(true, false)], 1, false, true, 2, 2),
            (3, &[(true, true), (false, true), (true, false)], 2, false, false, 2, 0),
            (6, &[(false, true), (true, false), (false, false), (false, true), (true, true), (false, false)], 1, false, false, 0, 0),
        ];
        let (msl, flags, chroma, separate, window, luma8, chroma8) = V[(g.fill - 160) as usize % V.len()];
        let mut bits: Vec<bool> = Vec::new();
        let mut put = |v: u64, n: usize, bits: &mut Vec<bool>| {
            for i in (0..n).rev() {
                bits.push((v >> i) & 1 == 1);
            }
        };
        let ue = |v: u32, bits: &mut Vec<bool>| {
            let x = v as u64 + 1;
            let len = 64 - x.leading_zeros() as usize;
            for _ in 0..len - 1 {
                bits.push(false);
            }
            for i in (0..len).rev() {
                bits.push((x >> i) & 1 == 1);
            }
        };
        put(0, 4, &mut bits); // sps_video_parameter_set_id
        put(msl as u64, 3, &mut bits);
        put(1, 1, &mut bits); // temporal id nesting
        // general profile_tier_level: profile space 0, tier 0, profile 1 or 2; compatibility; flags; level
        put(0, 2, &mut bits);
        put(0, 1, &mut bits);
        put(if luma8 > 0 { 2 } else { 1 }, 5, &mut bits);
        put(0x6000_0000, 32, &mut bits);
        put(0b1001, 4, &mut bits);
        put(0, 43, &mut bits);
        put(0, 1, &mut bits);
        put(93, 8, &mut bits);
        for (p, l) in flags {
            put(*p as u64, 1, &mut bits);
            put(*l as u64, 1, &mut bits);
        }
        if msl > 0 {
            for _ in msl..8 {
                put(0, 2, &mut bits);
            }
        }
        for (k, (p, l)) in flags.iter().enumerate() {
            if *p {
                put(0, 2, &mut bits);
                put(0, 1, &mut bits);
                put(1, 5, &mut bits);
                put(0x6000_0000, 32, &mut bits);
                put(0b1001, 4, &mut bits);
                put(0x155 + k as u64, 43, &mut bits);
                put(0, 1, &mut bits);
            }
            if *l {
                put(60 + 3 * k as u64, 8, &mut bits);
            }
        }
        ue(0, &mut bits); // sps_seq_parameter_set_id
        ue(chroma, &mut bits);
        if chroma == 3 {
            put(separate as u64, 1, &mut bits);
        }
        ue(1920, &mut bits);
        ue(1088, &mut bits);
        put(window as u64, 1, &mut bits);
        if window {
            ue(0, &mut bits);
            ue(0, &mut bits);
            ue(0, &mut bits);
            ue(4, &mut bits);
        }
        ue(luma8, &mut bits);
        ue(chroma8, &mut bits);
        while bits.len() % 8 != 0 {
            bits.push(true);
        }
        for ch in bits.chunks(8) {
            nal.push(ch.iter().fold(0u8, |a, b| (a << 1) | *b as u8));
        }
    }
    // EPB over header+body so that a zero header byte followed by zeros is handled as well
    nal.extend_from_slice(&body);
    if g.fill >= 192 && g.fill < 254 {
        // dictionary: the unit ends with the bytes of a box type (a byte search for a fourcc in the moov must not hit them)
        nal.extend_from_slice(FOURCC_DICT[(g.fill - 192) as usize % FOURCC_DICT.len()]);
    }
    epb(&nal)
}

impl AnnexBFrame {
    /// Returns (annex-b bytes, list of NAL units as constructed)
    pub fn build(&self, hevc: bool, tag: u64) -> (Vec<u8>, Vec<Vec<u8>>) {
        let mut out = vec![0u8; self.lead_zeros as usize];
        let mut units: Vec<Vec<u8>> = Vec::new();
        for (i, g) in self.nals.iter().enumerate() {
            // fill 255: a verbatim repetition of the previous unit of the same type (byte-identical duplicate)
            let nal = match (g.fill == 255).then(|| self.nals[..i].iter().rposition(|p| p.typ == g.typ)).flatten() {
                Some(j) => units[j].clone(),
                None => nal_bytes(hevc, g, tag.wrapping_add((i as u64) << 40)),
            };
            if g.sc4 {
                out.extend_from_slice(&[0, 0, 0, 1]);
            } else {
                out.extend_from_slice(&[0, 0, 1]);
            }
            out.extend_from_slice(&nal);
            units.push(nal);
        }
        if self.trail_zeros >= 100 {
            if !units.is_empty() {
                if self.trail_zeros == 101 {
                    out.extend_from_slice(&[0, 0, 0, 1]);
                } else {
                    out.extend_from_slice(&[0, 0, 1]);
                }
            }
        } else if self.trail_zeros > 0 {
            if let Some(last) = units.last_mut() {
                for _ in 0..self.trail_zeros {
                    out.push(0);
                    last.push(0);
                }
            }
        }
        (out, units)
    }
}

/// Expected MP4 framing of a list of NAL units.
pub fn length_prefixed(units: &[Vec<u8>]) -> Vec<u8> {
    let mut out = Vec::new();
    for u in units {
        out.extend_from_slice(&(u.len() as u32).to_be_bytes());
        out.extend_from_slice(u);
    }
    out
}

pub mod h264t {
    pub const SLICE: u8 = 1;
    pub const IDR: u8 = 5;
    pub const SEI: u8 = 6;
    pub const SPS: u8 = 7;
    pub const PPS: u8 = 8;
    pub const AUD: u8 = 9;
}
pub mod h265t {
    pub const TRAIL: u8 = 1;
    pub const IDR_W: u8 = 19;
    pub const IDR_N: u8 = 20;
    pub const CRA: u8 = 21;
    pub const VPS: u8 = 32;
    pub const SPS: u8 = 33;
    pub const PPS: u8 = 34;
    pub const AUD: u8 = 35;
    pub const SEI: u8 = 39;
}

// ---------------------------------------------------------------------------------
// bit writer

#[derive(Default)]
pub struct BitW {
    pub bytes: Vec<u8>,
    pub nbits: usize,
}
impl BitW {
    pub fn put(&mut self, v: u64, n: usize) {
        for i in (0..n).rev() {
            let bit = ((v >> i) & 1) as u8;
            if self.nbits % 8 == 0 {
                self.bytes.push(0);
            }
            let last = self.bytes.len() - 1;
            self.bytes[last] |= bit << (7 - (self.nbits % 8));
            self.nbits += 1;
        }
    }
    pub fn flag(&mut self, b: bool) {
        self.put(b as u64, 1)
    }
    pub fn uvlc(&mut self, v: u32) {
        // value v encoded as leadingZeros zeros, a one, then leadingZeros bits of (v+1 - 2^lz);
        // 2^32-1 is the special case of the syntax (AV1 spec 4.10.3): 32 leading zeros, the one, and nothing after it
        if v == u32::MAX {
            for _ in 0..32 {
                self.put(0, 1);
            }
            self.put(1, 1);
            return;
        }
        let x = v as u64 + 1;
        let lz = 63 - x.leading_zeros() as usize;
        for _ in 0..lz {
            self.put(0, 1);
        }
        self.put(1, 1);
        if lz > 0 {
            self.put(x - (1u64 << lz), lz);
        }
    }
    pub fn trailing(&mut self) {
        self.put(1, 1);
        while self.nbits % 8 != 0 {
            self.put(0, 1);
        }
    }
}

// ---------------------------------------------------------------------------------
// AV1

#[derive(Clone, Debug, Serialize, Deserialize, PartialEq, Eq, Hash)]
pub struct Av1DecoderModel {
    pub buffer_delay_length_minus_1: u8,
    pub num_units_in_decoding_tick: u32,
    pub buffer_removal_time_length_minus_1: u8,
    pub frame_presentation_time_length_minus_1: u8,
}

#[derive(Clone, Debug, Serialize, Deserialize, PartialEq, Eq, Hash)]
pub struct Av1Timing {
    pub num_units_in_display_tick: u32,
    pub time_scale: u32,
    pub equal_picture_interval: Option<u32>, // num_ticks_per_picture_minus_1
    pub decoder_model: Option<Av1DecoderModel>,
}

#[derive(Clone, Debug, Serialize, Deserialize, PartialEq, Eq, Hash)]
pub struct Av1OpPoint {
    pub idc: u16,
    pub level: u8,
    pub tier: bool,
    /// only written when decoder_model_info_present
    pub decoder_model: Option<(u32, u32, bool)>,
    /// only written when initial_display_delay_present
    pub display_delay: Option<u8>,
}

#[derive(Clone, Debug, Serialize, Deserialize, PartialEq, Eq, Hash)]
pub struct Av1Color {
    pub high_bitdepth: bool,
    pub twelve_bit: bool,
    pub mono: bool,
    pub desc: Option<(u8, u8, u8)>,
    pub range: bool,
    pub ssx: bool,
    pub ssy: bool,
    pub csp: u8,
    pub sep_uv: bool,
}

#[derive(Clone, Debug, Serialize, Deserialize, PartialEq, Eq, Hash)]
pub struct Av1Seq {
    pub profile: u8,
    pub still: bool,
    pub reduced: bool,
    pub reduced_level: u8,
    pub timing: Option<Av1Timing>,
    pub init_display_delay_present: bool,
    pub ops: Vec<Av1OpPoint>,
    pub wbits_m1: u8,
    pub hbits_m1: u8,
    pub w_m1: u32,
    pub h_m1: u32,
    pub frame_id: Option<(u8, u8)>,
    pub sb128: bool,
    pub filter_intra: bool,
    pub intra_edge: bool,
    pub interintra: bool,
    pub masked: bool,
    pub warped: bool,
    pub dual: bool,
    pub order_hint: Option<(bool, bool, u8)>,
    /// 0: seq_choose_screen_content_tools=1; 1: choose=0, force=0; 2: choose=0, force=1
    pub sct: u8,
    /// 0: seq_choose_integer_mv=1; 1: choose=0, force=0; 2: choose=0, force=1
    pub imv: u8,
    pub superres: bool,
    pub cdef: bool,
    pub restoration: bool,
    pub color: Av1Color,
    pub film_grain: bool,
}

#[derive(Clone, Debug, PartialEq, Eq)]
pub struct Av1Expect {
    pub profile: u8,
    pub level0: u8,
    pub tier0: u8,
    pub high_bitdepth: bool,
    pub twelve_bit: bool,
    pub mono: bool,
    pub ssx: bool,
    pub ssy: bool,
    pub csp: u8,
}

impl Av1Seq {
    pub fn simple() -> Self {
        Av1Seq {
            profile: 0,
            still: false,
            reduced: false,
            reduced_level: 0,
            timing: None,
            init_display_delay_present: false,
            ops: vec![Av1OpPoint { idc: 0, level: 4, tier: false, decoder_model: None, display_delay: None }],
            wbits_m1: 9,
            hbits_m1: 9,
            w_m1: 639,
            h_m1: 479,
            frame_id: None,
            sb128: false,
            filter_intra: true,
            intra_edge: true,
            interintra: false,
            masked: false,
            warped: false,
            dual: false,
            order_hint: Some((false, false, 6)),
            sct: 0,
            imv: 0,
            superres: false,
            cdef: true,
            restoration: false,
            color: Av1Color {
                high_bitdepth: false,
                twelve_bit: false,
                mono: false,
                desc: None,
                range: false,
                ssx: true,
                ssy: true,
                csp: 0,
                sep_uv: false,
            },
            film_grain: false,
        }
    }

    /// Normalise the gene so it denotes a *valid* header (fields that the syntax does not
    /// carry are forced to their inferred values). Returns the normalised value.
    pub fn normalised(&self) -> Av1Seq {
        let mut s = self.clone();
        s.profile %= 3;
        if s.reduced {
            s.still = true;
            s.timing = None;
            s.init_display_delay_present = false;
            s.ops.clear();
            s.frame_id = None;
            s.order_hint = None;
            s.reduced_level &= 31;
        } else {
            if s.ops.is_empty() {
                s.ops.push(Av1OpPoint { idc: 0, level: 0, tier: false, decoder_model: None, display_delay: None });
            }
            s.ops.truncate(32);
            let dm = s.timing.as_ref().and_then(|t| t.decoder_model.clone());
            if let Some(t) = s.timing.as_mut() {
                if let Some(d) = t.decoder_model.as_mut() {
                    d.buffer_delay_length_minus_1 &= 31;
                    d.buffer_removal_time_length_minus_1 &= 31;
                    d.frame_presentation_time_length_minus_1 &= 31;
                }
            }
            for op in s.ops.iter_mut() {
                op.idc &= 0xfff;
                op.level &= 31;
                if op.level <= 7 {
                    op.tier = false;
                }
                match &dm {
                    None => op.decoder_model = None,
                    Some(d) => {
                        if let Some(m) = op.decoder_model.as_mut() {
                            let n = d.buffer_delay_length_minus_1 as u32 + 1;
                            let mask = if n >= 32 { u32::MAX } else { (1u32 << n) - 1 };
                            m.0 &= mask;
                            m.1 &= mask;
                        }
                    }
                }
                if !s.init_display_delay_present {
                    op.display_delay = None;
                } else if let Some(d) = op.display_delay.as_mut() {
                    *d &= 15;
                }
            }
            if let Some(f) = s.frame_id.as_mut() {
                f.0 &= 15;
                f.1 &= 7;
            }
            if let Some(o) = s.order_hint.as_mut() {
                o.2 &= 7;
            }
            s.sct %= 3;
            s.imv %= 3;
        }
        s.wbits_m1 &= 15;
        s.hbits_m1 &= 15;
        let wm = (1u32 << (s.wbits_m1 as u32 + 1)) - 1;
        let hm = (1u32 << (s.hbits_m1 as u32 + 1)) - 1;
        s.w_m1 &= wm;
        s.h_m1 &= hm;
        let c = &mut s.color;
        if !(s.profile == 2 && c.high_bitdepth) {
            c.twelve_bit = false;
        }
        if s.profile == 1 {
            c.mono = false;
        }
        let bit_depth = if s.profile == 2 && c.twelve_bit {
            12
        } else if c.high_bitdepth {
            10
        } else {
            8
        };
        let desc = c.desc.unwrap_or((2, 2, 2));
        if c.mono {
            c.ssx = true;
            c.ssy = true;
            c.csp = 0;
            c.sep_uv = false;
        } else if desc == (1, 13, 0) {
            // sRGB identity: only legal for 4:4:4 (profile 1, or profile 2 with 12 bit); otherwise avoid the triple
            if s.profile == 1 || (s.profile == 2 && bit_depth == 12) {
                c.ssx = false;
                c.ssy = false;
                c.range = true;
                c.csp = 0;
            } else {
                c.desc = Some((1, 13, 1));
            }
        }
        let desc = c.desc.unwrap_or((2, 2, 2));
        if !c.mono && desc != (1, 13, 0) {
            match s.profile {
                0 => {
                    c.ssx = true;
                    c.ssy = true;
                }
                1 => {
                    c.ssx = false;
                    c.ssy = false;
                }
                _ => {
                    if bit_depth == 12 {
                        if !c.ssx {
                            c.ssy = false;
                        }
                    } else {
                        c.ssx = true;
                        c.ssy = false;
                    }
                }
            }
            if c.ssx && c.ssy {
                c.csp &= 3;
            } else {
                c.csp = 0;
            }
        }
        s
    }

    /// Sequence header OBU *payload* per AV1 spec section 5.5 (value must be normalised).
    pub fn payload(&self) -> Vec<u8> {
        let s = self;
        let mut w = BitW::default();
        w.put(s.profile as u64, 3);
        w.flag(s.still);
        w.flag(s.reduced);
        let mut dm_present = false;
        if s.reduced {
            w.put(s.reduced_level as u64, 5);
        } else {
            w.flag(s.timing.is_some());
            let mut bdl = 0usize;
            if let Some(t) = &s.timing {
                w.put(t.num_units_in_display_tick as u64, 32);
                w.put(t.time_scale as u64, 32);
                w.flag(t.equal_picture_interval.is_some());
                if let Some(e) = t.equal_picture_interval {
                    w.uvlc(e);
                }
                w.flag(t.decoder_model.is_some());
                if let Some(d) = &t.decoder_model {
                    dm_present = true;
                    bdl = d.buffer_delay_length_minus_1 as usize + 1;
                    w.put(d.buffer_delay_length_minus_1 as u64, 5);
                    w.put(d.num_units_in_decoding_tick as u64, 32);
                    w.put(d.buffer_removal_time_length_minus_1 as u64, 5);
                    w.put(d.frame_presentation_time_length_minus_1 as u64, 5);
                }
            }
            w.flag(s.init_display_delay_present);
            w.put(s.ops.len() as u64 - 1, 5);
            for op in &s.ops {
                w.put(op.idc as u64, 12);
                w.put(op.level as u64, 5);
                if op.level > 7 {
                    w.flag(op.tier);
                }
                if dm_present {
                    w.flag(op.decoder_model.is_some());
                    if let Some((a, b, l)) = op.decoder_model {
                        w.put(a as u64, bdl);
                        w.put(b as u64, bdl);
                        w.flag(l);
                    }
                }
                if s.init_display_delay_present {
                    w.flag(op.display_delay.is_some());
                    if let Some(d) = op.display_delay {
                        w.put(d as u64, 4);
                    }
                }
            }
        }
        w.put(s.wbits_m1 as u64, 4);
        w.put(s.hbits_m1 as u64, 4);
        w.put(s.w_m1 as u64, s.wbits_m1 as usize + 1);
        w.put(s.h_m1 as u64, s.hbits_m1 as usize + 1);
        if !s.reduced {
            w.flag(s.frame_id.is_some());
            if let Some((a, b)) = s.frame_id {
                w.put(a as u64, 4);
                w.put(b as u64, 3);
            }
        }
        w.flag(s.sb128);
        w.flag(s.filter_intra);
        w.flag(s.intra_edge);
        if !s.reduced {
            w.flag(s.interintra);
            w.flag(s.masked);
            w.flag(s.warped);
            w.flag(s.dual);
            w.flag(s.order_hint.is_some());
            if let Some((j, r, _)) = s.order_hint {
                w.flag(j);
                w.flag(r);
            }
            let force_sct = match s.sct {
                0 => {
                    w.flag(true);
                    2
                }
                1 => {
                    w.flag(false);
                    w.flag(false);
                    0
                }
                _ => {
                    w.flag(false);
                    w.flag(true);
                    1
                }
            };
            if force_sct > 0 {
                match s.imv {
                    0 => w.flag(true),
                    1 => {
                        w.flag(false);
                        w.flag(false);
                    }
                    _ => {
                        w.flag(false);
                        w.flag(true);
                    }
                }
            }
            if let Some((_, _, ohb)) = s.order_hint {
                w.put(ohb as u64, 3);
            }
        }
        w.flag(s.superres);
        w.flag(s.cdef);
        w.flag(s.restoration);
        // color_config
        let c = &s.color;
        w.flag(c.high_bitdepth);
        if s.profile == 2 && c.high_bitdepth {
            w.flag(c.twelve_bit);
        }
        if s.profile != 1 {
            w.flag(c.mono);
        }
        w.flag(c.desc.is_some());
        if let Some((a, b, m)) = c.desc {
            w.put(a as u64, 8);
            w.put(b as u64, 8);
            w.put(m as u64, 8);
        }
        let desc = c.desc.unwrap_or((2, 2, 2));
        let bit_depth = if s.profile == 2 && c.twelve_bit {
            12
        } else if c.high_bitdepth {
            10
        } else {
            8
        };
        if c.mono {
            w.flag(c.range);
            // no subsampling / csp / separate_uv_delta_q bits
        } else {
            if desc == (1, 13, 0) {
                // no color_range bit
            } else {
                w.flag(c.range);
                if s.profile == 2 && bit_depth == 12 {
                    w.flag(c.ssx);
                    if c.ssx {
                        w.flag(c.ssy);
                    }
                }
                if c.ssx && c.ssy {
                    w.put(c.csp as u64, 2);
                }
            }
            w.flag(c.sep_uv);
        }
        w.flag(s.film_grain);
        w.trailing();
        w.bytes
    }

    pub fn expect(&self) -> Av1Expect {
        let (level0, tier0) = if self.reduced {
            (self.reduced_level, 0)
        } else {
            (self.ops[0].level, self.ops[0].tier as u8)
        };
        Av1Expect {
            profile: self.profile,
            level0,
            tier0,
            high_bitdepth: self.color.high_bitdepth,
            twelve_bit: self.color.twelve_bit,
            mono: self.color.mono,
            ssx: self.color.ssx,
            ssy: self.color.ssy,
            csp: self.color.csp,
        }
    }

    /// Names of the optional syntax branches this header takes (for class counters).
    pub fn branches(&self) -> Vec<&'static str> {
        let mut v = Vec::new();
        if self.reduced {
            v.push("reduced_still");
        }
        if let Some(t) = &self.timing {
            v.push("timing_info");
            if t.equal_picture_interval.is_some() {
                v.push("equal_picture_interval");
            }
            if t.decoder_model.is_some() {
                v.push("decoder_model_info");
            }
        } else if !self.reduced {
            v.push("no_timing_info");
        }
        if self.init_display_delay_present {
            v.push("initial_display_delay");
        }
        if self.ops.len() > 1 {
            v.push("multi_operating_point");
        }
        if self.ops.iter().any(|o| o.level > 7) {
            v.push("tier_bit");
        }
        if self.frame_id.is_some() {
            v.push("frame_id_numbers");
        }
        if self.order_hint.is_some() {
            v.push("order_hint");
        }
        if self.sct != 0 {
            v.push("force_screen_content");
        }
        if self.color.mono {
            v.push("mono_chrome");
        }
        if self.color.desc.is_some() {
            v.push("color_description");
        }
        if self.color.desc == Some((1, 13, 0)) && !self.color.mono {
            v.push("srgb");
        }
        if self.color.twelve_bit {
            v.push("twelve_bit");
        }
        if self.profile == 2 && self.color.twelve_bit && !self.color.mono {
            v.push("explicit_subsampling");
        }
        if self.color.high_bitdepth {
            v.push("high_bitdepth");
        }
        match self.profile {
            1 => v.push("profile1"),
            2 => v.push("profile2"),
            _ => {}
        }
        v
    }
}

pub fn leb128(mut v: u64, pad_to: usize) -> Vec<u8> {
    let mut out = Vec::new();
    loop {
        let b = (v & 0x7f) as u8;
        v >>= 7;
        if v == 0 && out.len() + 1 >= pad_to {
            out.push(b);
            break;
        }
        out.push(b | 0x80);
    }
    out
}

#[derive(Clone, Debug, Serialize, Deserialize, PartialEq, Eq, Hash)]
pub struct ObuGene {
    /// 1 seq header (uses the frame's header), 2 temporal delimiter, 3 frame header, 5 metadata, 6 frame, 15 padding
    pub typ: u8,
    pub ext: bool,
    pub ext_byte: u8,
    pub has_size: bool,
    pub leb_pad: u8, // 0..=3 extra leb128 bytes
    pub len: u16,
    pub fill: u8,
}

pub fn obu(typ: u8, ext: bool, ext_byte: u8, has_size: bool, leb_pad: u8, payload: &[u8]) -> Vec<u8> {
    let mut out = Vec::new();
    out.push((typ & 15) << 3 | (ext as u8) << 2 | (has_size as u8) << 1);
    if ext {
        out.push(ext_byte);
    }
    if has_size {
        let minimal = leb128(payload.len() as u64, 0).len();
        out.extend_from_slice(&leb128(payload.len() as u64, minimal + (leb_pad as usize).min(7 - minimal.min(7))));
    }
    out.extend_from_slice(payload);
    out
}

#[derive(Clone, Debug, Serialize, Deserialize, PartialEq, Eq, Hash)]
pub struct Av1Frame {
    pub obus: Vec<ObuGene>,
    pub seq: Option<Av1Seq>,
}

impl Av1Frame {
    /// Returns (temporal unit bytes, the sequence header OBU bytes if one was included).
    /// Only the last OBU may lack a size field (enforced here).
    pub fn build(&self, tag: u64) -> (Vec<u8>, Option<Vec<u8>>) {
        let mut out = Vec::new();
        let mut seq_obu = None;
        let n = self.obus.len();
        for (i, g) in self.obus.iter().enumerate() {
            let has_size = g.has_size || i + 1 != n;
            let payload = match (g.typ, &self.seq) {
                (1, Some(s)) => s.normalised().payload(),
                (2, _) => Vec::new(),
                (6, _) | (3, _) => {
                    // frame(-header) OBU: first bit show_existing_frame=0, frame_type 2 bits
                    let mut p = filler(g.len.max(1) as usize, tag.wrapping_add(i as u64), g.fill % 2);
                    p[0] &= 0x1f; // show_existing=0, frame_type=KEY(0)
                    p
                }
                _ => filler(g.len as usize, tag.wrapping_add(i as u64), g.fill % 4),
            };
            let typ = if g.typ == 1 && self.seq.is_none() { 5 } else { g.typ };
            let b = obu(typ, g.ext, g.ext_byte, has_size, g.leb_pad % 4, &payload);
            if typ == 1 && seq_obu.is_none() {
                seq_obu = Some(b.clone());
            }
            out.extend_from_slice(&b);
        }
        (out, seq_obu)
    }
}

// ---------------------------------------------------------------------------------
// VP9 (muxide's accepted keyframe form, see DESIGN appendix D)

#[derive(Clone, Debug, Serialize, Deserialize, PartialEq, Eq, Hash)]
pub struct Vp9Key {
    pub profile: u8,
    pub byte4: u8,
    pub sync: u8,
    pub width: u32,
    pub height: u32,
    /// bytes used to encode width / height (1..=5), padded var-uints allowed
    pub wlen: u8,
    pub hlen: u8,
    pub render: Option<(u8, u32, u32)>,
    pub color: Option<(u8, Option<u8>)>, // colour byte, range byte
    pub tail: u16,
}

pub fn var_uint(mut v: u32, min_len: u8) -> Vec<u8> {
    let mut out = Vec::new();
    loop {
        let b = (v & 0x7f) as u8;
        v >>= 7;
        if v == 0 && out.len() + 1 >= min_len as usize {
            out.push(b);
            break;
        }
        out.push(b | 0x80);
        if out.len() == 5 {
            // cannot continue beyond 5 bytes in the accepted form
            let l = out.len() - 1;
            out[l] &= 0x7f;
            break;
        }
    }
    out
}

#[derive(Clone, Debug, PartialEq, Eq)]
pub struct Vp9Expect {
    pub profile: u8,
    pub bit_depth: u8,
    pub color_space: u8,
    pub transfer: u8,
    pub matrix: u8,
    pub full_range: u8,
}

impl Vp9Key {
    pub fn build(&self, tag: u64) -> (Vec<u8>, Vp9Expect) {
        let profile = self.profile & 3;
        let mut out = vec![0x49, 0x83, 0x42, profile << 6 | (self.byte4 & 0x0f), self.byte4];
        if profile >= 2 {
            out.push(self.sync);
        }
        out.extend_from_slice(&var_uint(self.width, self.wlen.clamp(1, 5)));
        out.extend_from_slice(&var_uint(self.height, self.hlen.clamp(1, 5)));
        let mut exp = Vp9Expect { profile, bit_depth: 8, color_space: 0, transfer: 0, matrix: 0, full_range: 0 };
        // What follows is parsed as: [render marker if (b & 0x0C) != 0 and >= 2 bytes remain] then colour byte.
        // To keep the expected values unambiguous the colour byte, when not preceded by a render block,
        // must have (b & 0x0C) == 0 or be the last byte.
        let mut rest = Vec::new();
        if let Some((m, rw, rh)) = self.render {
            rest.push(m | 0x04);
            rest.extend_from_slice(&var_uint(rw, 1));
            rest.extend_from_slice(&var_uint(rh, 1));
        }
        if let Some((c, r)) = self.color {
            // after a render block the colour byte is read unconditionally; without one it must not look like a marker
            let mut c = c;
            let lone_last = self.render.is_none() && r.is_none() && self.tail == 0;
            if self.render.is_none() && !lone_last {
                c &= !0x0C;
            }
            if self.render.is_some() {
                // the byte after the render block is taken as colour byte as is
            }
            rest.push(c);
            exp.bit_depth = if c & 1 != 0 { 10 } else { 8 };
            exp.color_space = (c >> 1) & 7;
            exp.transfer = (c >> 4) & 7;
            exp.matrix = (c >> 7) & 1;
            if let Some(rb) = r {
                rest.push(rb);
                if exp.color_space != 0 {
                    exp.full_range = rb & 1;
                }
            } else if self.tail > 0 && exp.color_space != 0 {
                // next byte (first tail byte) is read as range byte
                let t = filler(self.tail as usize, tag, 0);
                exp.full_range = t[0] & 1;
            }
            rest.extend_from_slice(&filler(self.tail as usize, tag, 0));
        } else if self.render.is_none() {
            // no bytes after the dimensions => defaults
        } else {
            // render block but nothing after => defaults
        }
        out.extend_from_slice(&rest);
        if out.len() < 6 {
            // the accepted form needs >= 6 bytes: pad through a longer width encoding instead of trailing bytes
            let profile_extra = if profile >= 2 { 1 } else { 0 };
            let mut o2 = out[..5 + profile_extra].to_vec();
            o2.extend_from_slice(&var_uint(self.width, 2));
            o2.extend_from_slice(&var_uint(self.height, self.hlen.clamp(1, 5)));
            o2.extend_from_slice(&rest);
            out = o2;
        }
        (out, exp)
    }
}

/// Non-key VP9 frame in the accepted form (frame_type bit set).
pub fn vp9_delta(len: usize, tag: u64) -> Vec<u8> {
    let mut out = vec![0x49, 0x83, 0x42, 0x10];
    out.extend_from_slice(&filler(len.max(2), tag, 0));
    out
}

// ---------------------------------------------------------------------------------
// AAC ADTS / Opus

pub const AAC_RATES: [u32; 13] =
    [96000, 88200, 64000, 48000, 44100, 32000, 24000, 22050, 16000, 12000, 11025, 8000, 7350];

#[derive(Clone, Debug, Serialize, Deserialize, PartialEq, Eq, Hash)]
pub struct AdtsGene {
    pub protection_absent: bool,
    pub profile: u8,
    pub sfi: u8,
    pub chan: u8,
    pub payload_len: u16,
    pub extra: u8,
    pub fill: u8,
    /// corruption: 0 none, 1 bad sync, 2 layer != 0, 3 sfi 13..15, 4 declared length > buffer,
    /// 5 declared length < header, 6 truncated below 7 bytes, 7 mpeg-2 id bit, 8 channel config 0,
    /// 9 protected header but only 7..8 bytes
    pub corrupt: u8,
    /// "don't care" header fields: bit 0 private_bit, 1 original/copy, 2 home, 3 copyright_id, 4 copyright_start,
    /// bits 5..16 adts_buffer_fullness (11 bits); number_of_raw_data_blocks_in_frame = (misc >> 5) & 3 ... see build()
    #[serde(default)]
    pub misc: u16,
}

impl AdtsGene {
    /// (frame bytes, expected stored payload when the frame is structurally valid)
    pub fn build(&self, tag: u64) -> (Vec<u8>, Option<Vec<u8>>) {
        let hdr = if self.protection_absent { 7usize } else { 9 };
        let payload = filler(self.payload_len as usize, tag, self.fill % 2);
        let mut flen = hdr + payload.len();
        let mut sfi = self.sfi % 13;
        let mut chan = (self.chan % 7) + 1;
        let mut id = 0u8;
        let mut layer = 0u8;
        let mut sync_ok = true;
        let mut valid = true;
        match self.corrupt {
            1 => {
                sync_ok = false;
                valid = false;
            }
            2 => {
                layer = 1 + (self.fill % 3);
                valid = false;
            }
            3 => {
                sfi = 13 + (self.fill % 3);
                valid = false;
            }
            7 => {
                id = 1;
                valid = false;
            }
            8 => {
                chan = 0;
                valid = false;
            }
            _ => {}
        }
        if flen > 8191 {
            flen = 8191;
        }
        let mut declared = flen;
        if self.corrupt == 4 {
            declared = (flen + 1 + self.extra as usize).min(8191);
            if declared > flen + self.extra as usize {
                valid = false;
            } else {
                // could not exceed the buffer; make it so by dropping `extra`
                valid = false;
            }
        }
        if self.corrupt == 5 {
            declared = (self.fill as usize) % hdr;
            valid = false;
        }
        let mut f = vec![0u8; hdr];
        f[0] = if sync_ok { 0xff } else { 0xfe };
        f[1] = 0xf0 | (id << 3) | (layer << 1) | (self.protection_absent as u8);
        let m = self.misc;
        let fullness: u16 = if m == 0 { 0x7ff } else { (m >> 5) & 0x7ff };
        let blocks: u8 = if m == 0 { 0 } else { (m & 3) as u8 ^ ((m >> 14) as u8 & 3) };
        f[2] = ((self.profile & 3) << 6) | (sfi << 2) | (((m & 1) as u8) << 1) | (chan >> 2);
        f[3] = ((chan & 3) << 6) | ((((m >> 1) & 0xf) as u8) << 2) | ((declared >> 11) as u8 & 3);
        f[4] = (declared >> 3) as u8;
        f[5] = (((declared & 7) as u8) << 5) | ((fullness >> 6) as u8 & 0x1f);
        f[6] = (((fullness & 0x3f) as u8) << 2) | (blocks & 3);
        if !self.protection_absent {
            f[7] = 0xab;
            f[8] = 0xcd;
        }
        let body_len = flen - hdr;
        f.extend_from_slice(&payload[..body_len]);
        if self.corrupt != 4 {
            f.extend_from_slice(&filler(self.extra as usize, tag ^ 0x55, 0));
        }
        if self.corrupt == 6 {
            f.truncate((self.fill % 7) as usize);
            valid = false;
        }
        if self.corrupt == 9 && !self.protection_absent {
            f.truncate(7 + (self.fill % 2) as usize);
            valid = false;
        }
        let exp = if valid { Some(payload[..body_len].to_vec()) } else { None };
        (f, exp)
    }
}

#[derive(Clone, Debug, Serialize, Deserialize, PartialEq, Eq, Hash)]
pub struct OpusGene {
    pub config: u8,
    pub stereo: bool,
    pub code: u8,
    pub count_byte: u8,
    pub len: u16,
    /// 0 none, 1 empty packet, 2 code 3 without count byte, 3 code 3 with count 0
    pub corrupt: u8,
}

impl OpusGene {
    /// (packet, structurally valid as far as RFC 6716 section 3 framing of the TOC/count goes)
    pub fn build(&self, tag: u64) -> (Vec<u8>, bool) {
        let code = self.code & 3;
        let toc = (self.config & 31) << 3 | (self.stereo as u8) << 2 | code;
        match self.corrupt {
            1 => return (vec![], false),
            2 => return (vec![toc | 3], false),
            3 => {
                let mut p = vec![toc | 3, self.count_byte & 0xc0];
                p.extend_from_slice(&filler(self.len as usize, tag, 0));
                return (p, false);
            }
            _ => {}
        }
        let mut p = vec![toc];
        if code == 3 {
            let mut cb = self.count_byte;
            if cb & 0x3f == 0 {
                cb |= 1;
            }
            p.push(cb);
        }
        p.extend_from_slice(&filler(self.len as usize, tag, 0));
        (p, true)
    }
}

/// Is the packet in the grey zone where RFC 6716 says invalid but the library documents acceptance only
/// "as far as TOC/count can be parsed" (count > 48, > 120 ms total)?
pub fn opus_grey(packet: &[u8]) -> bool {
    if packet.is_empty() {
        return false;
    }
    let code = packet[0] & 3;
    if code != 3 || packet.len() < 2 {
        return false;
    }
    let count = (packet[1] & 0x3f) as u32;
    let config = packet[0] >> 3;
    let per = match config {
        0..=3 | 16..=19 => 480,
        4..=7 | 20..=23 => 960,
        8..=11 => 1920,
        12..=15 => 2880,
        24..=27 => 120,
        _ => 240,
    };
    count > 48 || count * per > 5760
}
