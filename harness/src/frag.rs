//! Executor for the fragmented muxer.

use crate::exec::{guarded, vcodec};
use muxide::api::MuxerBuilder;
use muxide::codec::vp9::Vp9Config;
use muxide::fragmented::{FragmentConfig, FragmentedError, FragmentedMuxer};
use serde::{Deserialize, Serialize};

#[derive(Clone, Debug, Serialize, Deserialize, PartialEq, Eq, Hash)]
pub struct Vp9Lite {
    pub width: u32,
    pub height: u32,
    pub profile: u8,
    pub bit_depth: u8,
    pub color_space: u8,
    pub transfer_function: u8,
    pub matrix_coefficients: u8,
    pub level: u8,
    pub full_range_flag: u8,
}

impl Vp9Lite {
    pub fn to_cfg(&self) -> Vp9Config {
        Vp9Config {
            width: self.width,
            height: self.height,
            profile: self.profile,
            bit_depth: self.bit_depth,
            color_space: self.color_space,
            transfer_function: self.transfer_function,
            matrix_coefficients: self.matrix_coefficients,
            level: self.level,
            full_range_flag: self.full_range_flag,
        }
    }
}

#[derive(Clone, Debug, PartialEq)]
pub struct FCfg {
    pub codec: u8,
    pub width: u32,
    pub height: u32,
    pub sps: Vec<u8>,
    pub pps: Vec<u8>,
    pub vps: Vec<u8>,
    pub av1: Vec<u8>,
    pub vp9: Vp9Lite,
    /// through MuxerBuilder::new_with_fragment (timescale 90000, 2000 ms) or directly from FragmentConfig
    pub via_builder: bool,
    pub timescale: u32,
    pub frag_ms: u32,
    /// builder path only: also call setters that belong to OTHER codecs (bit 0: with_vps, 1: with_av1_sequence_header,
    /// 2: with_vp9_config, 3: with_sps + with_pps); the configured codec must still decide the sample entry
    pub stray: u8,
}

#[derive(Clone, Debug)]
pub enum FOp {
    Write { pts: u64, dts: u64, data: Vec<u8>, sync: bool },
    Flush,
    Ready,
    DurMs,
    Init,
}

#[derive(Clone, Debug, PartialEq)]
pub enum FRes {
    WriteOk,
    WriteErr { prev: u64, curr: u64, display: String },
    Flush(Option<Vec<u8>>),
    Ready(bool),
    DurMs(u64),
    Init(Vec<u8>),
    Panic(String),
    Skipped,
}

pub fn build_frag(c: &FCfg) -> Result<Result<FragmentedMuxer, String>, String> {
    guarded(|| {
        if c.via_builder {
            let codec = c.codec % 4;
            // order of the builder calls (stray bits 4..5): 0 video() then the parameter sets; 1 parameter sets first; 2 a decoy
            // video() for another codec, the parameter sets, then the real video(); 3 old parameter sets, decoy video(), the
            // real parameter sets, the real video().  Every setter stores what it is given; the last value of each must win.
            let order = (c.stray >> 4) % 4;
            let sets = |mut b: MuxerBuilder<Vec<u8>>, old: bool| -> MuxerBuilder<Vec<u8>> {
                let tw = |v: &Vec<u8>| -> Vec<u8> {
                    if old {
                        let mut x = v.clone();
                        x.push(0x99);
                        x.reverse();
                        x
                    } else {
                        v.clone()
                    }
                };
                match codec {
                    0 => b = b.with_sps(tw(&c.sps)).with_pps(tw(&c.pps)),
                    1 => b = b.with_vps(tw(&c.vps)).with_sps(tw(&c.sps)).with_pps(tw(&c.pps)),
                    2 => b = b.with_av1_sequence_header(if old { obu_other() } else { c.av1.clone() }),
                    _ => {
                        let mut v = c.vp9.clone();
                        if old {
                            v.profile = (v.profile + 1) % 4;
                            v.level = v.level.wrapping_add(7);
                        }
                        b = b.with_vp9_config(v.to_cfg())
                    }
                }
                b
            };
            let mut b = MuxerBuilder::new(Vec::<u8>::new());
            let decoy = vcodec((c.codec + 1 + (c.stray & 1)) % 4);
            match order {
                0 => {
                    b = b.video(vcodec(c.codec), c.width, c.height, 30.0);
                    b = sets(b, false);
                }
                1 => {
                    b = sets(b, false);
                    b = b.video(vcodec(c.codec), c.width, c.height, 30.0);
                }
                2 => {
                    b = b.video(decoy, c.width + 2, c.height + 2, 25.0);
                    b = sets(b, false);
                    b = b.video(vcodec(c.codec), c.width, c.height, 30.0);
                }
                _ => {
                    b = sets(b, true);
                    b = b.video(decoy, c.width + 2, c.height + 2, 25.0);
                    b = sets(b, false);
                    b = b.video(vcodec(c.codec), c.width, c.height, 30.0);
                }
            }
            if c.stray & 1 != 0 && codec != 1 {
                b = b.with_vps(vec![0x40, 0x01, 0x0c, 0x01]);
            }
            if c.stray & 2 != 0 && codec != 2 {
                b = b.with_av1_sequence_header(c.av1.clone());
            }
            if c.stray & 4 != 0 && codec != 3 {
                b = b.with_vp9_config(c.vp9.to_cfg());
            }
            if c.stray & 8 != 0 && codec >= 2 {
                b = b.with_sps(vec![0x67, 0x42, 0x00, 0x1e]).with_pps(vec![0x68, 0xce]);
            }
            b.new_with_fragment().map_err(|e| format!("{}", e))
        } else {
            let cfg = FragmentConfig {
                width: c.width,
                height: c.height,
                timescale: c.timescale,
                fragment_duration_ms: c.frag_ms,
                sps: if c.codec % 4 <= 1 { c.sps.clone() } else { vec![] },
                pps: if c.codec % 4 <= 1 { c.pps.clone() } else { vec![] },
                vps: if c.codec % 4 == 1 { Some(c.vps.clone()) } else { None },
                av1_sequence_header: if c.codec % 4 == 2 { Some(c.av1.clone()) } else { None },
                vp9_config: if c.codec % 4 == 3 { Some(c.vp9.to_cfg()) } else { None },
            };
            Ok(FragmentedMuxer::new(cfg))
        }
    })
}

/// another (valid) AV1 sequence header OBU, used as the "old" value in the builder-order variants
fn obu_other() -> Vec<u8> {
    let mut s = crate::gen::Av1Seq::simple();
    s.w_m1 ^= 3;
    crate::gen::obu(1, false, 0, true, 0, &s.payload())
}

pub struct FRun {
    pub built: bool,
    pub build_err: Option<String>,
    pub results: Vec<FRes>,
    pub panic: Option<String>,
}

fn frag_step(m: &mut FragmentedMuxer, op: &FOp) -> FRes {
    match op {
        FOp::Write { pts, dts, data, sync } => match guarded(|| m.write_video(*pts, *dts, data, *sync)) {
            Ok(Ok(())) => FRes::WriteOk,
            Ok(Err(e)) => {
                let display = guarded(|| {
                    let _ = format!("{:>4.3}|{:<80}|{:*^7}|{:#?}", e, e, e, e);
                    format!("{} / {:?}", e, e)
                }).unwrap_or_else(|p| format!("<fmt panicked {}>", p));
                // tolerant of error variants added later (the harness must keep compiling against a changed tree)
                #[allow(unreachable_patterns)]
                match e {
                    FragmentedError::NonMonotonicDts { prev_dts, curr_dts } => FRes::WriteErr { prev: prev_dts, curr: curr_dts, display },
                    _ => FRes::WriteErr { prev: u64::MAX, curr: u64::MAX, display },
                }
            }
            Err(p) => FRes::Panic(p),
        },
        FOp::Flush => match guarded(|| m.flush_segment()) {
            Ok(s) => FRes::Flush(s),
            Err(p) => FRes::Panic(p),
        },
        FOp::Ready => match guarded(|| m.ready_to_flush()) {
            Ok(b) => FRes::Ready(b),
            Err(p) => FRes::Panic(p),
        },
        FOp::DurMs => match guarded(|| m.current_fragment_duration_ms()) {
            Ok(b) => FRes::DurMs(b),
            Err(p) => FRes::Panic(p),
        },
        FOp::Init => match guarded(|| m.init_segment()) {
            Ok(b) => FRes::Init(b),
            Err(p) => FRes::Panic(p),
        },
    }
}

pub fn run_frag(c: &FCfg, ops: &[FOp]) -> FRun {
    run_frag_lockstep(&[(c, ops)], &[]).pop().unwrap()
}

/// Built and fed the first `cut` calls on this thread, then moved to a new thread for the rest (FragmentedMuxer is Send).
pub fn run_frag_moved(c: &FCfg, ops: &[FOp], cut: usize) -> FRun {
    let mut m = match build_frag(c) {
        Ok(Ok(m)) => m,
        Ok(Err(e)) => return FRun { built: false, build_err: Some(e), results: ops.iter().map(|_| FRes::Skipped).collect(), panic: None },
        Err(p) => return FRun { built: false, build_err: None, results: ops.iter().map(|_| FRes::Skipped).collect(), panic: Some(p) },
    };
    let cut = cut.min(ops.len());
    let mut results = Vec::with_capacity(ops.len());
    let mut panic = None;
    for op in &ops[..cut] {
        if panic.is_some() {
            results.push(FRes::Skipped);
            continue;
        }
        let r = frag_step(&mut m, op);
        if let FRes::Panic(p) = &r {
            panic = Some(p.clone());
        }
        results.push(r);
    }
    let rest: Vec<FOp> = ops[cut..].to_vec();
    let (mut tail, panic) = std::thread::spawn(move || {
        let mut out = Vec::new();
        let mut panic = panic;
        for op in &rest {
            if panic.is_some() {
                out.push(FRes::Skipped);
                continue;
            }
            let r = frag_step(&mut m, op);
            if let FRes::Panic(p) = &r {
                panic = Some(p.clone());
            }
            out.push(r);
        }
        drop(m);
        (out, panic)
    })
    .join()
    .expect("worker thread of run_frag_moved");
    results.append(&mut tail);
    FRun { built: true, build_err: None, results, panic }
}

/// Several fragmented muxers alive at once on one thread, taking turns one call at a time in the order given by `schedule`
/// (indices into `runs`; exhausted histories are skipped; what is left afterwards runs history by history).
pub fn run_frag_lockstep(runs: &[(&FCfg, &[FOp])], schedule: &[u8]) -> Vec<FRun> {
    let mut out: Vec<FRun> = Vec::new();
    let mut muxers: Vec<Option<FragmentedMuxer>> = Vec::new();
    for (c, ops) in runs {
        match build_frag(c) {
            Ok(Ok(m)) => {
                muxers.push(Some(m));
                out.push(FRun { built: true, build_err: None, results: Vec::with_capacity(ops.len()), panic: None });
            }
            Ok(Err(e)) => {
                muxers.push(None);
                out.push(FRun { built: false, build_err: Some(e), results: ops.iter().map(|_| FRes::Skipped).collect(), panic: None });
            }
            Err(p) => {
                muxers.push(None);
                out.push(FRun { built: false, build_err: None, results: ops.iter().map(|_| FRes::Skipped).collect(), panic: Some(p) });
            }
        }
    }
    let n = runs.len().max(1);
    let mut order: Vec<usize> = schedule.iter().map(|k| *k as usize % n).collect();
    for (k, (_, ops)) in runs.iter().enumerate() {
        order.extend(std::iter::repeat(k).take(ops.len()));
    }
    // the muxer values change places in memory now and then (moved between calls like any other value)
    let mut slot: Vec<usize> = (0..runs.len()).collect();
    for (step, k) in order.into_iter().enumerate() {
        let ops = runs[k].1;
        let i = out[k].results.len();
        if i >= ops.len() || !out[k].built {
            continue;
        }
        if out[k].panic.is_some() {
            out[k].results.push(FRes::Skipped);
            continue;
        }
        if step % 5 == 3 && runs.len() >= 2 {
            let other = (k + 1 + step / 5) % runs.len();
            if other != k {
                muxers.swap(slot[k], slot[other]);
                slot.swap(k, other);
            }
        }
        let r = frag_step(muxers[slot[k]].as_mut().unwrap(), &ops[i]);
        if let FRes::Panic(p) = &r {
            out[k].panic = Some(p.clone());
        }
        out[k].results.push(r);
    }
    out
}
