//! Generated op sequences for the fragmented muxer, the queue model and the per-step oracle shared by C02/C10/C11.

use crate::engine::Outcome;
use crate::frag::*;
use crate::gen::{filler, obu, Av1Seq};
use crate::mp4check::hex;
use crate::reader::{parse_movie, parse_segment, Segment};
use proptest::collection::vec;
use proptest::prelude::*;
use serde::{Deserialize, Serialize};

#[derive(Clone, Debug, Serialize, Deserialize, PartialEq, Eq, Hash)]
pub enum FGene {
    /// dts advances by `ddts` (>= 0); when `back` is Some(b) the submitted dts is (current - b) instead
    Write { ddts: u32, cts: i64, size: u32, sync: bool, back: Option<u32> },
    Flush,
    Ready,
    DurMs,
    Init,
}

#[derive(Clone, Debug, Serialize, Deserialize, PartialEq, Eq, Hash)]
pub struct FragCase {
    pub codec: u8,
    pub via_builder: bool,
    pub start: u64,
    pub width: u16,
    pub height: u16,
    pub pset_len: (u16, u16, u16),
    pub ops: Vec<FGene>,
    pub const_interval: Option<u32>,
    /// true: sample payloads are framed the way a real caller's are (length-prefixed NAL units with in-band parameter sets
    /// on sync samples for H.264/H.265, OBU sequences for AV1, a keyframe header for VP9); false: opaque tagged bytes
    #[serde(default)]
    pub realistic: bool,
}

/// A sample payload in the codec's MP4 framing (the fragmented muxer stores whatever it is given, unchanged).
pub fn realistic_payload(codec: u8, size: usize, sync: bool, tag: u64) -> Vec<u8> {
    realistic_payload_with(codec, size, sync, tag, None)
}

/// `inband`: the (vps, sps, pps) NAL units to carry in front of a sync sample's slice instead of the built-in ones
/// (e.g. exactly the configured parameter sets, as every encoder that repeats its headers on IDR frames does)
pub fn realistic_payload_with(codec: u8, size: usize, sync: bool, tag: u64, inband: Option<(&[u8], &[u8], &[u8])>) -> Vec<u8> {
    let body = filler(size.max(1), tag, 0);
    let mut out = Vec::new();
    let mut nal = |hdr: &[u8], payload: &[u8]| {
        out.extend_from_slice(&((hdr.len() + payload.len()) as u32).to_be_bytes());
        out.extend_from_slice(hdr);
        out.extend_from_slice(payload);
    };
    // a packet that holds nothing but parameter sets (the "codec config" buffer some hardware encoders emit as a sample of
    // its own): a sample like any other for a muxer that stores what it is given
    if codec % 4 <= 1 && size % 16 == 9 {
        if codec % 4 == 1 {
            nal(&[0x40, 0x01], &[0x0c, 0x01, 0xff, 0xff, 0x01, 0x60]);
        }
        if codec % 4 == 0 {
            nal(&[0x67], &[0x42, 0x00, 0x1e, 0x8d, 0x68, 0x50, (tag & 0x7f) as u8 | 0x10]);
            nal(&[0x68], &[0xce, 0x3c, 0x80]);
        } else {
            nal(&[0x42, 0x01], &[0x01, 0x01, 0x60, 0x10, 0x10, 0x90, 0x11, (tag & 0x7f) as u8 | 0x10]);
            nal(&[0x44, 0x01], &[0xc1, 0x72, 0xb4]);
        }
        let _ = body;
        return out;
    }
    // an Annex B framed buffer (start codes, 3- and 4-byte) handed to the fragmented muxer: it stores what it is given
    if codec % 4 <= 1 && size % 16 == 10 {
        let mut raw = Vec::new();
        raw.extend_from_slice(&[0, 0, 1]);
        raw.extend_from_slice(if codec % 4 == 0 { &[0x09, 0xf0][..] } else { &[0x46, 0x01, 0x50][..] });
        raw.extend_from_slice(&[0, 0, 0, 1]);
        if codec % 4 == 0 {
            raw.push(if sync { 0x65 } else { 0x41 });
        } else {
            raw.extend_from_slice(&[if sync { 0x26 } else { 0x02 }, 0x01]);
        }
        raw.extend(body.iter().map(|b| b | 0x10));
        return raw;
    }
    // nothing but an end-of-sequence / end-of-stream marker (what a drained hardware encoder delivers last)
    if codec % 4 <= 1 && size % 16 == 11 {
        if codec % 4 == 0 {
            nal(&[if tag & 1 == 0 { 0x0a } else { 0x0b }], &[]);
        } else {
            nal(&[if tag & 1 == 0 { 0x48 } else { 0x4a }, 0x01], &[]);
        }
        return out;
    }
    // VP9: the frame header says key frame / inter frame independently of the sync flag the caller passes
    // (two header spellings: the uncompressed header of the VP9 specification, and the form muxide's own VP9 helpers read -
    // sync code first, then a byte with profile / show_existing_frame / frame_type)
    if codec % 4 == 3 && size % 8 == 5 {
        if (tag >> 20) & 1 == 0 {
            if !sync {
                out.extend_from_slice(&[0x82, 0x49, 0x83, 0x42, 0x00, 0x27, 0xf0, 0x1d, 0xf6]);
            } else {
                out.push(0x86);
            }
        } else {
            // key frame header on a sample submitted as non-sync; inter frame / show_existing_frame on one submitted as sync
            let byte3 = if !sync { 0x00 } else if (tag >> 21) & 1 == 0 { 0x10 } else { 0x20 };
            out.extend_from_slice(&[0x49, 0x83, 0x42, byte3 | ((tag >> 16) as u8 & 0xc0), 0x27, 0xf0]);
        }
        out.extend_from_slice(&body);
        return out;
    }
    if codec % 4 == 3 && size % 8 == 6 {
        // muxide's spelling with the frame type agreeing with the sync flag
        out.extend_from_slice(&[0x49, 0x83, 0x42, if sync { 0x00 } else { 0x10 }, 0x27, 0xf0]);
        out.extend_from_slice(&body);
        return out;
    }
    match codec % 4 {
        0 => {
            if sync {
                match inband {
                    Some((_, sps, pps)) if !sps.is_empty() && !pps.is_empty() => {
                        nal(&[], sps);
                        nal(&[], pps);
                    }
                    _ => {
                        nal(&[0x67], &[0x42, 0x00, 0x1e, 0x8d, 0x68, 0x50, (tag & 0x7f) as u8 | 0x10]);
                        nal(&[0x68], &[0xce, 0x3c, 0x80]);
                    }
                }
                nal(&[0x65], &body);
            } else {
                nal(&[0x41], &body);
            }
        }
        1 => {
            if sync {
                match inband {
                    Some((vps, sps, pps)) if !vps.is_empty() && !sps.is_empty() && !pps.is_empty() => {
                        nal(&[], vps);
                        nal(&[], sps);
                        nal(&[], pps);
                    }
                    _ => {
                        nal(&[0x40, 0x01], &[0x0c, 0x01, 0xff, 0xff, 0x01, 0x60]);
                        nal(&[0x42, 0x01], &[0x01, 0x01, 0x60, 0x10, 0x10, 0x90, 0x11, (tag & 0x7f) as u8 | 0x10]);
                        nal(&[0x44, 0x01], &[0xc1, 0x72, 0xb4]);
                    }
                }
                nal(&[0x26, 0x01], &body);
            } else {
                nal(&[0x02, 0x01], &body);
            }
        }
        2 => {
            if sync {
                out.extend_from_slice(&obu(1, false, 0, true, 0, &Av1Seq::simple().payload()));
            }
            let mut b = body;
            b[0] &= 0x1f;
            out.extend_from_slice(&obu(6, false, 0, true, 0, &b));
        }
        _ => {
            if sync {
                out.extend_from_slice(&[0x82, 0x49, 0x83, 0x42, 0x00, 0x27, 0xf0, 0x1d, 0xf6]);
            } else {
                out.push(0x86);
            }
            out.extend_from_slice(&body);
        }
    }
    out
}

pub fn fcfg(c: &FragCase) -> FCfg {
    let seq = Av1Seq::simple();
    FCfg {
        codec: c.codec % 4,
        width: c.width.max(1) as u32,
        height: c.height.max(1) as u32,
        // one configuration in seven is the library's own example parameter sets (default_avc_config)
        sps: if c.codec % 4 == 0 && c.pset_len.0 % 7 == 3 {
            muxide::codec::h264::default_avc_config().sps
        } else if c.codec % 4 == 0 && c.pset_len.0 % 7 == 5 {
            // real-world SPS openings: constrained baseline (42 e0 1f / 42 c0 1e), main, high, high 10, high 4:2:2, high 4:4:4
            const REAL: [&[u8]; 8] = [
                &[0x67, 0x42, 0xe0, 0x1f, 0xda, 0x01, 0x40, 0x16, 0xe8, 0x40],
                &[0x67, 0x42, 0xc0, 0x1e, 0xd9, 0x00, 0xa0, 0x47, 0xfe, 0x88],
                &[0x67, 0x4d, 0x40, 0x1f, 0xec, 0xa0, 0x28, 0x02, 0xdd, 0x80],
                &[0x67, 0x64, 0x00, 0x28, 0xac, 0xd9, 0x40, 0x78, 0x02, 0x27],
                &[0x67, 0x6e, 0x00, 0x28, 0xac, 0xd9, 0x40, 0x78, 0x02, 0x27],
                &[0x67, 0x7a, 0x00, 0x1f, 0xac, 0xd9, 0x40, 0x50, 0x05, 0xbb],
                &[0x67, 0xf4, 0x00, 0x1f, 0x91, 0x9b, 0x28, 0x0a, 0x00, 0xb7],
                &[0x67, 0x2c, 0x00, 0x1f, 0x91, 0x9b, 0x28, 0x0a, 0x00, 0xb7],
            ];
            REAL[(c.pset_len.0 as usize / 7) % REAL.len()].to_vec()
        } else {
            filler(c.pset_len.0 as usize, 0x51, 3)
        },
        pps: if c.codec % 4 == 0 && c.pset_len.0 % 7 == 3 { muxide::codec::h264::default_avc_config().pps } else { filler(c.pset_len.1 as usize, 0x52, 3) },
        vps: filler(c.pset_len.2 as usize, 0x53, 3),
        // a third of the AV1 configurations hand over what an encoder's first temporal unit starts with: a temporal delimiter
        // in front of the sequence header (the record's configOBUs still have to start with the sequence header)
        av1: if c.width % 3 == 1 { [obu(2, false, 0, true, 0, &[]), obu(1, false, 0, true, 0, &seq.payload())].concat() } else { obu(1, false, 0, true, 0, &seq.payload()) },
        vp9: Vp9Lite {
            width: 640,
            height: 480,
            profile: 0,
            bit_depth: 8,
            color_space: 1,
            transfer_function: 1,
            matrix_coefficients: 1,
            level: 0,
            full_range_flag: 0,
        },
        via_builder: c.via_builder,
        timescale: 90000,
        frag_ms: 2000,
        // builder call order (see frag::build_frag): exercised by every fragmented check
        stray: if c.via_builder { ((c.width % 4) as u8) << 4 } else { 0 },
    }
}

#[derive(Clone, Debug)]
pub struct QSample {
    pub pts: u64,
    pub dts: u64,
    pub data: Vec<u8>,
    pub sync: bool,
}

pub struct LoweredFrag {
    pub cfg: FCfg,
    pub ops: Vec<FOp>,
}

pub fn lower(c: &FragCase) -> LoweredFrag {
    let cfg0 = fcfg(c);
    let mut ops = Vec::new();
    let mut cur = c.start;
    let mut n = 0u64;
    for g in &c.ops {
        match g {
            FGene::Write { ddts, cts, size, sync, back } => {
                let d = c.const_interval.unwrap_or(*ddts) as u64;
                if n > 0 {
                    cur += d;
                }
                let dts = match back {
                    Some(b) if c.const_interval.is_none() => cur.saturating_sub(*b as u64),
                    _ => cur,
                };
                let pts = if *cts >= 0 { dts + *cts as u64 } else { dts.saturating_sub((-*cts) as u64) };
                let tag = (3u64 << 60) | (n << 20) | *size as u64;
                let data = if c.realistic {
                    // a third of the realistic cases repeat exactly the configured parameter sets in-band on sync samples
                    let inband = if c.pset_len.1 % 3 == 0 { Some((&cfg0.vps[..], &cfg0.sps[..], &cfg0.pps[..])) } else { None };
                    realistic_payload_with(c.codec, *size as usize, *sync, tag, inband)
                } else {
                    filler(*size as usize, tag, 0)
                };
                ops.push(FOp::Write { pts, dts, data, sync: *sync });
                n += 1;
            }
            FGene::Flush => ops.push(FOp::Flush),
            FGene::Ready => ops.push(FOp::Ready),
            FGene::DurMs => ops.push(FOp::DurMs),
            FGene::Init => ops.push(FOp::Init),
        }
    }
    LoweredFrag { cfg: cfg0, ops }
}

/// One emitted segment together with what the model says it must contain.
pub struct Emitted {
    pub bytes: Vec<u8>,
    pub parsed: Result<Segment, String>,
    pub expect: Vec<QSample>,
    pub expect_seq: u32,
}

pub struct FragTrace {
    pub emitted: Vec<Emitted>,
    pub inits: Vec<Vec<u8>>,
    pub rejected_writes: usize,
    pub accepted_writes: usize,
    pub empty_flushes: usize,
    pub queries: usize,
    pub panic: Option<String>,
}

/// Runs the ops, checks the C10 clauses step by step against the queue model, returns the trace for C11/C02.
pub fn run_and_check(o: &mut Outcome, l: &LoweredFrag, check_c10: bool) -> FragTrace {
    let run = run_frag(&l.cfg, &l.ops);
    check_run(o, l, check_c10, run)
}

/// The same judgement for a run obtained elsewhere (e.g. one of several muxers driven alternately).
pub fn check_run(o: &mut Outcome, l: &LoweredFrag, check_c10: bool, run: crate::frag::FRun) -> FragTrace {
    let mut t = FragTrace { emitted: vec![], inits: vec![], rejected_writes: 0, accepted_writes: 0, empty_flushes: 0, queries: 0, panic: run.panic.clone() };
    if !run.built {
        return t;
    }
    let mut queue: Vec<QSample> = Vec::new();
    let mut next_seq = 1u32;
    let mut last_dts: Option<u64> = None;
    for (i, (op, res)) in l.ops.iter().zip(run.results.iter()).enumerate() {
        match (op, res) {
            (_, FRes::Panic(_)) | (_, FRes::Skipped) => break,
            (FOp::Write { pts, dts, data, sync }, r) => {
                let must_ok = last_dts.map(|l| *dts >= l).unwrap_or(true);
                let ok = matches!(r, FRes::WriteOk);
                if check_c10 && ok != must_ok {
                    o.fail(
                        "write",
                        format!("write.accepted={}.expected={}", ok, must_ok),
                        format!("op {}: write with dts {} after last accepted dts {:?} returned {:?}", i, dts, last_dts, r),
                    );
                }
                if let (true, FRes::WriteErr { prev, curr, .. }) = (check_c10, r) {
                    if Some(*prev) != last_dts || curr != dts {
                        o.fail("write", "write.error_fields", format!("op {}: error reports prev={} curr={} but last accepted {:?}, submitted {}", i, prev, curr, last_dts, dts));
                    }
                }
                if ok {
                    queue.push(QSample { pts: *pts, dts: *dts, data: data.clone(), sync: *sync });
                    last_dts = Some(*dts);
                    t.accepted_writes += 1;
                } else {
                    t.rejected_writes += 1;
                }
            }
            (FOp::Flush, FRes::Flush(seg)) => match seg {
                None => {
                    t.empty_flushes += 1;
                    if check_c10 && !queue.is_empty() {
                        o.fail("flush_none", "flush_none.lost_samples", format!("op {}: flush returned None with {} samples queued", i, queue.len()));
                        queue.clear();
                    }
                }
                Some(bytes) => {
                    let expect = std::mem::take(&mut queue);
                    if check_c10 && expect.is_empty() {
                        o.fail("flush_none", "flush_none.segment_from_empty_queue", format!("op {}: flush produced a segment although nothing was queued", i));
                    }
                    let parsed = parse_segment(bytes, None);
                    if check_c10 {
                        check_conserve(o, i, bytes, &parsed, &expect, next_seq);
                    }
                    t.emitted.push(Emitted { bytes: bytes.clone(), parsed, expect, expect_seq: next_seq });
                    next_seq += 1;
                }
            },
            (FOp::Ready, FRes::Ready(_)) | (FOp::DurMs, FRes::DurMs(_)) => {
                // the values of the queries are not part of the property; their purity is (differential in C10)
                t.queries += 1;
            }
            (FOp::Init, FRes::Init(b)) => {
                t.queries += 1;
                t.inits.push(b.clone());
            }
            _ => {}
        }
    }
    t
}

fn check_conserve(o: &mut Outcome, i: usize, bytes: &[u8], parsed: &Result<Segment, String>, expect: &[QSample], seq: u32) {
    let s = match parsed {
        Ok(s) => s,
        Err(e) => {
            o.fail("conserve", "conserve.unparseable_segment", format!("op {}: segment does not parse: {}", i, e));
            return;
        }
    };
    if s.seq != seq {
        o.fail("seq", format!("seq.delta={}", s.seq as i64 - seq as i64), format!("op {}: mfhd sequence_number {} but this is emitted segment #{}", i, s.seq, seq));
    }
    if s.samples.len() != expect.len() {
        o.fail(
            "conserve",
            "conserve.count",
            format!("op {}: trun describes {} samples, {} were queued", i, s.samples.len(), expect.len()),
        );
        return;
    }
    for (k, (fs, e)) in s.samples.iter().zip(expect.iter()).enumerate() {
        let lo = fs.offset;
        let hi = lo + fs.size as usize;
        if fs.size as usize != e.data.len() {
            o.fail("conserve", "conserve.size", format!("op {}: sample {} size {} but {} bytes were written", i, k, fs.size, e.data.len()));
            return;
        }
        if lo < s.mdat.0 || hi > s.mdat.1 || hi > bytes.len() {
            o.fail(
                "conserve",
                "conserve.data_offset_outside_mdat",
                format!("op {}: sample {} resolves to {}..{} outside the mdat payload {}..{} (data_offset {})", i, k, lo, hi, s.mdat.0, s.mdat.1, s.data_offset),
            );
            return;
        }
        if bytes[lo..hi] != e.data[..] {
            o.fail(
                "conserve",
                "conserve.bytes",
                format!("op {}: sample {} bytes {} differ from the written bytes {}", i, k, hex(&bytes[lo..hi], 20), hex(&e.data, 20)),
            );
            return;
        }
        let non_sync = fs.flags & 0x0001_0000 != 0;
        if non_sync == e.sync {
            o.fail("conserve", "conserve.sync_flag", format!("op {}: sample {} non-sync flag {} but written sync={}", i, k, non_sync, e.sync));
            return;
        }
    }
    let total: usize = expect.iter().map(|e| e.data.len()).sum();
    if s.mdat.1 - s.mdat.0 != total {
        o.fail("conserve", "conserve.mdat_size", format!("op {}: mdat payload {} bytes, samples sum to {}", i, s.mdat.1 - s.mdat.0, total));
    }
}

/// C02 clauses for fragmented streams.
pub fn check_structure(o: &mut Outcome, t: &FragTrace) {
    for init in &t.inits {
        match parse_movie(init) {
            Err(e) => {
                o.fail("init", format!("init.{}", crate::props::c02::sig_words(&e)), format!("init segment: {}", e));
                return;
            }
            Ok((tree, m)) => {
                if m.mdat.is_some() || tree.len() != 2 {
                    o.fail("init", "init.top_level", format!("init segment top-level boxes: {:?}", tree.iter().map(|n| n.name()).collect::<Vec<_>>()));
                }
                if m.tracks.len() != 1 {
                    o.fail("init", "init.tracks", format!("{} tracks in init segment", m.tracks.len()));
                    return;
                }
                let id = m.tracks[0].tkhd.track_id;
                if !m.mvex_trex.iter().any(|x| x.track_id == id) || m.mvex_trex.len() != 1 {
                    o.fail("init", "init.trex", format!("mvex/trex entries {:?} do not match track id {}", m.mvex_trex.iter().map(|x| x.track_id).collect::<Vec<_>>(), id));
                }
                if !m.tracks[0].samples.is_empty() {
                    o.fail("init", "init.samples", "init segment describes samples");
                }
            }
        }
    }
    for (k, e) in t.emitted.iter().enumerate() {
        match &e.parsed {
            Err(err) => {
                o.fail("segment", format!("segment.{}", crate::props::c02::sig_words(err)), format!("media segment {}: {}", k, err));
                return;
            }
            Ok(s) => {
                let total: u64 = s.samples.iter().map(|x| x.size as u64).sum();
                if (s.mdat.1 - s.mdat.0) as u64 != total {
                    o.fail("segment", "segment.mdat_vs_trun", format!("media segment {}: mdat payload {} bytes but trun sizes sum to {}", k, s.mdat.1 - s.mdat.0, total));
                }
            }
        }
    }
}

pub fn fgene_strategy() -> impl Strategy<Value = FGene> {
    prop_oneof![
        10 => (
            // decode steps: constant, zero, irregular, huge; and the 23.976 / 59.94 fps cadences whose steps differ by one tick
            prop_oneof![4 => Just(3000u32), 2 => Just(0u32), 3 => 0u32..20000, 1 => 0u32..400_000_000, 1 => (1u32 << 31) - 2..(1u32 << 31), 2 => Just(3754u32), 1 => Just(3753u32), 1 => Just(1501u32), 1 => Just(1502u32)],
            // composition offsets: none, ordinary reordering, up to +-2^30, and (rarely) beyond 32 bits: presentation and decode
            // clocks from different sources (acceptance depends on the decode time only)
            prop_oneof![30 => Just(0i64), 20 => 0i64..20000, 20 => -20000i64..0, 10 => any::<i32>().prop_map(|v| (v / 2) as i64), 1 => (1i64 << 31)..(1i64 << 34), 1 => -(1i64 << 34)..-(1i64 << 31), 2 => proptest::sample::select(vec![i32::MIN as i64, i32::MIN as i64 + 1, i32::MAX as i64, i32::MAX as i64 - 1, i32::MIN as i64 - 1, i32::MAX as i64 + 1, -(1i64 << 32), 1i64 << 32])],
            prop_oneof![2 => Just(0u32), 12 => 1u32..200, 4 => 200u32..2001, 1 => 60_000u32..70_000],
            any::<bool>(),
            proptest::option::weighted(0.15, prop_oneof![2 => Just(0u32), 3 => 1u32..5000, 1 => any::<u32>()]),
        )
            .prop_map(|(ddts, cts, size, sync, back)| FGene::Write { ddts, cts, size, sync, back }),
        4 => Just(FGene::Flush),
        1 => Just(FGene::Ready),
        1 => Just(FGene::DurMs),
        1 => Just(FGene::Init),
    ]
}

pub fn frag_case_strategy(max_ops: usize) -> impl Strategy<Value = FragCase> {
    (
        0u8..4,
        any::<bool>(),
        prop_oneof![
            4 => Just(0u64),
            4 => 0u64..10_000_000,
            2 => 0u64..(1u64 << 40),
            // the sequence straddles a multiple of 2^31 ticks (odd and even ones: 32-bit signed and unsigned views of a timestamp
            // change there), starting a few frames before it
            2 => (1u64..12, proptest::sample::select(vec![1u64, 1500, 3000, 4500, 9000, 30_000, 90_000])).prop_map(|(k, back)| (k << 31) - back),
            // dictionary: DTS values whose bytes spell a box type, at every byte alignment of the 64-bit field
            1 => (0usize..8, 0u32..5).prop_map(|(i, sh)| (u32::from_be_bytes(*[b"trun", b"mdat", b"moof", b"tfdt", b"traf", b"mfhd", b"tfhd", b"stco"][i]) as u64) << (8 * sh)),
        ],
        prop_oneof![3 => 16u16..4097, 1 => 1u16..=65535],
        prop_oneof![3 => 16u16..2161, 1 => 1u16..=65535],
        (
            // empty parameter sets are legal for a directly built FragmentConfig (a caller that only has in-band ones)
            prop_oneof![4 => 0u16..40, 1 => 0u16..=65535, 1 => Just(0u16)],
            prop_oneof![4 => 0u16..40, 1 => 0u16..=65535, 1 => Just(0u16)],
            prop_oneof![4 => 0u16..40, 1 => 0u16..=65535],
        ),
        prop_oneof![19 => vec(fgene_strategy(), 0..=max_ops), 1 => vec(fgene_strategy(), max_ops * 8..=max_ops * 16)],
        (proptest::option::weighted(0.3, prop_oneof![Just(3000u32), Just(3003u32), Just(1500u32), 1u32..100000]), any::<bool>()),
    )
        .prop_map(|(codec, via_builder, start, width, height, pset_len, ops, (const_interval, realistic))| FragCase {
            realistic,
            codec,
            via_builder,
            start,
            width,
            height,
            pset_len,
            ops,
            const_interval,
        })
        .prop_flat_map(|c| (Just(c), 0u8..12, 1u32..1400, any::<u16>()))
        .prop_map(|(mut c, sel, k, pick)| {
            // near-constant cadence: every interval is d except one early/late pair (d - k, d + k) whose errors cancel, so the
            // first interval, the last interval and the total all look like a constant-rate fragment
            let writes: Vec<usize> = c.ops.iter().enumerate().filter(|(_, g)| matches!(g, FGene::Write { .. })).map(|(i, _)| i).collect();
            if sel >= 3 || writes.len() < 5 {
                return c;
            }
            let d = [3000u32, 3003, 1500, 3754][(pick % 4) as usize];
            for &i in &writes {
                if let FGene::Write { ddts, back, .. } = &mut c.ops[i] {
                    *ddts = d;
                    *back = None;
                }
            }
            let n = writes.len();
            let j = 2 + ((pick as usize * (n - 4)) >> 16);
            if let FGene::Write { ddts, .. } = &mut c.ops[writes[j]] {
                *ddts = d - k;
            }
            if let FGene::Write { ddts, .. } = &mut c.ops[writes[j + 1]] {
                *ddts = d + k;
            }
            c.const_interval = None;
            if sel == 0 {
                // one single fragment
                c.ops.retain(|g| !matches!(g, FGene::Flush));
                c.ops.push(FGene::Flush);
            }
            c
        })
}


/// Fixed list of long / large sequences (counts beyond 255 / 4 096 / 65 535, samples beyond 1 MiB, hundreds of flushes).
pub fn long_cases() -> Vec<FragCase> {
    let w = |ddts: u32, size: u32, sync: bool| FGene::Write { ddts, cts: 0, size, sync, back: None };
    let base = |ops: Vec<FGene>, codec: u8| FragCase { codec, via_builder: codec % 2 == 0, start: 0, width: 640, height: 480, pset_len: (10, 4, 6), ops, const_interval: None, realistic: codec % 2 == 1 };
    let mut v = Vec::new();
    // one segment with 70 000 samples, one with 140 000 (moof beyond 1 and 2 MiB)
    let mut ops: Vec<FGene> = (0..70_000u32).map(|i| w(3000, 1 + (i % 5), i % 30 == 0)).collect();
    ops.push(FGene::Flush);
    v.push(base(ops, 0));
    let mut ops: Vec<FGene> = (0..140_000u32).map(|i| w(1500, 1 + (i % 3), i % 250 == 0)).collect();
    ops.push(FGene::Flush);
    ops.extend((0..3u32).map(|i| w(1500, 9, i == 0)));
    ops.push(FGene::Flush);
    v.push(base(ops, 1));
    // a fragment of more than 64 MiB (66 samples of 1 MiB) between ordinary ones
    let mut ops = vec![w(3000, 20, true), w(3000, 10, false), FGene::Flush];
    ops.extend((0..66u32).map(|i| w(3000, (1 << 20) + i, i == 0)));
    ops.push(FGene::Flush);
    for _ in 0..3 {
        ops.extend([w(3000, 33, true), w(3000, 12, false), FGene::Ready, FGene::Flush]);
    }
    v.push(base(ops, 2));
    // 400 segments of 2 samples, init requested now and then, queries in between
    let mut ops = Vec::new();
    for k in 0..400u32 {
        ops.push(w(3000, 7 + (k % 3), true));
        ops.push(w(1500 + (k % 7) * 100, 5, false));
        if k % 50 == 0 {
            ops.push(FGene::Init);
            ops.push(FGene::Ready);
        }
        ops.push(FGene::Flush);
        if k % 9 == 0 {
            ops.push(FGene::Flush); // empty flush must not consume a sequence number
        }
    }
    v.push(base(ops, 1));
    // huge and empty samples in one segment, then a 4 097-sample segment
    let mut ops = vec![w(3000, 3_200_000, true), w(3000, 0, false), w(3000, 1_048_577, false), FGene::Flush, w(3000, 5, true), w(3000, (8 << 20) + 1, false), w(3000, 6, false), FGene::Flush];
    ops.extend((0..4_097u32).map(|i| w(3003, 2 + (i % 2), i == 0)));
    ops.push(FGene::Flush);
    v.push(base(ops, 2));
    // 256 / 257 samples per segment boundaries
    let mut ops = Vec::new();
    for n in [255u32, 256, 257, 1, 65_536] {
        ops.extend((0..n).map(|i| w(3000, 3, i == 0)));
        ops.push(FGene::Flush);
    }
    v.push(base(ops, 3));
    v
}
