//! Independent ISO-BMFF reader (trusted base of the harness).
//!
//! Written from ISO/IEC 14496-12 / -14 / -15 and the AV1 / VP9 / Opus bindings.
//! Shares no code with muxide.  Deliberately more general than what muxide
//! emits today (largesize, co64, version-1 headers, stz2, uniform stsz,
//! multi-sample chunks, edit lists, tfhd defaults) so that a correct refactoring
//! of muxide does not raise an alarm.

use std::fmt::Write as _;

pub type R<T> = Result<T, String>;

#[derive(Clone, Debug)]
pub struct Node {
    pub typ: [u8; 4],
    /// absolute offset of the box header
    pub start: usize,
    /// header length (8 or 16)
    pub hdr: usize,
    /// absolute end (exclusive)
    pub end: usize,
    /// absolute offset where child boxes start (== payload start for pure containers)
    pub kids_at: usize,
    pub kids: Vec<Node>,
}

impl Node {
    pub fn name(&self) -> String {
        fourcc(&self.typ)
    }
    pub fn payload<'a>(&self, d: &'a [u8]) -> &'a [u8] {
        &d[self.start + self.hdr..self.end]
    }
    pub fn size(&self) -> usize {
        self.end - self.start
    }
    pub fn kid(&self, t: &[u8; 4]) -> Option<&Node> {
        self.kids.iter().find(|k| &k.typ == t)
    }
    pub fn kids_of(&self, t: &[u8; 4]) -> Vec<&Node> {
        self.kids.iter().filter(|k| &k.typ == t).collect()
    }
    pub fn path(&self, p: &[&[u8; 4]]) -> Option<&Node> {
        let mut n = self;
        for t in p {
            n = n.kid(t)?;
        }
        Some(n)
    }
}

pub fn fourcc(t: &[u8; 4]) -> String {
    let mut s = String::new();
    for &b in t {
        if (0x20..0x7f).contains(&b) {
            s.push(b as char);
        } else {
            let _ = write!(s, "\\x{:02x}", b);
        }
    }
    s
}

fn be16(d: &[u8], o: usize) -> R<u16> {
    d.get(o..o + 2)
        .map(|s| u16::from_be_bytes([s[0], s[1]]))
        .ok_or_else(|| format!("short read u16 at {}", o))
}
fn be32(d: &[u8], o: usize) -> R<u32> {
    d.get(o..o + 4)
        .map(|s| u32::from_be_bytes([s[0], s[1], s[2], s[3]]))
        .ok_or_else(|| format!("short read u32 at {}", o))
}
fn be64(d: &[u8], o: usize) -> R<u64> {
    d.get(o..o + 8)
        .map(|s| u64::from_be_bytes([s[0], s[1], s[2], s[3], s[4], s[5], s[6], s[7]]))
        .ok_or_else(|| format!("short read u64 at {}", o))
}

const CONTAINERS: &[&[u8; 4]] = &[
    b"moov", b"trak", b"mdia", b"minf", b"dinf", b"stbl", b"udta", b"edts", b"mvex", b"moof",
    b"traf", b"ilst", b"mfra",
];
const VISUAL: &[&[u8; 4]] = &[b"avc1", b"avc3", b"hvc1", b"hev1", b"av01", b"vp09", b"vp08"];
const AUDIO: &[&[u8; 4]] = &[b"mp4a", b"Opus", b"ac-3", b"fLaC"];

/// Strictly parse `[start,end)` as a sequence of boxes that tile it exactly.
/// `top` allows `size == 0` ("to end of file") on the last box.
fn parse_level(d: &[u8], start: usize, end: usize, ctx: &str, top: bool, parent: Option<&[u8; 4]>) -> R<Vec<Node>> {
    let mut out = Vec::new();
    let mut o = start;
    while o < end {
        if end - o < 8 {
            return Err(format!("{}: {} bytes of slack at offset {} (parent end {})", ctx, end - o, o, end));
        }
        let sz32 = be32(d, o)? as u64;
        let typ: [u8; 4] = [d[o + 4], d[o + 5], d[o + 6], d[o + 7]];
        let (hdr, size) = if sz32 == 1 {
            if end - o < 16 {
                return Err(format!("{}: largesize header truncated at {}", ctx, o));
            }
            (16usize, be64(d, o + 8)?)
        } else if sz32 == 0 {
            if !top {
                return Err(format!("{}: size 0 box '{}' below top level at {}", ctx, fourcc(&typ), o));
            }
            (8usize, (end - o) as u64)
        } else {
            (8usize, sz32)
        };
        if size < hdr as u64 {
            return Err(format!("{}: box '{}' at {} declares size {} < header {}", ctx, fourcc(&typ), o, size, hdr));
        }
        if size > (end - o) as u64 {
            return Err(format!(
                "{}: box '{}' at {} size {} overruns parent (only {} left)",
                ctx,
                fourcc(&typ),
                o,
                size,
                end - o
            ));
        }
        let bend = o + size as usize;
        let pstart = o + hdr;
        let here = format!("{}/{}", ctx, fourcc(&typ));
        let mut node = Node { typ, start: o, hdr, end: bend, kids_at: pstart, kids: Vec::new() };
        let in_ilst = parent == Some(b"ilst");
        if in_ilst {
            node.kids = parse_level(d, pstart, bend, &here, false, Some(&typ))?;
        } else if CONTAINERS.contains(&&typ) {
            node.kids = parse_level(d, pstart, bend, &here, false, Some(&typ))?;
        } else if &typ == b"meta" {
            // ISO: FullBox. (QuickTime's non-full variant is not accepted: muxide claims ISO.)
            if bend - pstart < 4 {
                return Err(format!("{}: meta shorter than its FullBox header", here));
            }
            node.kids_at = pstart + 4;
            node.kids = parse_level(d, pstart + 4, bend, &here, false, Some(&typ))?;
        } else if &typ == b"stsd" || &typ == b"dref" {
            if bend - pstart < 8 {
                return Err(format!("{}: shorter than FullBox header + entry_count", here));
            }
            node.kids_at = pstart + 8;
            node.kids = parse_level(d, pstart + 8, bend, &here, false, Some(&typ))?;
            let n = be32(d, pstart + 4)? as usize;
            if n != node.kids.len() {
                return Err(format!("{}: entry_count {} but {} entries present", here, n, node.kids.len()));
            }
        } else if parent == Some(b"stsd") && VISUAL.contains(&&typ) {
            if bend - pstart < 78 {
                return Err(format!("{}: visual sample entry shorter than 78 bytes", here));
            }
            node.kids_at = pstart + 78;
            node.kids = parse_level(d, pstart + 78, bend, &here, false, Some(&typ))?;
        } else if parent == Some(b"stsd") && AUDIO.contains(&&typ) {
            if bend - pstart < 28 {
                return Err(format!("{}: audio sample entry shorter than 28 bytes", here));
            }
            node.kids_at = pstart + 28;
            node.kids = parse_level(d, pstart + 28, bend, &here, false, Some(&typ))?;
        }
        out.push(node);
        o = bend;
    }
    Ok(out)
}

/// Strict parse of a whole byte stream.
pub fn parse_tree(d: &[u8]) -> R<Vec<Node>> {
    parse_level(d, 0, d.len(), "", true, None)
}

/// Top-level boxes only (type, start, size); tolerant of a trailing truncated box (returns what tiles).
pub fn top_level(d: &[u8]) -> R<Vec<Node>> {
    let mut out = Vec::new();
    let mut o = 0usize;
    while o < d.len() {
        if d.len() - o < 8 {
            return Err(format!("{} bytes of slack at top level offset {}", d.len() - o, o));
        }
        let sz32 = be32(d, o)? as u64;
        let typ: [u8; 4] = [d[o + 4], d[o + 5], d[o + 6], d[o + 7]];
        let (hdr, size) = if sz32 == 1 {
            (16usize, be64(d, o + 8)?)
        } else if sz32 == 0 {
            (8usize, (d.len() - o) as u64)
        } else {
            (8usize, sz32)
        };
        if size < hdr as u64 || size > (d.len() - o) as u64 {
            return Err(format!("top-level box '{}' at {} has bad size {}", fourcc(&typ), o, size));
        }
        out.push(Node { typ, start: o, hdr, end: o + size as usize, kids_at: o + hdr, kids: vec![] });
        o += size as usize;
    }
    Ok(out)
}

// ------------------------------------------------------------------------------------
// typed decoders

#[derive(Clone, Debug, PartialEq)]
pub struct Mvhd {
    pub version: u8,
    pub flags: u32,
    pub creation: u64,
    pub modification: u64,
    pub timescale: u32,
    pub duration: u64,
    pub rate: u32,
    pub volume: u16,
    pub reserved_ok: bool,
    pub matrix: [u32; 9],
    pub predefined_ok: bool,
    pub next_track_id: u32,
    pub payload_len: usize,
}

pub fn dec_mvhd(p: &[u8]) -> R<Mvhd> {
    let vf = be32(p, 0)?;
    let version = (vf >> 24) as u8;
    let (creation, modification, timescale, duration, o) = match version {
        0 => (be32(p, 4)? as u64, be32(p, 8)? as u64, be32(p, 12)?, be32(p, 16)? as u64, 20),
        1 => (be64(p, 4)?, be64(p, 12)?, be32(p, 20)?, be64(p, 24)?, 32),
        v => return Err(format!("mvhd version {}", v)),
    };
    let rate = be32(p, o)?;
    let volume = be16(p, o + 4)?;
    let reserved_ok = p.get(o + 6..o + 16).map(|s| s.iter().all(|&b| b == 0)).unwrap_or(false);
    let mut matrix = [0u32; 9];
    for (i, m) in matrix.iter_mut().enumerate() {
        *m = be32(p, o + 16 + 4 * i)?;
    }
    let predefined_ok = p.get(o + 52..o + 76).map(|s| s.iter().all(|&b| b == 0)).unwrap_or(false);
    let next_track_id = be32(p, o + 76)?;
    Ok(Mvhd {
        version,
        flags: vf & 0xff_ffff,
        creation,
        modification,
        timescale,
        duration,
        rate,
        volume,
        reserved_ok,
        matrix,
        predefined_ok,
        next_track_id,
        payload_len: p.len(),
    })
}

#[derive(Clone, Debug, PartialEq)]
pub struct Tkhd {
    pub version: u8,
    pub flags: u32,
    pub track_id: u32,
    pub reserved1: u32,
    pub duration: u64,
    pub reserved2_ok: bool,
    pub layer: u16,
    pub alt_group: u16,
    pub volume: u16,
    pub reserved3: u16,
    pub matrix: [u32; 9],
    pub width: u32,
    pub height: u32,
    pub payload_len: usize,
}

/// `shift`: extra bytes assumed between `duration` and `layer` beyond the spec's 8 reserved
/// (0 for the specification layout). Used only to keep judging the later fields of a box
/// whose *size* clause already failed with a listed signature.
pub fn dec_tkhd_shifted(p: &[u8], shift: usize) -> R<Tkhd> {
    let vf = be32(p, 0)?;
    let version = (vf >> 24) as u8;
    let (track_id, reserved1, duration, o) = match version {
        0 => (be32(p, 12)?, be32(p, 16)?, be32(p, 20)? as u64, 24),
        1 => (be32(p, 20)?, be32(p, 24)?, be64(p, 28)?, 36),
        v => return Err(format!("tkhd version {}", v)),
    };
    let reserved2_ok = p.get(o..o + 8 + shift).map(|s| s.iter().all(|&b| b == 0)).unwrap_or(false);
    let o = o + 8 + shift;
    let layer = be16(p, o)?;
    let alt_group = be16(p, o + 2)?;
    let volume = be16(p, o + 4)?;
    let reserved3 = be16(p, o + 6)?;
    let mut matrix = [0u32; 9];
    for (i, m) in matrix.iter_mut().enumerate() {
        *m = be32(p, o + 8 + 4 * i)?;
    }
    let width = be32(p, o + 44)?;
    let height = be32(p, o + 48)?;
    Ok(Tkhd {
        version,
        flags: vf & 0xff_ffff,
        track_id,
        reserved1,
        duration,
        reserved2_ok,
        layer,
        alt_group,
        volume,
        reserved3,
        matrix,
        width,
        height,
        payload_len: p.len(),
    })
}

pub fn tkhd_spec_len(version: u8) -> usize {
    if version == 1 {
        96
    } else {
        84
    }
}

#[derive(Clone, Debug, PartialEq)]
pub struct Mdhd {
    pub version: u8,
    pub flags: u32,
    pub timescale: u32,
    pub duration: u64,
    pub pad: u8,
    pub lang: [u8; 3],
    pub lang_raw: u16,
    pub predefined: u16,
    pub payload_len: usize,
}

pub fn dec_mdhd(p: &[u8]) -> R<Mdhd> {
    let vf = be32(p, 0)?;
    let version = (vf >> 24) as u8;
    let (timescale, duration, o) = match version {
        0 => (be32(p, 12)?, be32(p, 16)? as u64, 20),
        1 => (be32(p, 20)?, be64(p, 24)?, 32),
        v => return Err(format!("mdhd version {}", v)),
    };
    let l = be16(p, o)?;
    let predefined = be16(p, o + 2)?;
    let lang = [
        (((l >> 10) & 0x1f) as u8) + 0x60,
        (((l >> 5) & 0x1f) as u8) + 0x60,
        ((l & 0x1f) as u8) + 0x60,
    ];
    Ok(Mdhd {
        version,
        flags: vf & 0xff_ffff,
        timescale,
        duration,
        pad: (l >> 15) as u8,
        lang,
        lang_raw: l,
        predefined,
        payload_len: p.len(),
    })
}

#[derive(Clone, Debug, PartialEq)]
pub struct Hdlr {
    pub vf: u32,
    pub predefined: u32,
    pub handler: [u8; 4],
    pub reserved_ok: bool,
    pub reserved: [u8; 12],
    pub name: Vec<u8>,
    pub name_nul_terminated: bool,
}

pub fn dec_hdlr(p: &[u8]) -> R<Hdlr> {
    let vf = be32(p, 0)?;
    let predefined = be32(p, 4)?;
    let h = p.get(8..12).ok_or("hdlr short")?;
    let r = p.get(12..24).ok_or("hdlr short (reserved)")?;
    let name = p.get(24..).unwrap_or(&[]).to_vec();
    let mut reserved = [0u8; 12];
    reserved.copy_from_slice(r);
    Ok(Hdlr {
        vf,
        predefined,
        handler: [h[0], h[1], h[2], h[3]],
        reserved_ok: r.iter().all(|&b| b == 0),
        reserved,
        name_nul_terminated: name.last() == Some(&0),
        name,
    })
}

#[derive(Clone, Debug, PartialEq)]
pub struct Ctts {
    pub version: u8,
    /// (count, offset) with the offset interpreted per version
    pub entries: Vec<(u32, i64)>,
}

#[derive(Clone, Debug, PartialEq)]
pub enum ConfigRecord {
    Avc {
        version: u8,
        profile: u8,
        compat: u8,
        level: u8,
        reserved6: u8,
        length_size_minus_one: u8,
        reserved3: u8,
        sps: Vec<Vec<u8>>,
        pps: Vec<Vec<u8>>,
        trailing: Vec<u8>,
    },
    Hevc {
        version: u8,
        head: Vec<u8>, // the 22 bytes after the version
        length_size_minus_one: u8,
        arrays: Vec<(u8 /*raw first byte*/, Vec<Vec<u8>>)>,
        trailing: usize,
    },
    Av1 {
        raw4: [u8; 4],
        config_obus: Vec<u8>,
    },
    Vp9Raw {
        payload: Vec<u8>,
    },
    Esds {
        vf: u32,
        es_id: u16,
        es_flags: u8,
        object_type: u8,
        stream_type_byte: u8,
        buffer_size: u32,
        max_bitrate: u32,
        avg_bitrate: u32,
        asc: Vec<u8>,
        sl_predefined: Option<u8>,
        lens_consistent: bool,
    },
    Dops {
        payload: Vec<u8>,
    },
    None,
}

#[derive(Clone, Debug, PartialEq)]
pub struct SampleEntry {
    pub typ: [u8; 4],
    pub prefix: Vec<u8>, // 78 or 28 bytes
    pub data_ref_index: u16,
    // visual
    pub width: u16,
    pub height: u16,
    // audio
    pub channels: u16,
    pub samplesize: u16,
    pub samplerate_16_16: u32,
    pub config_type: [u8; 4],
    pub config_payload: Vec<u8>,
    pub config: ConfigRecord,
    pub child_types: Vec<[u8; 4]>,
    pub is_visual: bool,
    /// the configuration record could not be decoded (judged by C07/C16/C19, not by the box grammar)
    pub config_err: Option<String>,
}

fn read_desc_len(p: &[u8], o: &mut usize) -> R<usize> {
    let mut v = 0usize;
    for _ in 0..4 {
        let b = *p.get(*o).ok_or("descriptor length truncated")?;
        *o += 1;
        v = (v << 7) | (b & 0x7f) as usize;
        if b & 0x80 == 0 {
            return Ok(v);
        }
    }
    Ok(v)
}

pub fn dec_esds(p: &[u8]) -> R<ConfigRecord> {
    let vf = be32(p, 0)?;
    let mut o = 4;
    let mut consistent = true;
    if *p.get(o).ok_or("esds: no ES_Descriptor")? != 0x03 {
        return Err(format!("esds: first descriptor tag {:#x} != 0x03", p[o]));
    }
    o += 1;
    let es_len = read_desc_len(p, &mut o)?;
    let es_end = o + es_len;
    if es_end != p.len() {
        consistent = false;
    }
    let es_id = be16(p, o)?;
    let es_flags = *p.get(o + 2).ok_or("esds short")?;
    o += 3;
    if es_flags & 0x80 != 0 {
        o += 2;
    }
    if es_flags & 0x40 != 0 {
        let l = *p.get(o).ok_or("esds short")? as usize;
        o += 1 + l;
    }
    if es_flags & 0x20 != 0 {
        o += 2;
    }
    if *p.get(o).ok_or("esds: no DecoderConfigDescriptor")? != 0x04 {
        return Err(format!("esds: expected tag 0x04, found {:#x}", p[o]));
    }
    o += 1;
    let dc_len = read_desc_len(p, &mut o)?;
    let dc_end = o + dc_len;
    let object_type = *p.get(o).ok_or("esds short")?;
    let stream_type_byte = *p.get(o + 1).ok_or("esds short")?;
    let buffer_size = ((*p.get(o + 2).ok_or("esds short")? as u32) << 16)
        | ((*p.get(o + 3).ok_or("esds short")? as u32) << 8)
        | (*p.get(o + 4).ok_or("esds short")? as u32);
    let max_bitrate = be32(p, o + 5)?;
    let avg_bitrate = be32(p, o + 9)?;
    o += 13;
    let mut asc = Vec::new();
    if o < dc_end {
        if p[o] != 0x05 {
            return Err(format!("esds: expected tag 0x05, found {:#x}", p[o]));
        }
        o += 1;
        let l = read_desc_len(p, &mut o)?;
        asc = p.get(o..o + l).ok_or("esds: DecoderSpecificInfo overruns")?.to_vec();
        o += l;
    }
    if o != dc_end {
        consistent = false;
    }
    let mut sl_predefined = None;
    if o < p.len() {
        if p[o] == 0x06 {
            o += 1;
            let l = read_desc_len(p, &mut o)?;
            if l >= 1 {
                sl_predefined = p.get(o).copied();
            }
            o += l;
        }
    }
    if o != es_end {
        consistent = false;
    }
    Ok(ConfigRecord::Esds {
        vf,
        es_id,
        es_flags,
        object_type,
        stream_type_byte,
        buffer_size,
        max_bitrate,
        avg_bitrate,
        asc,
        sl_predefined,
        lens_consistent: consistent,
    })
}

pub fn dec_avcc(p: &[u8]) -> R<ConfigRecord> {
    if p.len() < 6 {
        return Err("avcC shorter than 6 bytes".into());
    }
    let nsps = (p[5] & 0x1f) as usize;
    let mut o = 6;
    let mut sps = Vec::new();
    for _ in 0..nsps {
        let l = be16(p, o)? as usize;
        o += 2;
        sps.push(p.get(o..o + l).ok_or("avcC: SPS overruns box")?.to_vec());
        o += l;
    }
    let npps = *p.get(o).ok_or("avcC: numPPS missing")? as usize;
    o += 1;
    let mut pps = Vec::new();
    for _ in 0..npps {
        let l = be16(p, o)? as usize;
        o += 2;
        pps.push(p.get(o..o + l).ok_or("avcC: PPS overruns box")?.to_vec());
        o += l;
    }
    Ok(ConfigRecord::Avc {
        version: p[0],
        profile: p[1],
        compat: p[2],
        level: p[3],
        reserved6: p[4] >> 2,
        length_size_minus_one: p[4] & 3,
        reserved3: p[5] >> 5,
        sps,
        pps,
        trailing: p[o..].to_vec(),
    })
}

pub fn dec_hvcc(p: &[u8]) -> R<ConfigRecord> {
    if p.len() < 23 {
        return Err("hvcC shorter than 23 bytes".into());
    }
    let n = p[22] as usize;
    let mut o = 23;
    let mut arrays = Vec::new();
    for _ in 0..n {
        let first = *p.get(o).ok_or("hvcC: array header missing")?;
        let cnt = be16(p, o + 1)? as usize;
        o += 3;
        let mut nals = Vec::new();
        for _ in 0..cnt {
            let l = be16(p, o)? as usize;
            o += 2;
            nals.push(p.get(o..o + l).ok_or("hvcC: NAL overruns box")?.to_vec());
            o += l;
        }
        arrays.push((first, nals));
    }
    Ok(ConfigRecord::Hevc {
        version: p[0],
        head: p[1..22].to_vec(),
        length_size_minus_one: p[21] & 3,
        arrays,
        trailing: p.len() - o,
    })
}

pub fn dec_sample_entry(d: &[u8], n: &Node) -> R<SampleEntry> {
    let p = n.payload(d);
    let is_visual = VISUAL.contains(&&n.typ);
    let is_audio = AUDIO.contains(&&n.typ);
    if !is_visual && !is_audio {
        return Err(format!("unknown sample entry type '{}'", n.name()));
    }
    let plen = if is_visual { 78 } else { 28 };
    let prefix = p.get(..plen).ok_or("sample entry prefix short")?.to_vec();
    let mut se = SampleEntry {
        typ: n.typ,
        prefix: prefix.clone(),
        data_ref_index: be16(p, 6)?,
        width: 0,
        height: 0,
        channels: 0,
        samplesize: 0,
        samplerate_16_16: 0,
        config_type: [0; 4],
        config_payload: vec![],
        config: ConfigRecord::None,
        child_types: n.kids.iter().map(|k| k.typ).collect(),
        is_visual,
        config_err: None,
    };
    if is_visual {
        se.width = be16(p, 24)?;
        se.height = be16(p, 26)?;
    } else {
        se.channels = be16(p, 16)?;
        se.samplesize = be16(p, 18)?;
        se.samplerate_16_16 = be32(p, 24)?;
    }
    for k in &n.kids {
        let kp = k.payload(d);
        let rec: Option<R<ConfigRecord>> = match &k.typ {
            b"avcC" => Some(dec_avcc(kp)),
            b"hvcC" => Some(dec_hvcc(kp)),
            b"av1C" => {
                if kp.len() < 4 {
                    Some(Err(format!("av1C payload {} bytes < 4", kp.len())))
                } else {
                    Some(Ok(ConfigRecord::Av1 { raw4: [kp[0], kp[1], kp[2], kp[3]], config_obus: kp[4..].to_vec() }))
                }
            }
            b"vpcC" => Some(Ok(ConfigRecord::Vp9Raw { payload: kp.to_vec() })),
            b"esds" => Some(dec_esds(kp)),
            b"dOps" => Some(Ok(ConfigRecord::Dops { payload: kp.to_vec() })),
            _ => None,
        };
        let rec = match rec {
            Some(Ok(r)) => Some(r),
            Some(Err(e)) => {
                se.config_err = Some(e);
                Some(ConfigRecord::None)
            }
            None => None,
        };
        if let Some(r) = rec {
            se.config_type = k.typ;
            se.config_payload = kp.to_vec();
            se.config = r;
            break;
        }
    }
    Ok(se)
}

#[derive(Clone, Debug, PartialEq)]
pub struct Sample {
    pub offset: u64,
    pub size: u32,
    pub dts: u64,
    pub cts: i64,
    pub duration: u32,
    pub sync: bool,
}

#[derive(Clone, Debug)]
pub struct Track {
    pub tkhd: Tkhd,
    pub tkhd_flags: u32,
    pub mdhd: Mdhd,
    pub hdlr: Hdlr,
    pub is_video: bool,
    pub entry: SampleEntry,
    pub stsd_count: u32,
    pub stts: Vec<(u32, u32)>,
    pub ctts: Option<Ctts>,
    pub stsc: Vec<(u32, u32, u32)>,
    pub stsz_uniform: u32,
    pub stsz_count: u32,
    pub sizes: Vec<u32>,
    pub chunk_offsets: Vec<u64>,
    pub co64: bool,
    pub stss: Option<Vec<u32>>,
    pub elst: Option<Vec<(u64, i64, u32)>>,
    pub samples: Vec<Sample>,
    pub has_vmhd: bool,
    pub has_smhd: bool,
    pub trak_start: usize,
}

#[derive(Clone, Debug)]
pub struct UdtaItem {
    pub key: [u8; 4],
    pub data_type: u32,
    pub locale: u32,
    pub value: Vec<u8>,
    pub n_data: usize,
}

#[derive(Clone, Debug)]
pub struct Movie {
    pub top: Vec<([u8; 4], usize, usize)>, // type, start, end
    pub ftyp: Vec<u8>,
    pub mvhd: Mvhd,
    pub tracks: Vec<Track>,
    pub udta_present: bool,
    pub udta_items: Vec<UdtaItem>,
    pub meta_hdlr: Option<[u8; 4]>,
    pub mdat: Option<(usize, usize)>, // payload range
    pub mvex_trex: Vec<Trex>,
}

#[derive(Clone, Debug, PartialEq)]
pub struct Trex {
    pub vf: u32,
    pub track_id: u32,
    pub default_sdi: u32,
    pub default_duration: u32,
    pub default_size: u32,
    pub default_flags: u32,
    pub payload_len: usize,
}

fn need<'a>(n: &'a Node, t: &[u8; 4], ctx: &str) -> R<&'a Node> {
    let v = n.kids_of(t);
    match v.len() {
        1 => Ok(v[0]),
        0 => Err(format!("{}: mandatory box '{}' missing", ctx, fourcc(t))),
        k => Err(format!("{}: {} boxes of type '{}' (expected 1)", ctx, k, fourcc(t))),
    }
}

fn dec_table_hdr(p: &[u8], name: &str) -> R<(u8, u32, u32)> {
    let vf = be32(p, 0).map_err(|e| format!("{}: {}", name, e))?;
    let n = be32(p, 4).map_err(|e| format!("{}: {}", name, e))?;
    Ok(((vf >> 24) as u8, vf & 0xff_ffff, n))
}

pub fn dec_track(d: &[u8], trak: &Node) -> R<Track> {
    let tk = need(trak, b"tkhd", "trak")?;
    let tkp = tk.payload(d);
    let tkhd = dec_tkhd_shifted(tkp, 0).or_else(|e| {
        // keep going with what can be read: a too-short/odd tkhd is C19's business, but ids are needed
        Err(format!("tkhd undecodable: {}", e))
    })?;
    let mdia = need(trak, b"mdia", "trak")?;
    let mdhd = dec_mdhd(need(mdia, b"mdhd", "mdia")?.payload(d))?;
    let hdlr = dec_hdlr(need(mdia, b"hdlr", "mdia")?.payload(d))?;
    let minf = need(mdia, b"minf", "mdia")?;
    let has_vmhd = minf.kid(b"vmhd").is_some();
    let has_smhd = minf.kid(b"smhd").is_some();
    let dinf = need(minf, b"dinf", "minf")?;
    let dref = need(dinf, b"dref", "dinf")?;
    if dref.kids.is_empty() {
        return Err("dref has no entries".into());
    }
    let stbl = need(minf, b"stbl", "minf")?;
    let stsd = need(stbl, b"stsd", "stbl")?;
    let stsd_count = be32(stsd.payload(d), 4)?;
    if stsd.kids.is_empty() {
        return Err("stsd has no sample entry".into());
    }
    let entry = dec_sample_entry(d, &stsd.kids[0])?;

    let sttsn = need(stbl, b"stts", "stbl")?;
    let p = sttsn.payload(d);
    let (_, _, n) = dec_table_hdr(p, "stts")?;
    if p.len() != 8 + 8 * n as usize {
        return Err(format!("stts: entry_count {} inconsistent with payload {}", n, p.len()));
    }
    let mut stts = Vec::new();
    for i in 0..n as usize {
        stts.push((be32(p, 8 + 8 * i)?, be32(p, 12 + 8 * i)?));
    }

    let ctts = match stbl.kids_of(b"ctts").len() {
        0 => None,
        1 => {
            let p = stbl.kid(b"ctts").unwrap().payload(d);
            let (v, _, n) = dec_table_hdr(p, "ctts")?;
            if p.len() != 8 + 8 * n as usize {
                return Err(format!("ctts: entry_count {} inconsistent with payload {}", n, p.len()));
            }
            if v > 1 {
                return Err(format!("ctts version {}", v));
            }
            let mut e = Vec::new();
            for i in 0..n as usize {
                let raw = be32(p, 12 + 8 * i)?;
                let off = if v == 0 { raw as i64 } else { raw as i32 as i64 };
                e.push((be32(p, 8 + 8 * i)?, off));
            }
            Some(Ctts { version: v, entries: e })
        }
        k => return Err(format!("{} ctts boxes", k)),
    };

    let p = need(stbl, b"stsc", "stbl")?.payload(d);
    let (_, _, n) = dec_table_hdr(p, "stsc")?;
    if p.len() != 8 + 12 * n as usize {
        return Err(format!("stsc: entry_count {} inconsistent with payload {}", n, p.len()));
    }
    let mut stsc = Vec::new();
    for i in 0..n as usize {
        stsc.push((be32(p, 8 + 12 * i)?, be32(p, 12 + 12 * i)?, be32(p, 16 + 12 * i)?));
    }

    let (stsz_uniform, stsz_count, sizes) = if let Some(z) = stbl.kid(b"stsz") {
        let p = z.payload(d);
        be32(p, 0)?;
        let uni = be32(p, 4)?;
        let cnt = be32(p, 8)?;
        let mut sizes = Vec::new();
        if uni == 0 {
            if p.len() != 12 + 4 * cnt as usize {
                return Err(format!("stsz: sample_count {} inconsistent with payload {}", cnt, p.len()));
            }
            for i in 0..cnt as usize {
                sizes.push(be32(p, 12 + 4 * i)?);
            }
        } else {
            if p.len() != 12 {
                return Err(format!("stsz: uniform size but payload {}", p.len()));
            }
            sizes = vec![uni; cnt as usize];
        }
        (uni, cnt, sizes)
    } else if let Some(z) = stbl.kid(b"stz2") {
        let p = z.payload(d);
        let fs = be32(p, 4)? & 0xff;
        let cnt = be32(p, 8)?;
        let mut sizes = Vec::new();
        for i in 0..cnt as usize {
            let v = match fs {
                4 => {
                    let b = *p.get(12 + i / 2).ok_or("stz2 short")?;
                    if i % 2 == 0 {
                        (b >> 4) as u32
                    } else {
                        (b & 15) as u32
                    }
                }
                8 => *p.get(12 + i).ok_or("stz2 short")? as u32,
                16 => be16(p, 12 + 2 * i)? as u32,
                f => return Err(format!("stz2 field size {}", f)),
            };
            sizes.push(v);
        }
        (0, cnt, sizes)
    } else {
        return Err("stbl: neither stsz nor stz2".into());
    };

    let (chunk_offsets, co64) = if let Some(c) = stbl.kid(b"stco") {
        let p = c.payload(d);
        let (_, _, n) = dec_table_hdr(p, "stco")?;
        if p.len() != 8 + 4 * n as usize {
            return Err(format!("stco: entry_count {} inconsistent with payload {}", n, p.len()));
        }
        ((0..n as usize).map(|i| be32(p, 8 + 4 * i).map(|v| v as u64)).collect::<R<Vec<_>>>()?, false)
    } else if let Some(c) = stbl.kid(b"co64") {
        let p = c.payload(d);
        let (_, _, n) = dec_table_hdr(p, "co64")?;
        if p.len() != 8 + 8 * n as usize {
            return Err(format!("co64: entry_count {} inconsistent with payload {}", n, p.len()));
        }
        ((0..n as usize).map(|i| be64(p, 8 + 8 * i)).collect::<R<Vec<_>>>()?, true)
    } else {
        return Err("stbl: neither stco nor co64".into());
    };

    let stss = match stbl.kid(b"stss") {
        None => None,
        Some(s) => {
            let p = s.payload(d);
            let (_, _, n) = dec_table_hdr(p, "stss")?;
            if p.len() != 8 + 4 * n as usize {
                return Err(format!("stss: entry_count {} inconsistent with payload {}", n, p.len()));
            }
            Some((0..n as usize).map(|i| be32(p, 8 + 4 * i)).collect::<R<Vec<_>>>()?)
        }
    };

    let elst = match trak.path(&[b"edts", b"elst"]) {
        None => None,
        Some(e) => {
            let p = e.payload(d);
            let (v, _, n) = dec_table_hdr(p, "elst")?;
            let mut out = Vec::new();
            for i in 0..n as usize {
                if v == 1 {
                    out.push((be64(p, 8 + 20 * i)?, be64(p, 16 + 20 * i)? as i64, be32(p, 24 + 20 * i)?));
                } else {
                    out.push((be32(p, 8 + 12 * i)? as u64, be32(p, 12 + 12 * i)? as i32 as i64, be32(p, 16 + 12 * i)?));
                }
            }
            Some(out)
        }
    };

    let mut t = Track {
        tkhd_flags: tkhd.flags,
        tkhd,
        mdhd,
        is_video: &hdlr.handler == b"vide",
        hdlr,
        entry,
        stsd_count,
        stts,
        ctts,
        stsc,
        stsz_uniform,
        stsz_count,
        sizes,
        chunk_offsets,
        co64,
        stss,
        elst,
        samples: Vec::new(),
        has_vmhd,
        has_smhd,
        trak_start: trak.start,
    };
    t.samples = resolve_samples(&t)?;
    Ok(t)
}

/// Resolve every sample of a track to (offset,size,dts,cts,duration,sync) via stsc/stco/stsz/stts/ctts/stss.
/// Also enforces the mutual consistency of the table counts (C02 `counts` clause).
pub fn resolve_samples(t: &Track) -> R<Vec<Sample>> {
    let n = t.sizes.len();
    // timing
    let total_stts: u64 = t.stts.iter().map(|e| e.0 as u64).sum();
    if total_stts != n as u64 {
        return Err(format!("counts: stts covers {} samples, stsz has {}", total_stts, n));
    }
    let mut durs = Vec::with_capacity(n);
    for &(c, dlt) in &t.stts {
        for _ in 0..c {
            durs.push(dlt);
        }
    }
    let mut ctso = vec![0i64; n];
    if let Some(c) = &t.ctts {
        let total: u64 = c.entries.iter().map(|e| e.0 as u64).sum();
        if total != n as u64 {
            return Err(format!("counts: ctts covers {} samples, stsz has {}", total, n));
        }
        let mut i = 0;
        for &(cnt, off) in &c.entries {
            for _ in 0..cnt {
                ctso[i] = off;
                i += 1;
            }
        }
    }
    // sync
    let mut sync = vec![t.stss.is_none(); n];
    if let Some(s) = &t.stss {
        let mut prev = 0u32;
        for &k in s {
            if k == 0 || k as usize > n {
                return Err(format!("counts: stss entry {} outside 1..={}", k, n));
            }
            if k <= prev {
                return Err(format!("counts: stss not strictly increasing ({} after {})", k, prev));
            }
            prev = k;
            sync[k as usize - 1] = true;
        }
    }
    // chunks
    let nchunks = t.chunk_offsets.len();
    let mut offsets = Vec::with_capacity(n);
    let mut si = 0usize;
    if nchunks > 0 || n > 0 {
        if t.stsc.is_empty() && n > 0 {
            return Err("counts: samples present but stsc empty".into());
        }
        for (ei, e) in t.stsc.iter().enumerate() {
            if e.0 == 0 {
                return Err("stsc first_chunk 0".into());
            }
            if ei > 0 && e.0 <= t.stsc[ei - 1].0 {
                return Err("stsc first_chunk not increasing".into());
            }
            if e.2 != 1 {
                return Err(format!("stsc sample_description_index {} (only one entry in stsd)", e.2));
            }
        }
        for ci in 0..nchunks {
            let chunk_no = ci as u32 + 1;
            let e = t.stsc.iter().rev().find(|e| e.0 <= chunk_no);
            let spc = match e {
                Some(e) => e.1,
                None => return Err(format!("stsc does not cover chunk {}", chunk_no)),
            };
            let mut o = t.chunk_offsets[ci];
            for _ in 0..spc {
                if si >= n {
                    return Err(format!("counts: chunks describe more samples than stsz ({})", n));
                }
                offsets.push(o);
                o += t.sizes[si] as u64;
                si += 1;
            }
        }
        if si != n {
            return Err(format!("counts: chunks describe {} samples, stsz has {}", si, n));
        }
        if !t.stsc.is_empty() && t.stsc.last().unwrap().0 as usize > nchunks.max(1) && nchunks > 0 {
            return Err("stsc refers to a chunk beyond stco".into());
        }
    }
    let mut out = Vec::with_capacity(n);
    let mut dts = 0u64;
    for i in 0..n {
        out.push(Sample { offset: offsets[i], size: t.sizes[i], dts, cts: ctso[i], duration: durs[i], sync: sync[i] });
        dts += durs[i] as u64;
    }
    Ok(out)
}

pub fn dec_trex(p: &[u8]) -> R<Trex> {
    Ok(Trex {
        vf: be32(p, 0)?,
        track_id: be32(p, 4)?,
        default_sdi: be32(p, 8)?,
        default_duration: be32(p, 12)?,
        default_size: be32(p, 16)?,
        default_flags: be32(p, 20)?,
        payload_len: p.len(),
    })
}

/// Parse a progressive file or an init segment into a `Movie`.
pub fn parse_movie(d: &[u8]) -> R<(Vec<Node>, Movie)> {
    let tree = parse_tree(d)?;
    let top: Vec<_> = tree.iter().map(|n| (n.typ, n.start, n.end)).collect();
    if tree.is_empty() || &tree[0].typ != b"ftyp" {
        return Err("file: first box is not ftyp".into());
    }
    let moovs: Vec<&Node> = tree.iter().filter(|n| &n.typ == b"moov").collect();
    if moovs.len() != 1 {
        return Err(format!("file: {} moov boxes", moovs.len()));
    }
    let mdats: Vec<&Node> = tree.iter().filter(|n| &n.typ == b"mdat").collect();
    if mdats.len() > 1 {
        return Err(format!("file: {} mdat boxes", mdats.len()));
    }
    for n in &tree {
        if !matches!(&n.typ, b"ftyp" | b"moov" | b"mdat" | b"free" | b"skip" | b"styp" | b"sidx") {
            return Err(format!("file: unexpected top-level box '{}'", n.name()));
        }
    }
    let moov = moovs[0];
    let mvhd = dec_mvhd(need(moov, b"mvhd", "moov")?.payload(d))?;
    let mut tracks = Vec::new();
    for tr in moov.kids_of(b"trak") {
        tracks.push(dec_track(d, tr)?);
    }
    let mut udta_items = Vec::new();
    let mut meta_hdlr = None;
    let udtas = moov.kids_of(b"udta");
    if udtas.len() > 1 {
        return Err("moov: more than one udta".into());
    }
    if let Some(u) = udtas.first() {
        if let Some(meta) = u.kid(b"meta") {
            if let Some(h) = meta.kid(b"hdlr") {
                meta_hdlr = Some(dec_hdlr(h.payload(d))?.handler);
            }
            if let Some(ilst) = meta.kid(b"ilst") {
                for item in &ilst.kids {
                    let datas = item.kids_of(b"data");
                    if let Some(dn) = datas.first() {
                        let p = dn.payload(d);
                        udta_items.push(UdtaItem {
                            key: item.typ,
                            data_type: be32(p, 0)?,
                            locale: be32(p, 4)?,
                            value: p[8..].to_vec(),
                            n_data: datas.len(),
                        });
                    } else {
                        udta_items.push(UdtaItem { key: item.typ, data_type: 0, locale: 0, value: vec![], n_data: 0 });
                    }
                }
            }
        }
    }
    let mut mvex_trex = Vec::new();
    if let Some(mvex) = moov.kid(b"mvex") {
        for t in mvex.kids_of(b"trex") {
            mvex_trex.push(dec_trex(t.payload(d))?);
        }
    }
    let movie = Movie {
        top,
        ftyp: tree[0].payload(d).to_vec(),
        mvhd,
        tracks,
        udta_present: !udtas.is_empty(),
        udta_items,
        meta_hdlr,
        mdat: mdats.first().map(|m| (m.start + m.hdr, m.end)),
        mvex_trex,
    };
    Ok((tree, movie))
}

// ------------------------------------------------------------------------------------
// fragments

#[derive(Clone, Debug)]
pub struct FragSample {
    pub offset: usize, // absolute within the segment buffer
    pub size: u32,
    pub duration: u32,
    pub flags: u32,
    pub cts: i64,
}

#[derive(Clone, Debug)]
pub struct Segment {
    pub seq: u32,
    pub track_id: u32,
    pub tfhd_flags: u32,
    pub tfdt_version: u8,
    pub base_decode_time: u64,
    pub trun_version: u8,
    pub trun_flags: u32,
    pub samples: Vec<FragSample>,
    pub mdat: (usize, usize),
    pub moof_len: usize,
    pub mfhd_len: usize,
    pub tfhd_len: usize,
    pub tfdt_len: usize,
    pub mfhd_vf: u32,
    pub tfdt_flags: u32,
    pub data_offset: i64,
}

pub fn parse_segment(d: &[u8], trex: Option<&Trex>) -> R<Segment> {
    let tree = parse_tree(d)?;
    let names: Vec<String> = tree.iter().map(|n| n.name()).collect();
    if tree.len() != 2 || &tree[0].typ != b"moof" || &tree[1].typ != b"mdat" {
        return Err(format!("segment: top-level boxes are {:?}, expected [moof, mdat]", names));
    }
    let moof = &tree[0];
    let mdat = &tree[1];
    let kn: Vec<String> = moof.kids.iter().map(|n| n.name()).collect();
    if moof.kids.len() != 2 || &moof.kids[0].typ != b"mfhd" || &moof.kids[1].typ != b"traf" {
        return Err(format!("segment: moof children {:?}, expected [mfhd, traf]", kn));
    }
    let mfhd = &moof.kids[0];
    let mp = mfhd.payload(d);
    let mfhd_vf = be32(mp, 0)?;
    let seq = be32(mp, 4)?;
    let traf = &moof.kids[1];
    let tn: Vec<String> = traf.kids.iter().map(|n| n.name()).collect();
    let tfhd = need(traf, b"tfhd", "traf")?;
    let tfdt = need(traf, b"tfdt", "traf")?;
    let trun = need(traf, b"trun", "traf")?;
    if traf.kids.len() != 3 {
        return Err(format!("segment: traf children {:?}, expected tfhd, tfdt, trun", tn));
    }
    if &traf.kids[0].typ != b"tfhd" {
        return Err("segment: tfhd is not first in traf".into());
    }
    let p = tfhd.payload(d);
    let vf = be32(p, 0)?;
    let tf = vf & 0xff_ffff;
    let track_id = be32(p, 4)?;
    let mut o = 8;
    let mut base_data_offset: Option<u64> = None;
    let mut def_dur = trex.map(|t| t.default_duration).unwrap_or(0);
    let mut def_size = trex.map(|t| t.default_size).unwrap_or(0);
    let mut def_flags = trex.map(|t| t.default_flags).unwrap_or(0);
    if tf & 0x1 != 0 {
        base_data_offset = Some(be64(p, o)?);
        o += 8;
    }
    if tf & 0x2 != 0 {
        o += 4;
    }
    if tf & 0x8 != 0 {
        def_dur = be32(p, o)?;
        o += 4;
    }
    if tf & 0x10 != 0 {
        def_size = be32(p, o)?;
        o += 4;
    }
    if tf & 0x20 != 0 {
        def_flags = be32(p, o)?;
        o += 4;
    }
    if o != p.len() {
        return Err(format!("tfhd: payload {} bytes but flags {:#x} imply {}", p.len(), tf, o));
    }
    let tp = tfdt.payload(d);
    let tvf = be32(tp, 0)?;
    let tfdt_version = (tvf >> 24) as u8;
    let base_decode_time = match tfdt_version {
        0 => {
            if tp.len() != 8 {
                return Err(format!("tfdt v0 payload {}", tp.len()));
            }
            be32(tp, 4)? as u64
        }
        1 => {
            if tp.len() != 12 {
                return Err(format!("tfdt v1 payload {}", tp.len()));
            }
            be64(tp, 4)?
        }
        v => return Err(format!("tfdt version {}", v)),
    };
    let rp = trun.payload(d);
    let rvf = be32(rp, 0)?;
    let trun_version = (rvf >> 24) as u8;
    let rf = rvf & 0xff_ffff;
    let count = be32(rp, 4)? as usize;
    let mut o = 8;
    let mut data_offset: i64 = 0;
    if rf & 0x1 != 0 {
        data_offset = be32(rp, o)? as i32 as i64;
        o += 4;
    }
    let mut first_flags = None;
    if rf & 0x4 != 0 {
        first_flags = Some(be32(rp, o)?);
        o += 4;
    }
    let per = [0x100u32, 0x200, 0x400, 0x800].iter().filter(|&&b| rf & b != 0).count() * 4;
    if rp.len() != o + per * count {
        return Err(format!(
            "trun: payload {} bytes, but sample_count {} with flags {:#x} implies {}",
            rp.len(),
            count,
            rf,
            o + per * count
        ));
    }
    // base of offsets
    let base: i64 = if let Some(b) = base_data_offset {
        b as i64
    } else {
        // default-base-is-moof, or (legacy, first traf) the moof start as well
        moof.start as i64
    };
    let mut cur = base + data_offset;
    let mut samples = Vec::new();
    for i in 0..count {
        let mut dur = def_dur;
        let mut size = def_size;
        let mut flags = if i == 0 { first_flags.unwrap_or(def_flags) } else { def_flags };
        let mut cts = 0i64;
        if rf & 0x100 != 0 {
            dur = be32(rp, o)?;
            o += 4;
        }
        if rf & 0x200 != 0 {
            size = be32(rp, o)?;
            o += 4;
        }
        if rf & 0x400 != 0 {
            flags = be32(rp, o)?;
            o += 4;
        }
        if rf & 0x800 != 0 {
            let raw = be32(rp, o)?;
            cts = if trun_version == 0 { raw as i64 } else { raw as i32 as i64 };
            o += 4;
        }
        if cur < 0 {
            return Err("trun: negative sample offset".into());
        }
        samples.push(FragSample { offset: cur as usize, size, duration: dur, flags, cts });
        cur += size as i64;
    }
    Ok(Segment {
        seq,
        track_id,
        tfhd_flags: tf,
        tfdt_version,
        base_decode_time,
        trun_version,
        trun_flags: rf,
        samples,
        mdat: (mdat.start + mdat.hdr, mdat.end),
        moof_len: moof.size(),
        mfhd_len: mp.len(),
        tfhd_len: p.len(),
        tfdt_len: tp.len(),
        mfhd_vf,
        tfdt_flags: tvf & 0xff_ffff,
        data_offset,
    })
}
