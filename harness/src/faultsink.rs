//! Scripted fault-injecting sink for C13.

use crate::exec::CallTag;
use std::io::{self, ErrorKind, Write};
use std::sync::{Arc, Mutex};

#[derive(Clone, Debug, PartialEq, Eq, Hash, serde::Serialize, serde::Deserialize)]
pub enum Script {
    /// fail the j-th write call with the given kind (kind 6 = return Ok(0), 7 = WouldBlock, else see `kind_of`)
    FailAtCall { call: usize, kind: u8 },
    /// accept exactly `offset` bytes, then fail
    FailAtByte { offset: usize, kind: u8 },
    /// fail the j-th write call once (a hard error, not Interrupted); a sink that would accept data again afterwards
    FailOnceAtCall { call: usize, kind: u8 },
    /// per write call: 0 = accept all, 1..=200 = accept at most that many bytes (short write), 255 = Interrupted.
    /// After the pattern is exhausted everything is accepted; `terminal` optionally fails at a byte offset.
    Schedule { pattern: Vec<u8>, terminal: Option<(usize, u8)> },
    /// the j-th write call panics (a sink whose own code unwinds, e.g. `tx.send(..).unwrap()` on a closed channel)
    PanicAtCall { call: usize },
}

/// Number of failure kinds `error_of` distinguishes (kind 6 is "Ok(0)" and handled by the sink itself).
pub const N_KINDS: u8 = 20;

/// The injected error: kinds 0..=5 and 7 are built from an ErrorKind (no OS code); 8..=10 and 17 further ErrorKinds a library
/// might single out (InvalidData, InvalidInput, UnexpectedEof, Unsupported); 11..=16, 18, 19 are genuine OS errors
/// (ENOSPC, EDQUOT, EFBIG, EIO, EPIPE, EAGAIN, ENOMEM, EINTR-free EBADF) as a file or socket would return them.
pub fn error_of(k: u8) -> io::Error {
    match k {
        8 => io::Error::new(ErrorKind::InvalidData, "injected fault"),
        9 => io::Error::new(ErrorKind::InvalidInput, "injected fault"),
        10 => io::Error::new(ErrorKind::UnexpectedEof, "injected fault"),
        11 => io::Error::from_raw_os_error(28),
        12 => io::Error::from_raw_os_error(122),
        13 => io::Error::from_raw_os_error(27),
        14 => io::Error::from_raw_os_error(5),
        15 => io::Error::from_raw_os_error(32),
        16 => io::Error::from_raw_os_error(11),
        17 => io::Error::new(ErrorKind::Unsupported, "injected fault"),
        18 => io::Error::from_raw_os_error(12),
        19 => io::Error::from_raw_os_error(9),
        _ => io::Error::new(kind_of(k), "injected fault"),
    }
}

pub fn kind_of(k: u8) -> ErrorKind {
    if k == 7 {
        // what a non-blocking sink reports when it is not ready: a hard error for write_all, like all the others
        return ErrorKind::WouldBlock;
    }
    match k % 6 {
        0 => ErrorKind::Other,
        1 => ErrorKind::BrokenPipe,
        2 => ErrorKind::PermissionDenied,
        3 => ErrorKind::OutOfMemory,
        4 => ErrorKind::StorageFull,
        _ => ErrorKind::TimedOut,
    }
}

#[derive(Debug, Default)]
pub struct FaultState {
    pub accepted: Vec<u8>,
    pub write_calls: usize,
    pub interrupts: usize,
    pub shorts: usize,
    pub terminal_hit: bool,
    pub current_call: usize,
    /// write calls seen per API call index
    pub calls_by_api: Vec<(usize, usize)>,
    pub flushes: usize,
    /// write calls that reached the sink after it had returned its terminal failure
    pub writes_after_failure: usize,
}

#[derive(Clone)]
pub struct FaultSink {
    pub st: Arc<Mutex<FaultState>>,
    pub script: Script,
    /// the sink has a native gather write (like a socket or pipe): `write_vectored` treats the slices as one buffer, so a
    /// short count may end in the middle of a later slice.  false: the default `write_vectored` (first non-empty slice only)
    pub vectored: bool,
}

impl FaultSink {
    pub fn new(script: Script) -> Self {
        // half of the short-write scripts run on a sink with a native gather write (decided by the script, deterministic)
        let vectored = match &script {
            Script::Schedule { pattern, .. } => pattern.len() % 2 == 1,
            Script::FailAtByte { offset, .. } => offset % 2 == 1,
            _ => false,
        };
        FaultSink { st: Arc::new(Mutex::new(FaultState::default())), script, vectored }
    }
}

impl CallTag for FaultSink {
    fn tagger(&self) -> Box<dyn Fn(usize)> {
        let s = self.st.clone();
        Box::new(move |i| s.lock().unwrap().current_call = i)
    }
}

impl Write for FaultSink {
    fn write(&mut self, buf: &[u8]) -> io::Result<usize> {
        let mut s = self.st.lock().unwrap();
        let call_no = s.write_calls;
        s.write_calls += 1;
        let api = s.current_call;
        s.calls_by_api.push((api, buf.len()));
        if s.terminal_hit {
            s.writes_after_failure += 1;
        }
        let fail = |s: &mut FaultState, kind: u8| -> io::Result<usize> {
            s.terminal_hit = true;
            if kind == 6 {
                Ok(0)
            } else {
                Err(error_of(kind))
            }
        };
        match &self.script {
            Script::FailAtCall { call, kind } => {
                if call_no >= *call {
                    return fail(&mut s, *kind);
                }
                s.accepted.extend_from_slice(buf);
                Ok(buf.len())
            }
            Script::PanicAtCall { call } => {
                if call_no == *call {
                    s.terminal_hit = true;
                    drop(s);
                    panic!("injected panic inside the sink's write()");
                }
                s.accepted.extend_from_slice(buf);
                Ok(buf.len())
            }
            Script::FailOnceAtCall { call, kind } => {
                if call_no == *call {
                    return fail(&mut s, *kind);
                }
                s.accepted.extend_from_slice(buf);
                Ok(buf.len())
            }
            Script::FailAtByte { offset, kind } => {
                let have = s.accepted.len();
                if have >= *offset {
                    if buf.is_empty() {
                        return Ok(0);
                    }
                    return fail(&mut s, *kind);
                }
                let room = offset - have;
                let n = room.min(buf.len());
                s.accepted.extend_from_slice(&buf[..n]);
                if n < buf.len() {
                    s.shorts += 1;
                }
                Ok(n)
            }
            Script::Schedule { pattern, terminal } => {
                if let Some((off, kind)) = terminal {
                    if s.accepted.len() >= *off && !buf.is_empty() {
                        return fail(&mut s, *kind);
                    }
                }
                let step = pattern.get(call_no).copied().unwrap_or(0);
                let mut n = match step {
                    255 => {
                        s.interrupts += 1;
                        return Err(io::Error::new(ErrorKind::Interrupted, "injected interruption"));
                    }
                    0 => buf.len(),
                    k => (k as usize).min(buf.len()),
                };
                if let Some((off, _)) = terminal {
                    n = n.min(off - s.accepted.len());
                }
                if n < buf.len() {
                    s.shorts += 1;
                }
                s.accepted.extend_from_slice(&buf[..n]);
                Ok(n)
            }
        }
    }
    fn flush(&mut self) -> io::Result<()> {
        let mut s = self.st.lock().unwrap();
        s.flushes += 1;
        // a benign schedule may also interrupt the first flush (EINTR during an fsync): a caller that flushes must retry
        if let Script::Schedule { pattern, terminal: None } = &self.script {
            if s.flushes == 1 && pattern.len() % 3 == 0 {
                s.interrupts += 1;
                return Err(io::Error::new(ErrorKind::Interrupted, "injected interruption of flush"));
            }
        }
        Ok(())
    }
    fn write_vectored(&mut self, bufs: &[io::IoSlice<'_>]) -> io::Result<usize> {
        if self.vectored {
            let all: Vec<u8> = bufs.iter().flat_map(|b| b.iter().copied()).collect();
            return self.write(&all);
        }
        let first = bufs.iter().find(|b| !b.is_empty()).map(|b| &**b).unwrap_or(&[][..]);
        self.write(first)
    }
}
