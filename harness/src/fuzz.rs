//! Byte-level decoders that map libFuzzer input onto the same structured cases the proptest strategies
//! produce, plus the entry points used by /verif/fuzz/fuzz_targets/*.rs and by `verif <Cxx> --replay-fuzz`.

use crate::contract::*;
use crate::engine::{load_known, Outcome};
use crate::fragcase::{FGene, FragCase};
use crate::frag::Vp9Lite;
use crate::gen::*;
use crate::props;
use std::sync::OnceLock;

pub struct Src<'a> {
    d: &'a [u8],
    p: usize,
}
impl<'a> Src<'a> {
    pub fn new(d: &'a [u8]) -> Self {
        Src { d, p: 0 }
    }
    pub fn u8(&mut self) -> u8 {
        let v = self.d.get(self.p).copied().unwrap_or(0);
        self.p += 1;
        v
    }
    pub fn bool(&mut self) -> bool {
        self.u8() & 1 != 0
    }
    pub fn u16(&mut self) -> u16 {
        u16::from_le_bytes([self.u8(), self.u8()])
    }
    pub fn u32(&mut self) -> u32 {
        u32::from_le_bytes([self.u8(), self.u8(), self.u8(), self.u8()])
    }
    pub fn u64(&mut self) -> u64 {
        (self.u32() as u64) | ((self.u32() as u64) << 32)
    }
    pub fn left(&self) -> usize {
        self.d.len().saturating_sub(self.p)
    }
    pub fn bytes(&mut self, n: usize) -> Vec<u8> {
        let n = n.min(self.left());
        if n == 0 {
            // the cursor may already be past the end (reads beyond the input yield zeros)
            return Vec::new();
        }
        let v = self.d[self.p..self.p + n].to_vec();
        self.p += n;
        v
    }
    pub fn rest(&mut self) -> Vec<u8> {
        let n = self.left();
        self.bytes(n)
    }
    pub fn opt<T>(&mut self, f: impl FnOnce(&mut Self) -> T) -> Option<T> {
        if self.u8() & 1 != 0 {
            Some(f(self))
        } else {
            None
        }
    }
}

fn ts(s: &mut Src) -> Ts {
    match s.u8() % 14 {
        0 => Ts::NaN,
        1 => Ts::PosInf,
        2 => Ts::NegInf,
        3 => Ts::NegZero,
        4 => Ts::Negative(s.u16() as u32),
        5 => Ts::Abs(s.u32() as u64 % 2_000_000, (s.u8() % 99) as i8 - 49),
        6 | 7 | 8 | 9 => Ts::Rel([3000, 1, 1500, 90000][(s.u8() % 4) as usize] + (s.u16() as i64 % 500), (s.u8() % 99) as i8 - 49),
        10 => Ts::Rel(-((s.u16() % 5000) as i64), 0),
        11 => Ts::SubTickAbove,
        12 => Ts::GapU32((s.u8() % 3) as i8 - 1),
        _ => Ts::RelFirstVideo(s.u16() as i64 - 3000, (s.u8() % 99) as i8 - 49),
    }
}
fn vf(s: &mut Src) -> VF {
    let kind = [VKind::Empty, VKind::KeyCfg, VKind::KeyCfg, VKind::KeyNoCfg, VKind::Delta, VKind::Delta, VKind::Delta, VKind::Garbage][(s.u8() % 8) as usize].clone();
    VF { kind, size: 1 + s.u8() as u16, shape: s.u8() }
}
fn af(s: &mut Src) -> AF {
    let k = s.u8();
    let kind = match k % 10 {
        0 => AKind::Empty,
        1 | 2 => AKind::Corrupt(1 + k / 10 % 9),
        3 => AKind::Garbage,
        _ => AKind::Valid,
    };
    AF { kind, size: 1 + s.u8() as u16, shape: s.u8() }
}

/// bytes -> a valid scenario (the scenario-based properties C01 C03 C08 C09 C15 judge it with their own oracles)
pub fn valid_case(d: &[u8]) -> crate::scenario::ValidCase {
    use crate::scenario::*;
    let mut s = Src::new(d);
    let codec = s.u8() % 4;
    let audio = [0u8, 1, 2, 5, 7, 7, 3, 1][(s.u8() % 8) as usize];
    let title = s.opt(|s| {
        let n = (s.u8() % 24) as usize;
        String::from_utf8_lossy(&s.bytes(n)).to_string()
    });
    let ctime = s.opt(|s| s.u32() as u64 * 59);
    let lang = s.opt(|s| (0..3).map(|_| (b'a' + s.u8() % 26) as char).collect::<String>());
    let cfg = CfgGene {
        codec,
        audio,
        rate_idx: s.u8() % 13,
        channels: s.u8() % 8,
        width: 16 + s.u16() % 4000,
        height: 16 + s.u16() % 2100,
        fast_start: s.bool(),
        title,
        ctime,
        lang,
        av1: None,
        vp9: Vp9Key { profile: s.u8() % 4, byte4: s.u8(), sync: s.u8(), width: 1 + s.u16() as u32, height: 1 + s.u16() as u32, wlen: 1 + s.u8() % 5, hlen: 1 + s.u8() % 5, render: None, color: Some((s.u8(), None)), tail: 0 },
    };
    let v_start = match s.u8() % 5 {
        0 | 1 => 0,
        2 => s.u32() as u64,
        3 => (1u64 << (32 + s.u8() % 13)) - s.u16() as u64,
        _ => u32::from_be_bytes(*FOURCC_DICT[(s.u8() % 48) as usize]) as u64,
    };
    let a_off = match s.u8() % 4 {
        0 => 0,
        1 => s.u8() as u32,
        _ => s.u16() as u32 * 7,
    };
    let reorder = s.bool();
    let nv = (s.u8() % 20) as usize;
    let na = (s.u8() % 20) as usize;
    let size = |s: &mut Src| match s.u8() % 8 {
        0 => [127u16, 128, 255, 256, 16_383, 16_384, 65_535, 4096][(s.u8() % 8) as usize],
        1 => s.u16(),
        _ => 1 + s.u8() as u16,
    };
    let delta = |s: &mut Src| match s.u8() % 8 {
        0 => 3000u32,
        1 => 3003,
        2 => 1920,
        3 => 0,
        4 => 1,
        5 => s.u32(),
        _ => 1 + s.u16() as u32,
    };
    let mut video = Vec::new();
    for _ in 0..nv {
        if s.left() == 0 {
            break;
        }
        let ddts = delta(&mut s).max(1);
        let cts = if reorder { (s.u16() as i16 as i64) * [1, 1, 8, 3000][(s.u8() % 4) as usize] } else { 0 };
        video.push(VGene { ddts, cts, key: s.u8() % 5 == 0, size: size(&mut s), shape: s.u8(), jit: (s.u8() % 99) as i8 - 49, big: 0 });
    }
    let mut audio_g = Vec::new();
    for _ in 0..na {
        if s.left() == 0 {
            break;
        }
        audio_g.push(AGene { dpts: delta(&mut s), size: size(&mut s).min(8000), shape: s.u8(), jit: (s.u8() % 99) as i8 - 49 });
    }
    let fps_mode = if reorder { None } else { s.opt(|s| s.u8() % 12) };
    let const_rate = s.opt(|s| [3000u32, 3003, 1500, 3750][(s.u8() % 4) as usize]);
    let rejects = (0..s.u8() % 4).map(|_| (s.u8(), s.u8() % 5)).collect();
    ValidCase { cfg, v_start, a_off, video, audio: audio_g, const_rate, fps_mode, use_dts: s.u8() % 3, order: s.u8() % 24, finish: s.u8() % 5, rejects, reorder, expand: None }
}

pub fn raw_case(d: &[u8]) -> RawCase {
    let mut s = Src::new(d);
    let codec = s.u8() % 4;
    let audio = [0u8, 1, 2, 5, 7, 7, 8, 1][(s.u8() % 8) as usize];
    let rate_idx = s.u8() % 13;
    let channels = s.u8();
    let fast_start = s.bool();
    let mut ops = vec![ROp::Video { ts: Ts::Abs(0, 0), frame: VF { kind: VKind::KeyCfg, size: 20, shape: 1 }, key: true }];
    while s.left() > 2 && ops.len() < 48 {
        let op = match s.u8() % 12 {
            0 | 1 | 2 => {
                let f = vf(&mut s);
                let key = matches!(f.kind, VKind::KeyCfg | VKind::KeyNoCfg) ^ (s.u8() % 8 == 0);
                ROp::Video { ts: ts(&mut s), frame: f, key }
            }
            3 | 4 => {
                let f = vf(&mut s);
                let key = matches!(f.kind, VKind::KeyCfg | VKind::KeyNoCfg);
                ROp::VideoDts { pts: Ts::Rel(s.u16() as i64 - 9000, 0), dts: ts(&mut s), frame: f, key }
            }
            5 | 6 | 7 => ROp::Audio { ts: ts(&mut s), frame: af(&mut s) },
            8 => ROp::EncVideo { frame: vf(&mut s), ms: s.u16() as u32 },
            9 => ROp::EncAudio { frame: af(&mut s), samples: s.u16() as u32 },
            _ => ROp::Finish(s.u8() % 5),
        };
        ops.push(op);
    }
    if d.first().map(|b| b & 0x80 != 0).unwrap_or(false) {
        ops.remove(0);
    }
    RawCase { codec, video_configured: true, audio, rate_idx, channels, fast_start, title: None, ops, start: 0, repeat: vec![] }
}

pub fn frag_case(d: &[u8]) -> FragCase {
    let mut s = Src::new(d);
    let codec = s.u8() % 4;
    let via_builder = s.bool();
    let start = if s.bool() { 0 } else { s.u32() as u64 };
    let const_interval = if s.u8() % 4 == 0 { Some(1 + s.u16() as u32) } else { None };
    let mut ops = Vec::new();
    while s.left() > 1 && ops.len() < 64 {
        ops.push(match s.u8() % 10 {
            0..=5 => FGene::Write {
                ddts: [3000u32, 0, 1, 1500, 90000][(s.u8() % 5) as usize] + s.u8() as u32,
                cts: s.u16() as i64 - 20000,
                size: s.u8() as u32,
                sync: s.bool(),
                back: if s.u8() % 6 == 0 { Some(s.u16() as u32) } else { None },
            },
            6 | 7 => FGene::Flush,
            8 => [FGene::Ready, FGene::DurMs][(s.u8() % 2) as usize].clone(),
            _ => FGene::Init,
        });
    }
    FragCase { codec, via_builder, start, width: 640, height: 480, pset_len: (10, 4, 6), ops, const_interval, realistic: false }
}

pub fn av1_seq(s: &mut Src) -> Av1Seq {
    let timing = s.opt(|s| Av1Timing {
        num_units_in_display_tick: s.u32(),
        time_scale: s.u32(),
        equal_picture_interval: s.opt(|s| s.u32()),
        decoder_model: s.opt(|s| Av1DecoderModel {
            buffer_delay_length_minus_1: s.u8(),
            num_units_in_decoding_tick: s.u32(),
            buffer_removal_time_length_minus_1: s.u8(),
            frame_presentation_time_length_minus_1: s.u8(),
        }),
    });
    let n_ops = 1 + (s.u8() % 4) as usize * if s.u8() % 16 == 0 { 8 } else { 1 };
    let mut ops = Vec::new();
    for _ in 0..n_ops.min(32) {
        ops.push(Av1OpPoint { idc: s.u16(), level: s.u8(), tier: s.bool(), decoder_model: s.opt(|s| (s.u32(), s.u32(), s.bool())), display_delay: s.opt(|s| s.u8()) });
    }
    let flags = s.u16();
    Av1Seq {
        profile: s.u8(),
        still: flags & 1 != 0,
        reduced: flags & 0x3000 == 0x3000,
        reduced_level: s.u8(),
        timing,
        init_display_delay_present: flags & 2 != 0,
        ops,
        wbits_m1: s.u8(),
        hbits_m1: s.u8(),
        w_m1: s.u32(),
        h_m1: s.u32(),
        frame_id: s.opt(|s| (s.u8(), s.u8())),
        sb128: flags & 4 != 0,
        filter_intra: flags & 8 != 0,
        intra_edge: flags & 16 != 0,
        interintra: flags & 32 != 0,
        masked: flags & 64 != 0,
        warped: flags & 128 != 0,
        dual: flags & 256 != 0,
        order_hint: s.opt(|s| (s.bool(), s.bool(), s.u8())),
        sct: s.u8(),
        imv: s.u8(),
        superres: flags & 512 != 0,
        cdef: flags & 1024 != 0,
        restoration: flags & 2048 != 0,
        color: Av1Color {
            high_bitdepth: s.bool(),
            twelve_bit: s.bool(),
            mono: s.u8() % 4 == 0,
            desc: s.opt(|s| if s.u8() % 4 == 0 { (1, 13, 0) } else { (s.u8(), s.u8(), s.u8()) }),
            range: s.bool(),
            ssx: s.bool(),
            ssy: s.bool(),
            csp: s.u8(),
            sep_uv: s.bool(),
        },
        film_grain: s.bool(),
    }
    .normalised()
}

pub fn key_case_av1(d: &[u8]) -> props::c07::KeyCase {
    let mut s = Src::new(d);
    let seq = av1_seq(&mut s);
    let mut obus = Vec::new();
    let n = s.u8() % 4;
    for _ in 0..n {
        obus.push(ObuGene { typ: [2u8, 5, 15, 1][(s.u8() % 4) as usize], ext: s.bool(), ext_byte: s.u8(), has_size: true, leb_pad: s.u8() % 4, len: s.u8() as u16, fill: s.u8() % 4 });
    }
    obus.push(ObuGene { typ: 1, ext: s.bool(), ext_byte: s.u8(), has_size: true, leb_pad: s.u8() % 4, len: 0, fill: 0 });
    obus.push(ObuGene { typ: 6, ext: false, ext_byte: 0, has_size: s.bool(), leb_pad: 0, len: 10, fill: 0 });
    props::c07::KeyCase {
        codec: 2,
        width: 640,
        height: 480,
        fast_start: s.bool(),
        nals: vec![],
        lead_zeros: 0,
        trail_zeros: 0,
        av1: Av1Frame { obus, seq: Some(seq) },
        vp9: Vp9Key { profile: 0, byte4: 0, sync: 0, width: 1, height: 1, wlen: 1, hlen: 1, render: None, color: None, tail: 0 },
        second_frame: false,
        rejected_first: 0,
    }
}

pub fn parser_case(d: &[u8]) -> props::c12::ParserCase {
    let mut s = Src::new(d);
    let from = s.u8() as usize;
    let flag = s.bool();
    let num = s.u32();
    props::c12::ParserCase { data: s.rest(), from, flag, num }
}

pub fn api_case(d: &[u8]) -> props::c12::ApiCase {
    use props::c12::*;
    let mut s = Src::new(d);
    let codec = s.u8();
    let dims = |s: &mut Src| if s.u8() % 4 == 0 { s.u32() } else { 16 + s.u16() as u32 % 4000 };
    let width = dims(&mut s);
    let height = dims(&mut s);
    let audio = s.u8() % 9;
    let rate = if s.bool() { 48000 } else { s.u32() };
    let channels = if s.bool() { 2 } else { s.u16() };
    let fast_start = s.opt(|s| s.bool());
    let ctime = s.opt(|s| s.u64());
    let n_title = s.u8() as usize % 12;
    let title = s.opt(|s| String::from_utf8_lossy(&s.bytes(n_title)).to_string());
    let lang = s.opt(|s| String::from_utf8_lossy(&s.bytes(3)).to_string());
    let alias = s.bool();
    let mut ops = vec![XOp { kind: 0, a_bits: 2, b_bits: 2, data: XData::Valid(VF { kind: VKind::KeyCfg, size: 20, shape: 1 }), flag: true, num: 33 }];
    while s.left() > 3 && ops.len() < 40 {
        let kind = s.u8();
        let a_bits = if s.u8() % 3 == 0 { s.u64() } else { (s.u16() as u64) << 2 | [1u64, 2, 3][(s.u8() % 3) as usize] };
        let b_bits = if s.u8() % 3 == 0 { s.u64() } else { (s.u16() as u64) << 2 | 3 };
        let data = match s.u8() % 4 {
            0 | 1 => XData::Valid(vf(&mut s)),
            2 => {
                let n = s.u8() as usize % 40;
                XData::Bytes(s.bytes(n))
            }
            _ => XData::Audio(s.u8(), s.u8() as u16, s.u8()),
        };
        ops.push(XOp { kind, a_bits, b_bits, data, flag: s.bool(), num: s.u16() as u32 });
    }
    ApiCase { codec, video: true, width, height, fps_bits: s.u64(), audio, rate, channels, fast_start, title, ctime, lang, alias, ops }
}

pub fn frag_raw(d: &[u8]) -> props::c12::FragRaw {
    let mut s = Src::new(d);
    let codec = s.u8();
    let width = s.u32();
    let height = s.u32();
    let timescale = [90000u32, 0, 1, 1000, u32::MAX][(s.u8() % 5) as usize];
    let frag_ms = if s.bool() { 2000 } else { s.u32() };
    let n1 = s.u8() as usize % 16;
    let sps = s.bytes(n1);
    let n2 = s.u8() as usize % 8;
    let pps = s.bytes(n2);
    let vps = s.opt(|s| s.bytes(6));
    let av1 = s.opt(|s| {
        let n = s.u8() as usize % 24;
        s.bytes(n)
    });
    let vp9 = s.opt(|s| Vp9Lite {
        width: s.u32(),
        height: s.u32(),
        profile: s.u8(),
        bit_depth: s.u8(),
        color_space: s.u8(),
        transfer_function: s.u8(),
        matrix_coefficients: s.u8(),
        level: s.u8(),
        full_range_flag: s.u8(),
    });
    let via_builder = s.bool();
    let mut ops = Vec::new();
    let mut dts = 0u64;
    while s.left() > 1 && ops.len() < 64 {
        let kind = s.u8();
        let big = |s: &mut Src| match s.u8() % 8 {
            0 => s.u64(),
            1 => u64::MAX - s.u8() as u64,
            2 => (1u64 << 32) + s.u8() as u64 - 2,
            3 => 1u64 << 63,
            _ => s.u16() as u64,
        };
        let step = big(&mut s);
        if s.u8() % 5 != 0 {
            dts = dts.saturating_add(step);
        } else {
            dts = step;
        }
        let pts = if s.bool() { dts } else { big(&mut s) };
        ops.push((kind, pts, dts, s.u8() as u16, s.bool()));
    }
    props::c12::FragRaw { codec, width, height, timescale, frag_ms, sps, pps, vps, av1, vp9, via_builder, ops }
}

pub const TARGETS: &[&str] = &["c12_bytes", "c12_api", "c12_frag", "c04_history", "c07_av1", "c10_frag", "c14_annexb", "c01_scenario"];

pub fn property_of(target: &str) -> &'static str {
    match target {
        "c12_bytes" | "c12_api" | "c12_frag" => "C12",
        "c04_history" => "C04",
        "c07_av1" => "C07",
        "c10_frag" => "C10",
        "c14_annexb" => "C14",
        "c01_scenario" => "C01",
        _ => "",
    }
}

/// Evaluate one fuzz input with the same oracle the proptest checks use. Returns (property id, outcome) pairs:
/// the history targets judge several properties on the same decoded case.
pub fn evaluate(target: &str, d: &[u8]) -> Vec<(&'static str, Outcome)> {
    match target {
        "c12_bytes" => vec![("C12", props::c12::eval_parsers_inner(&parser_case(d)))],
        "c12_api" => vec![("C12", props::c12::eval_api_inner(&api_case(d)))],
        "c12_frag" => vec![("C12", props::c12::eval_frag_inner(&frag_raw(d)))],
        "c04_history" => {
            let c = raw_case(d);
            vec![("C04", props::c04::eval(&c)), ("C05", props::c05::eval(&c)), ("C06", props::c06::eval(&c))]
        }
        "c07_av1" => vec![("C07", props::c07::eval_key(&key_case_av1(d)))],
        "c10_frag" => {
            let c = frag_case(d);
            vec![("C10", props::c10::eval(&c)), ("C11", props::c11::eval(&c)), ("C02", props::c02::eval_frag(&c))]
        }
        "c01_scenario" => {
            let c = valid_case(d);
            vec![("C01", props::c01::eval(&c)), ("C03", props::c03::eval(&c)), ("C09", props::c09::eval(&c)), ("C15", props::c15::eval(&c)), ("C08", props::c08::eval(&c))]
        }
        "c14_annexb" => {
            let mut o = Outcome::default();
            props::c14::check_bytes(&mut o, d);
            vec![("C14", o)]
        }
        _ => vec![],
    }
}

fn known_sigs() -> &'static Vec<(String, String)> {
    static K: OnceLock<Vec<(String, String)>> = OnceLock::new();
    K.get_or_init(|| {
        let root = std::env::var("VERIF_ROOT").unwrap_or_else(|_| "/verif".into());
        load_known(std::path::Path::new(&root)).into_iter().map(|k| (k.property, k.sig)).collect()
    })
}

/// libFuzzer entry: panics (=> artefact) on a violation whose signature is not a listed known finding.
/// Panics inside muxide are judged only by the C12 targets; elsewhere they merely abort the case.
pub fn fuzz_entry(target: &str, d: &[u8]) {
    crate::exec::install_panic_hook();
    let only = std::env::var("VERIF_FUZZ_PROP").ok();
    for (prop, out) in evaluate(target, d) {
        if let Some(o) = &only {
            if o != prop {
                continue;
            }
        }
        for v in &out.violations {
            if known_sigs().iter().any(|(p, s)| p == prop && s == &v.sig) {
                continue;
            }
            eprintln!("FUZZ-VIOLATION property={} sig={} :: {}", prop, v.sig, v.detail);
            std::process::abort();
        }
    }
}


/// Small deterministic seed corpus (committed under fuzz/seeds): valid frames for the byte-level targets,
/// pseudo-random byte strings for the structured ones (their decoders accept any bytes).
pub fn write_seeds(root: &std::path::Path) {
    use proptest::strategy::{Strategy, ValueTree};
    use proptest::test_runner::{Config, RngSeed, TestRunner};
    let mut runner = TestRunner::new(Config { rng_seed: RngSeed::Fixed(7), failure_persistence: None, ..Config::default() });
    for t in TARGETS {
        let dir = root.join("fuzz/seeds").join(t);
        let _ = std::fs::create_dir_all(&dir);
        for i in 0..12 {
            let bytes: Vec<u8> = match *t {
                "c12_bytes" | "c14_annexb" => {
                    let c = props::c12::parser_case_strategy_for_seeds().new_tree(&mut runner).unwrap().current();
                    let mut v = vec![0u8, 0, 0, 0, 0, 0];
                    if *t == "c14_annexb" {
                        v.clear();
                    }
                    v.extend_from_slice(&c.data);
                    v
                }
                _ => proptest::collection::vec(proptest::prelude::any::<u8>(), 48..400).new_tree(&mut runner).unwrap().current(),
            };
            let _ = std::fs::write(dir.join(format!("seed{:02}", i)), bytes);
        }
    }
}
