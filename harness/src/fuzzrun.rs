//! Runs a libFuzzer campaign (binary built by `cargo +nightly fuzz build`) and folds its result into a SubReport.

use crate::engine::*;
use serde_json::{json, Value};
use std::path::PathBuf;
use std::process::Command;

fn bin(root: &std::path::Path, target: &str) -> PathBuf {
    root.join("fuzz/target/x86_64-unknown-linux-gnu/release").join(target)
}

pub fn campaign(prop: &str, target: &str, ctx: &Ctx) -> SubReport {
    let mut r = SubReport::new(&format!("libfuzzer:{}", target));
    let b = bin(&ctx.root, target);
    if !b.exists() {
        r.notes.push("libFuzzer binary not built (cargo +nightly fuzz build failed or was skipped): tier not run".into());
        return r;
    }
    let secs: u64 = std::env::var("VERIF_FUZZ_SECS").ok().and_then(|s| s.parse().ok()).unwrap_or(90);
    let work = ctx.root.join("fuzz/corpus").join(format!("{}-{}-{}", target, prop, std::process::id()));
    let arts = ctx.root.join("fuzz/artifacts").join(format!("{}-{}-{}", target, prop, std::process::id()));
    let _ = std::fs::remove_dir_all(&work);
    let _ = std::fs::create_dir_all(&work);
    let _ = std::fs::create_dir_all(&arts);
    // fresh copy of the committed seed inputs
    if let Ok(rd) = std::fs::read_dir(ctx.root.join("fuzz/seeds").join(target)) {
        for e in rd.flatten() {
            let _ = std::fs::copy(e.path(), work.join(e.file_name()));
        }
    }
    let jobs = ctx.threads.clamp(1, 16);
    let out = Command::new(&b)
        .arg(&work)
        .arg(format!("-max_total_time={}", secs))
        .arg(format!("-seed={}", (ctx.seed % 0xffff_fffe) + 1))
        .arg(format!("-fork={}", jobs))
        .arg("-ignore_crashes=0")
        .arg("-len_control=0")
        .arg("-max_len=2048")
        .arg("-print_final_stats=1")
        .arg(format!("-artifact_prefix={}/", arts.display()))
        .env("VERIF_FUZZ_PROP", prop)
        .env("VERIF_ROOT", &ctx.root)
        .output();
    let out = match out {
        Ok(o) => o,
        Err(e) => {
            r.notes.push(format!("cannot start {}: {}", b.display(), e));
            return r;
        }
    };
    let err = String::from_utf8_lossy(&out.stderr);
    // fork mode prints lines like "#12345: cov: 1234 ft: 5678 corp: 321 exec/s 4567 ..."
    let mut execs: u64 = 0;
    for line in err.lines() {
        if let Some(rest) = line.strip_prefix('#') {
            if let Some(n) = rest.split(':').next().and_then(|x| x.trim().parse::<u64>().ok()) {
                execs = execs.max(n);
            }
        }
        if let Some(v) = line.strip_prefix("stat::number_of_executed_units:") {
            execs = execs.max(v.trim().parse().unwrap_or(0));
        }
    }
    r.evaluations = execs;
    let mut corpus_n = 0u64;
    if let Ok(rd) = std::fs::read_dir(&work) {
        for e in rd.flatten() {
            if e.path().is_file() {
                corpus_n += 1;
                r.nontrivial.insert(hash_of(&e.file_name().to_string_lossy().to_string()));
                if r.samples.len() < 2 {
                    if let Ok(b) = std::fs::read(e.path()) {
                        r.samples.push(json!({"fuzz_input_hex": crate::mp4check::hex(&b, 64)}));
                    }
                }
            }
        }
    }
    r.notes.push(format!("{} s, {} jobs, corpus {} inputs (inputs that added coverage)", secs, jobs, corpus_n));
    // artefacts: re-validate through the plain (library-free) evaluation before believing them
    let mut found: Option<(PathBuf, Vec<Violation>)> = None;
    if let Ok(rd) = std::fs::read_dir(&arts) {
        for e in rd.flatten() {
            let p = e.path();
            if let Ok(data) = std::fs::read(&p) {
                let vs: Vec<Violation> = crate::fuzz::evaluate(target, &data)
                    .into_iter()
                    .filter(|(pp, _)| *pp == prop)
                    .flat_map(|(_, o)| o.violations)
                    .filter(|v| !ctx.is_known(&v.sig))
                    .collect();
                if !vs.is_empty() {
                    found = Some((p, vs));
                    break;
                } else {
                    r.notes.push(format!("artefact {} did not reproduce a {} violation on re-evaluation (ignored)", p.display(), prop));
                }
            }
        }
    }
    if let Some((p, vs)) = found {
        let data = std::fs::read(&p).unwrap_or_default();
        let case = json!({"fuzz_target": target, "input_hex": crate::mp4check::hex(&data, 1 << 20)});
        let path = write_replay(ctx, &format!("libfuzzer:{}", target), &case, &vs);
        r.failure = Some(Failure { case: Value::Null, violations: vs, replay_path: Some(path) });
    }
    let _ = std::fs::remove_dir_all(&work);
    let _ = std::fs::remove_dir_all(&arts);
    r
}

/// Replay of a saved fuzz input (hex) through the plain evaluation.
pub fn replay(prop: &str, target: &str, hex: &str) -> Result<Outcome, String> {
    let bytes: Vec<u8> = (0..hex.len() / 2).filter_map(|i| u8::from_str_radix(&hex[2 * i..2 * i + 2], 16).ok()).collect();
    let mut out = Outcome::default();
    for (p, o) in crate::fuzz::evaluate(target, &bytes) {
        if p == prop {
            out.violations.extend(o.violations);
            if o.aborted_by_panic.is_some() {
                out.aborted_by_panic = o.aborted_by_panic;
            }
        }
    }
    Ok(out)
}
