//! C02 — every emitted byte stream is a well-formed ISO-BMFF tree with the mandatory boxes.

use crate::engine::*;
use crate::exec::{run_history, CCfg};
use crate::reader::*;
use crate::scenario::*;
use proptest::strategy::Strategy;

/// Structural validation of a finished progressive file beyond what `parse_movie` enforces.
pub fn check_progressive(o: &mut Outcome, out: &[u8], cfg: &CCfg) {
    let (tree, m) = match parse_movie(out) {
        Ok(x) => x,
        Err(e) => {
            let clause = if e.starts_with("counts") { "counts" } else if e.starts_with("file") { "file" } else { "tile" };
            o.fail(clause, format!("{}.{}", clause, sig_words(&e)), e);
            return;
        }
    };
    let moov = tree.iter().find(|n| &n.typ == b"moov").unwrap();
    let traks = moov.kids_of(b"trak");
    let want = 1 + cfg.has_audio() as usize;
    if traks.len() != want {
        o.fail("moov", format!("moov.traks={}", traks.len()), format!("{} trak boxes, {} streams configured", traks.len(), want));
    }
    if moov.kids_of(b"mvhd").len() != 1 {
        o.fail("moov", "moov.mvhd_count", "moov must hold exactly one mvhd");
    }
    if moov.kids.first().map(|k| &k.typ) != Some(b"mvhd") {
        o.fail("moov", "moov.mvhd_not_first", "mvhd is not the first box of moov");
    }
    for (ti, tr) in traks.iter().enumerate() {
        let t = &m.tracks[ti];
        let minf = tr.path(&[b"mdia", b"minf"]).unwrap();
        let is_v = &t.hdlr.handler == b"vide";
        let is_a = &t.hdlr.handler == b"soun";
        if !(is_v || is_a) {
            o.fail("trak", "trak.handler", format!("trak {} handler '{}'", ti, fourcc(&t.hdlr.handler)));
        }
        if is_v && (minf.kids_of(b"vmhd").len() != 1 || minf.kid(b"smhd").is_some()) {
            o.fail("trak", "trak.vmhd", "video trak must hold exactly one vmhd and no smhd");
        }
        if is_a && (minf.kids_of(b"smhd").len() != 1 || minf.kid(b"vmhd").is_some()) {
            o.fail("trak", "trak.smhd", "audio trak must hold exactly one smhd and no vmhd");
        }
        let dref = minf.path(&[b"dinf", b"dref"]).unwrap();
        if dref.kids.len() != 1 || !matches!(&dref.kids[0].typ, b"url " | b"urn ") {
            o.fail("trak", "trak.dref", "dref must hold one url/urn entry");
        }
        if t.stsd_count != 1 {
            o.fail("counts", format!("counts.stsd={}", t.stsd_count), "stsd entry_count != 1");
        }
        if is_v != t.entry.is_visual {
            o.fail("trak", "trak.entry_kind", "sample entry kind does not match handler");
        }
        if t.entry.config_type == [0; 4] {
            o.fail("trak", "trak.no_config_box", format!("sample entry '{}' has no configuration box", fourcc(&t.entry.typ)));
        }
        let stbl = minf.kid(b"stbl").unwrap();
        for b in [b"stsd", b"stts", b"stsc"] {
            if stbl.kids_of(b).len() != 1 {
                o.fail("trak", format!("trak.{}_count", fourcc(b)), format!("stbl must hold exactly one {}", fourcc(b)));
            }
        }
        if stbl.kids_of(b"stsz").len() + stbl.kids_of(b"stz2").len() != 1 {
            o.fail("trak", "trak.stsz_count", "stbl must hold exactly one of stsz/stz2");
        }
        if stbl.kids_of(b"stco").len() + stbl.kids_of(b"co64").len() != 1 {
            o.fail("trak", "trak.stco_count", "stbl must hold exactly one of stco/co64");
        }
        if stbl.kids_of(b"stss").len() > 1 || stbl.kids_of(b"ctts").len() > 1 {
            o.fail("trak", "trak.dup_table", "duplicate stss/ctts");
        }
        if is_a && stbl.kid(b"stss").is_some() {
            // allowed by the spec, not an error
        }
    }
    let nv = m.tracks.iter().filter(|t| &t.hdlr.handler == b"vide").count();
    let na = m.tracks.iter().filter(|t| &t.hdlr.handler == b"soun").count();
    if nv != 1 || na != cfg.has_audio() as usize {
        o.fail("moov", format!("moov.kinds=v{}a{}", nv, na), "wrong number of video/audio tracks");
    }
    // mdat payload must equal the sum of all sample sizes (nothing unaccounted)
    let total: u64 = m.tracks.iter().flat_map(|t| t.sizes.iter()).map(|&s| s as u64).sum();
    match m.mdat {
        Some((lo, hi)) => {
            if (hi - lo) as u64 != total {
                o.fail("counts", "counts.mdat_vs_stsz", format!("mdat payload {} bytes, sample sizes sum to {}", hi - lo, total));
            }
        }
        None => {
            if total != 0 {
                o.fail("counts", "counts.no_mdat", format!("no mdat but sample sizes sum to {}", total));
            }
        }
    }
}

/// first three words of a message, digits removed: a stable signature fragment
pub fn sig_words(e: &str) -> String {
    let cleaned: String = e.chars().map(|c| if c.is_ascii_digit() { '#' } else { c }).collect();
    cleaned.split_whitespace().take(5).collect::<Vec<_>>().join("_")
}

pub fn eval(c: &ValidCase) -> Outcome {
    let mut o = Outcome::default();
    let l = lower(c);
    let run = run_history(&l.cfg, &l.ops);
    if let Some(p) = &run.panic {
        o.aborted_by_panic = Some(p.clone());
        return o;
    }
    if run.finished_at.is_none() {
        o.class("finish_not_ok");
        return o;
    }
    check_progressive(&mut o, &run.out, &l.cfg);
    let nv = l.vexp.len();
    let na = l.aexp.len();
    let meta = l.cfg.title.is_some() || l.cfg.ctime.is_some();
    o.nontrivial = nv >= 1 && (na > 0 || meta || l.reordered);
    if nv == 0 {
        o.class("zero_frames");
    }
    if nv == 1 {
        o.class("single_frame");
    }
    if l.cfg.has_audio() && na == 0 {
        o.class("audio_configured_no_audio_frames");
    }
    if meta {
        o.class("metadata");
    }
    if l.reordered {
        o.class("reordered");
    }
    if nv >= 200 {
        o.class("many_frames");
    }
    o.class(["h264", "h265", "av1", "vp9"][l.cfg.codec as usize % 4]);
    o
}

fn strat(t: Tier) -> proptest::strategy::BoxedStrategy<ValidCase> {
    match t {
        Tier::Quick => proptest::prop_oneof![
            8 => valid_case_strategy(20, 24),
            2 => valid_case_strategy(1, 3),
        ]
        .boxed(),
        Tier::Thorough => proptest::prop_oneof![
            8 => valid_case_strategy(40, 60),
            2 => valid_case_strategy(1, 3),
            1 => valid_case_strategy(2000, 400),
        ]
        .boxed(),
    }
}

pub fn eval_frag(c: &crate::fragcase::FragCase) -> Outcome {
    use crate::fragcase::*;
    let mut o = Outcome::default();
    let mut c = c.clone();
    // always look at the init segment at least once
    c.ops.push(FGene::Init);
    c.ops.push(FGene::Flush);
    let l = lower(&c);
    let mut scratch = Outcome::default();
    let t = run_and_check(&mut scratch, &l, false);
    if let Some(p) = &t.panic {
        o.aborted_by_panic = Some(p.clone());
        return o;
    }
    check_structure(&mut o, &t);
    o.nontrivial = t.emitted.len() >= 2;
    if t.emitted.iter().any(|e| e.expect.iter().any(|s| s.data.is_empty())) {
        o.class("empty_sample");
    }
    if t.rejected_writes > 0 {
        o.class("rejected_write");
    }
    if c.pset_len.0 > 1000 || c.pset_len.1 > 1000 || c.pset_len.2 > 1000 {
        o.class("long_parameter_set");
    }
    if c.pset_len.0 == 0 || c.pset_len.1 == 0 {
        o.class("empty_parameter_set");
    }
    o.class(["h264", "h265", "av1", "vp9"][(c.codec % 4) as usize]);
    o
}

fn strat_frag(t: Tier) -> proptest::strategy::BoxedStrategy<crate::fragcase::FragCase> {
    match t {
        Tier::Quick => crate::fragcase::frag_case_strategy(30).boxed(),
        Tier::Thorough => crate::fragcase::frag_case_strategy(80).boxed(),
    }
}

fn run_long_frag(ctx: &Ctx) -> SubReport {
    let mk = |shard: usize, shards: usize| crate::fragcase::long_cases().into_iter().enumerate().filter(move |(i, _)| i % shards.min(6) == shard && shard < 6).map(|(_, c)| c);
    let mut r = run_enumerated(ctx, "long_sequences", &mk, &eval_frag);
    r.exhaustive = false;
    r.notes.push("fixed list: 70 000- and 140 000-sample segments, 400 two-sample segments with empty flushes, a 66 MiB fragment between ordinary ones, 8 MiB+1 / 3 MiB / 1 MiB+1 / empty samples, 255/256/257/65 536 samples per segment".into());
    r
}
fn replay_long_frag(v: &serde_json::Value) -> Result<Outcome, String> {
    let c: crate::fragcase::FragCase = serde_json::from_value(v.clone()).map_err(|e| e.to_string())?;
    Ok(eval_frag(&c))
}

pub fn def() -> PropertyDef {
    PropertyDef {
        fuzz_targets: &["c10_frag"],
        id: "C02",
        level: "exploration",
        rule: "every emitted stream (progressive files from valid and degenerate histories; fragmented init and media segments \
               from generated write/flush interleavings; builder parameter sets as arbitrary bytes) is parsed by a strict recursive \
               box walker that fails on one byte of slack or overrun and checks mandatory boxes and table counts; \
               non-trivial = at least one sample plus audio, metadata, B-frames or >= 2 fragments",
        assumptions: &["the strict box grammar in src/reader.rs follows ISO/IEC 14496-12 container/FullBox/sample-entry nesting"],
        subs: vec![
            Box::new(PSub { name: "progressive", quick: 30000, thorough: 800000, strat, eval }),
            Box::new(PSub { name: "fragmented", quick: 20000, thorough: 600000, strat: strat_frag, eval: eval_frag }),
            Box::new(ESub { name: "long_sequences", run: run_long_frag, replay: replay_long_frag }),
            Box::new(LSub { name: "long_recordings", cases: long_cases_all, eval: eval, note: LONG_NOTE }),
        ],
    }
}
