use crate::engine::PropertyDef;

pub mod c01;
pub mod c02;
pub mod c03;
pub mod c08;
pub mod c09;
pub mod c15;

pub fn property(id: &str) -> Option<PropertyDef> {
    match id {
        "C01" => Some(c01::def()),
        "C02" => Some(c02::def()),
        "C03" => Some(c03::def()),
        "C08" => Some(c08::def()),
        "C09" => Some(c09::def()),
        "C15" => Some(c15::def()),
        _ => None,
    }
}
