use crate::engine::PropertyDef;

pub mod c01;
pub mod c02;
pub mod c03;
pub mod c04;
pub mod c05;
pub mod c06;
pub mod c07;
pub mod c08;
pub mod c09;
pub mod c10;
pub mod c11;
pub mod c12;
pub mod c13;
pub mod c14;
pub mod c15;
pub mod c16;
pub mod c17;
pub mod c18;
pub mod c19;
pub mod c20;

pub fn property(id: &str) -> Option<PropertyDef> {
    match id {
        "C01" => Some(c01::def()),
        "C02" => Some(c02::def()),
        "C03" => Some(c03::def()),
        "C04" => Some(c04::def()),
        "C05" => Some(c05::def()),
        "C06" => Some(c06::def()),
        "C07" => Some(c07::def()),
        "C08" => Some(c08::def()),
        "C09" => Some(c09::def()),
        "C10" => Some(c10::def()),
        "C11" => Some(c11::def()),
        "C12" => Some(c12::def()),
        "C13" => Some(c13::def()),
        "C14" => Some(c14::def()),
        "C15" => Some(c15::def()),
        "C16" => Some(c16::def()),
        "C17" => Some(c17::def()),
        "C18" => Some(c18::def()),
        "C19" => Some(c19::def()),
        "C20" => Some(c20::def()),
        _ => None,
    }
}
