use crate::engine::PropertyDef;

pub mod c01;
pub mod c02;

pub fn property(id: &str) -> Option<PropertyDef> {
    match id {
        "C01" => Some(c01::def()),
        "C02" => Some(c02::def()),
        _ => None,
    }
}
