//! C08 — fast-start changes only the layout; both layouts address samples correctly.

use crate::engine::*;
use crate::exec::run_history;
use crate::mp4check::*;
use crate::reader::{fourcc, Movie};
use crate::scenario::*;
use proptest::strategy::Strategy;

/// Layout-free description of a movie, as a list of (path, value) strings.
pub fn describe(m: &Movie, out: &[u8]) -> Vec<(String, String)> {
    let mut d = Vec::new();
    d.push(("ftyp".into(), hex(&m.ftyp, 64)));
    d.push(("mvhd".into(), format!("{:?}", m.mvhd)));
    d.push(("udta.present".into(), m.udta_present.to_string()));
    for (i, it) in m.udta_items.iter().enumerate() {
        d.push((format!("udta.item{}", i), format!("{} type={} locale={} value={}", fourcc(&it.key), it.data_type, it.locale, hex(&it.value, 6000))));
    }
    d.push(("meta_hdlr".into(), format!("{:?}", m.meta_hdlr)));
    for (ti, t) in m.tracks.iter().enumerate() {
        let p = format!("trak{}", ti);
        d.push((format!("{}.tkhd", p), format!("{:?}", t.tkhd)));
        d.push((format!("{}.mdhd", p), format!("{:?}", t.mdhd)));
        d.push((format!("{}.hdlr", p), format!("{:?}", t.hdlr)));
        d.push((format!("{}.entry.type", p), fourcc(&t.entry.typ)));
        d.push((format!("{}.entry.prefix", p), hex(&t.entry.prefix, 100)));
        d.push((format!("{}.entry.config", p), format!("{} {}", fourcc(&t.entry.config_type), hex(&t.entry.config_payload, 100000))));
        d.push((format!("{}.stts", p), format!("{:?}", t.stts)));
        d.push((format!("{}.ctts", p), format!("{:?}", t.ctts)));
        d.push((format!("{}.stss", p), format!("{:?}", t.stss)));
        d.push((format!("{}.elst", p), format!("{:?}", t.elst)));
        d.push((format!("{}.nsamples", p), t.samples.len().to_string()));
        for (si, s) in t.samples.iter().enumerate() {
            let lo = s.offset as usize;
            let hi = lo + s.size as usize;
            let bytes = if hi <= out.len() { hex(&out[lo..hi], 1 << 20) } else { "<out of file>".into() };
            d.push((format!("{}.sample{}", p, si), format!("size={} dts={} cts={} dur={} sync={} bytes={}", s.size, s.dts, s.cts, s.duration, s.sync, bytes)));
        }
    }
    d
}

pub fn top_order(m: &Movie) -> Vec<String> {
    m.top.iter().map(|t| fourcc(&t.0)).collect()
}

pub fn eval(c: &ValidCase) -> Outcome {
    let mut o = Outcome::default();
    let mut c_on = c.clone();
    c_on.cfg.fast_start = true;
    let mut c_off = c.clone();
    c_off.cfg.fast_start = false;
    let l_on = lower(&c_on);
    let l_off = lower(&c_off);
    let r_on = run_history(&l_on.cfg, &l_on.ops);
    let r_off = run_history(&l_off.cfg, &l_off.ops);
    if let Some(p) = r_on.panic.as_ref().or(r_off.panic.as_ref()) {
        o.aborted_by_panic = Some(p.clone());
        return o;
    }
    if r_on.finished_at.is_none() || r_off.finished_at.is_none() {
        if r_on.finished_at.is_some() != r_off.finished_at.is_some() {
            o.fail("same_returns", "same_returns.finish", "finish succeeded in one layout only");
        }
        o.class("finish_not_ok");
        return o;
    }
    if r_on.results.iter().map(|r| r.is_ok()).ne(r_off.results.iter().map(|r| r.is_ok())) {
        o.fail("same_returns", "same_returns.calls", "accept/reject decisions differ between the two layouts");
        return o;
    }
    let (p_on, p_off) = match (parse(&r_on.out), parse(&r_off.out)) {
        (Ok(a), Ok(b)) => (a, b),
        (a, b) => {
            o.fail(
                "parse",
                format!("parse.on={}.off={}", a.is_ok(), b.is_ok()),
                format!("on: {:?} off: {:?}", a.err(), b.err()),
            );
            return o;
        }
    };
    let (v_on, a_on) = accepted(&l_on, &r_on);
    let (v_off, a_off) = accepted(&l_off, &r_off);
    let has_samples = !v_on.is_empty() || !a_on.is_empty();
    // order
    let ord_on = top_order(&p_on.movie);
    let ord_off = top_order(&p_off.movie);
    let want_on: Vec<&str> = vec!["ftyp", "moov", "mdat"];
    let want_off: Vec<&str> = if ord_off.len() == 2 { vec!["ftyp", "moov"] } else { vec!["ftyp", "mdat", "moov"] };
    if ord_on != want_on && !(ord_on == ["ftyp", "moov"] && !has_samples) {
        o.fail("order", format!("order.on={}", ord_on.join("+")), format!("fast-start layout has top-level boxes {:?}", ord_on));
    }
    if ord_off != want_off || (has_samples && ord_off.len() != 3) {
        o.fail("order", format!("order.off={}", ord_off.join("+")), format!("standard layout has top-level boxes {:?}", ord_off));
    }
    let mut o1 = Outcome::default();
    check_samples(&mut o1, &r_on.out, &p_on, &v_on, &a_on, &l_on.cfg, ":fast_start");
    let mut o2 = Outcome::default();
    check_samples(&mut o2, &r_off.out, &p_off, &v_off, &a_off, &l_off.cfg, ":standard");
    // a failure that is identical in both layouts is C01's, not a layout problem; report only asymmetric ones
    let s1: Vec<String> = o1.violations.iter().map(|v| v.clause.clone()).collect();
    let s2: Vec<String> = o2.violations.iter().map(|v| v.clause.clone()).collect();
    if s1 != s2 {
        for v in o1.violations.into_iter().chain(o2.violations.into_iter()) {
            o.fail("resolve", format!("resolve.{}", v.sig), v.detail);
        }
    } else if !s1.is_empty() {
        // the same failure in both layouts is C01's finding as well, but the statement is explicit that BOTH layouts must
        // address every sample correctly: reported here too, marked as layout independent
        o.class("layout_independent_resolution_failure(also C01)");
        if let Some(v) = o1.violations.into_iter().next() {
            let base = v.sig.split(':').next().unwrap_or("").to_string();
            o.fail("resolve", format!("resolve.{}:both_layouts", base), v.detail);
        }
    }
    // same description
    let d_on = describe(&p_on.movie, &r_on.out);
    let d_off = describe(&p_off.movie, &r_off.out);
    if d_on != d_off {
        let mut diff = String::new();
        let mut key = String::from("len");
        for (a, b) in d_on.iter().zip(d_off.iter()) {
            if a != b {
                key = a.0.split('.').last().unwrap_or("").trim_end_matches(char::is_numeric).to_string();
                diff = format!("{}: on={} off={}", a.0, clip(&a.1, 200), clip(&b.1, 200));
                break;
            }
        }
        o.fail("same_description", format!("same_description.{}", key), diff);
    }
    let moov_len = p_on.movie.top.iter().find(|t| &t.0 == b"moov").map(|t| t.2 - t.1).unwrap_or(0);
    let nsamp = v_on.len() + a_on.len();
    o.nontrivial = nsamp >= 2 && moov_len >= 1024;
    if !a_on.is_empty() {
        o.class("audio");
    }
    if l_on.cfg.title.as_ref().map(|t| t.len() >= 256).unwrap_or(false) {
        o.class("metadata_ge_256B");
    }
    if l_on.reordered {
        o.class("b_frames");
    }
    if nsamp == 0 {
        o.class("zero_samples");
    }
    if l_on.cfg.has_audio() && a_on.is_empty() {
        o.class("audio_configured_zero_audio_frames");
    }
    if moov_len >= 65536 {
        o.class("moov_ge_64K");
    }
    o
}

fn strat(t: Tier) -> proptest::strategy::BoxedStrategy<ValidCase> {
    let long_title = |maxv: usize, maxa: usize| {
        (valid_case_strategy(maxv, maxa), "\\PC{0,1500}").prop_map(|(mut c, t)| {
            c.cfg.title = Some(t);
            c
        })
    };
    match t {
        Tier::Quick => proptest::prop_oneof![
            6 => valid_case_strategy(24, 30),
            3 => long_title(24, 30),
            1 => valid_case_strategy(300, 100),
        ]
        .boxed(),
        Tier::Thorough => proptest::prop_oneof![
            6 => valid_case_strategy(40, 60),
            3 => long_title(40, 60),
            1 => valid_case_strategy(3000, 600),
        ]
        .boxed(),
    }
}

/// The layout that puts moov first must keep its chunk offsets correct (or refuse) when they approach 2^32: C16's limit case
/// for fast start, judged here for the offsets clause.
fn limit_cases(t: Tier) -> Vec<crate::props::c16::LimitCase> {
    crate::props::c16::limit_cases(t).into_iter().filter(|c| c.fast_start).collect()
}
fn eval_limit(c: &crate::props::c16::LimitCase) -> Outcome {
    let inner = crate::props::c16::eval_limit(c);
    let mut o = Outcome::default();
    o.nontrivial = inner.nontrivial;
    o.aborted_by_panic = inner.aborted_by_panic;
    for mut v in inner.violations {
        if v.clause == "stco" || v.clause == "box_size" {
            v.clause = "resolve".into();
            v.sig = format!("resolve.{}", v.sig);
            o.violations.push(v);
        }
    }
    o
}

pub fn def() -> PropertyDef {
    PropertyDef {
        fuzz_targets: &["c01_scenario"],
        id: "C08",
        level: "exploration",
        rule: "each generated history is muxed twice (fast start on / off), titles of 0..~5000 bytes move the mdat; top-level order, \
               per-layout sample resolution and equality of the layout-free description (tracks, headers, config, timing, samples with bytes, udta) \
               are compared; non-trivial = >=2 samples and moov >= 1 KiB",
        assumptions: &["a resolution failure that is identical in both layouts is attributed to C01 and only counted here"],
        subs: vec![Box::new(PSub { name: "layouts", quick: 8000, thorough: 250000, strat, eval }), Box::new(LSub { name: "long_recordings", cases: long_cases_all, eval, note: LONG_NOTE }), Box::new(LSub { name: "four_gib_limit", cases: limit_cases, eval: eval_limit, note: "the fast-start cases of C16\'s four_gib_limit list (chunk offsets approaching 2^32 behind ftyp + moov)" })],
    }
}
