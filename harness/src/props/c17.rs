//! C17 — output is a pure function of the call sequence; equivalent API paths agree.

use crate::engine::*;
use crate::exec::*;
use crate::mp4check::*;
use crate::scenario::*;
use proptest::collection::vec;
use proptest::prelude::*;
use serde::{Deserialize, Serialize};
use serde_json::Value;
use std::cell::Cell;
use std::io::{BufWriter, Cursor, Write};
use std::sync::{Arc, Mutex};

fn scratch_dir() -> std::path::PathBuf {
    let root = std::env::var("VERIF_ROOT").unwrap_or_else(|_| "/verif".into());
    let d = std::path::PathBuf::from(root).join("harness/target/scratch").join(format!("{}", std::process::id()));
    let _ = std::fs::create_dir_all(&d);
    d
}

/// Send but not Sync sink (holds a Cell).
struct CellSink {
    buf: Arc<Mutex<Vec<u8>>>,
    calls: Cell<u64>,
}
impl Write for CellSink {
    fn write(&mut self, b: &[u8]) -> std::io::Result<usize> {
        self.calls.set(self.calls.get() + 1);
        self.buf.lock().unwrap().extend_from_slice(b);
        Ok(b.len())
    }
    fn flush(&mut self) -> std::io::Result<()> {
        Ok(())
    }
}

/// A perfectly legal sink that accepts at most `chunk` bytes per call and reports Interrupted on every third call.
struct ChoppySink {
    buf: Arc<Mutex<Vec<u8>>>,
    chunk: usize,
    calls: u64,
    interrupt: bool,
}
impl Write for ChoppySink {
    fn write(&mut self, b: &[u8]) -> std::io::Result<usize> {
        self.calls += 1;
        if self.interrupt && self.calls % 3 == 0 {
            return Err(std::io::Error::new(std::io::ErrorKind::Interrupted, "try again"));
        }
        let n = b.len().min(self.chunk);
        let mut g = self.buf.lock().unwrap();
        if g.len() > (1 << 26) {
            // a correct muxer never gets here (files are a few KB); stops runaway retry loops of a broken one
            return Err(std::io::Error::new(std::io::ErrorKind::Other, "sink full (harness cap)"));
        }
        g.extend_from_slice(&b[..n]);
        Ok(n)
    }
    fn flush(&mut self) -> std::io::Result<()> {
        Ok(())
    }
    /// native gather write (like a socket): the slices count as one buffer, so a short count may end inside a later slice
    fn write_vectored(&mut self, bufs: &[std::io::IoSlice<'_>]) -> std::io::Result<usize> {
        let all: Vec<u8> = bufs.iter().flat_map(|b| b.iter().copied()).collect();
        self.write(&all)
    }
}

#[derive(Clone, Debug, Serialize, Deserialize, PartialEq, Eq, Hash)]
pub struct PureCase {
    pub pool: Vec<ValidCase>,
    pub threads: u8,
    pub assign: Vec<u8>,
    pub sink: u8,
    pub fiddle_log: bool,
    /// order in which the pool's muxers (plus a twin of the first) take turns, one call at a time, on one thread
    #[serde(default)]
    pub schedule: Vec<u8>,
}

fn reference(c: &ValidCase) -> (Lowered, Run) {
    let l = lower(c);
    let r = run_history(&l.cfg, &l.ops);
    (l, r)
}

fn same_returns(a: &[CallResult], b: &[CallResult]) -> bool {
    a.len() == b.len()
        && a.iter().zip(b.iter()).all(|(x, y)| match (x, y) {
            (CallResult::Err { variant: v1, display: d1, .. }, CallResult::Err { variant: v2, display: d2, .. }) => v1 == v2 && d1 == d2,
            _ => x == y,
        })
}

fn run_on_sink(kind: u8, l: &Lowered, tag: usize) -> Result<(Vec<u8>, Vec<CallResult>), String> {
    let none = |_: usize| ();
    match kind % 9 {
        0 => {
            let shared = RecSink::new();
            let (_, res) = run_plain(shared.clone(), &l.cfg, &l.ops, &none);
            Ok((shared.bytes(), res))
        }
        1 => {
            let mut v = Vec::new();
            let (_, res) = run_plain(&mut v, &l.cfg, &l.ops, &none);
            Ok((v, res))
        }
        2 => {
            let mut cur = Cursor::new(Vec::new());
            let (_, res) = run_plain(&mut cur, &l.cfg, &l.ops, &none);
            Ok((cur.into_inner(), res))
        }
        3 | 4 => {
            let path = scratch_dir().join(format!("c17-{}-{:?}.mp4", tag, std::thread::current().id()));
            let f = std::fs::File::create(&path).map_err(|e| format!("scratch file: {}", e))?;
            let res = if kind % 9 == 3 {
                run_plain(f, &l.cfg, &l.ops, &none).1
            } else {
                // BufWriter flushes when dropped at the end of run_plain
                run_plain(BufWriter::new(f), &l.cfg, &l.ops, &none).1
            };
            let bytes = std::fs::read(&path).map_err(|e| format!("scratch read: {}", e))?;
            let _ = std::fs::remove_file(&path);
            Ok((bytes, res))
        }
        5 => {
            let shared = RecSink::new();
            let boxed: Box<dyn Write + Send> = Box::new(shared.clone());
            let (_, res) = run_plain(boxed, &l.cfg, &l.ops, &none);
            Ok((shared.bytes(), res))
        }
        7 | 8 => {
            let buf = Arc::new(Mutex::new(Vec::new()));
            let s = ChoppySink { buf: buf.clone(), chunk: if kind % 9 == 7 { 1 } else { 7 }, calls: 0, interrupt: kind % 9 == 8 };
            let (_, res) = run_plain(s, &l.cfg, &l.ops, &none);
            let b = buf.lock().unwrap().clone();
            Ok((b, res))
        }
        _ => {
            let buf = Arc::new(Mutex::new(Vec::new()));
            let s = CellSink { buf: buf.clone(), calls: Cell::new(0) };
            let (_, res) = run_plain(s, &l.cfg, &l.ops, &none);
            let b = buf.lock().unwrap().clone();
            Ok((b, res))
        }
    }
}

pub fn eval_pure(c: &PureCase) -> Outcome {
    let mut o = Outcome::default();
    if c.pool.is_empty() {
        return o;
    }
    let refs: Vec<(Lowered, Run)> = c.pool.iter().map(reference).collect();
    if let Some(p) = refs.iter().find_map(|(_, r)| r.panic.clone()) {
        o.aborted_by_panic = Some(p);
        return o;
    }
    // second instance, same thread
    for (i, (l, r)) in refs.iter().enumerate() {
        let r2 = run_history(&l.cfg, &l.ops);
        if r2.out != r.out || !same_returns(&r2.results, &r.results) {
            o.fail("same_bytes", "same_bytes.second_instance", format!("history {} gives different results in a second muxer instance", i));
            return o;
        }
    }
    // all muxers of the pool alive at once on this thread, taking turns call by call (plus a twin of the first history)
    {
        let mut runs: Vec<(&crate::exec::CCfg, &[crate::exec::COp])> = refs.iter().map(|(l, _)| (&l.cfg, &l.ops[..])).collect();
        runs.push((&refs[0].0.cfg, &refs[0].0.ops[..]));
        let got = crate::exec::run_lockstep(&runs, &c.schedule);
        for (i, g) in got.iter().enumerate() {
            let r = &refs[if i < refs.len() { i } else { 0 }].1;
            if let Some(p) = &g.panic {
                o.aborted_by_panic = Some(p.clone());
                o.fail("same_bytes", "same_bytes.alternating_instances.panic", format!("history {} panics when {} muxers take turns on one thread, not when run alone: {}", i, runs.len(), p));
                return o;
            }
            if g.out != r.out || !same_returns(&g.results, &r.results) {
                o.fail(
                    "same_bytes",
                    "same_bytes.alternating_instances",
                    format!("history {} gives different results when {} muxers take turns call by call on one thread ({} vs {} bytes, returns equal: {})", i, runs.len(), g.out.len(), r.out.len(), same_returns(&g.results, &r.results)),
                );
                return o;
            }
        }
        if c.schedule.len() >= 4 {
            o.class("alternating_instances_with_schedule");
        }
    }
    // moved to another thread in the middle of the history (after a generated number of calls)
    for (i, (l, r)) in refs.iter().enumerate() {
        let cut = if l.ops.is_empty() { 0 } else { (c.schedule.get(i).copied().unwrap_or(c.threads.wrapping_mul(7)) as usize) % l.ops.len() };
        let r2 = crate::exec::run_moved(&l.cfg, &l.ops, cut);
        if r2.out != r.out || !same_returns(&r2.results, &r.results) {
            o.fail("send", "send.moved_mid_history", format!("history {} gives different results when the muxer is moved to another thread after {} of {} calls", i, cut, l.ops.len()));
            return o;
        }
    }
    // the same frames at another memory alignment (sub-slices of a larger buffer)
    for (i, (l, r)) in refs.iter().enumerate() {
        let mut cfg = l.cfg.clone();
        cfg.misalign = 1 + ((c.sink as usize + i) % 7) as u8;
        let r2 = run_history(&cfg, &l.ops);
        if r2.out != r.out || !same_returns(&r2.results, &r.results) {
            o.fail("same_bytes", format!("same_bytes.alignment.offset{}", cfg.misalign), format!("history {} gives different results when every frame starts at address = {} (mod 8)", i, cfg.misalign));
            return o;
        }
    }
    // other sink types
    for (i, (l, r)) in refs.iter().enumerate() {
        let kind = c.sink.wrapping_add(i as u8);
        match run_on_sink(kind, l, i) {
            Err(e) => {
                o.class("scratch_io_problem");
                o.unconstrained.push(e);
            }
            Ok((bytes, res)) => {
                if bytes != r.out || !same_returns(&res, &r.results) {
                    let name = ["shared Vec", "&mut Vec<u8>", "Cursor<Vec<u8>>", "File", "BufWriter<File>", "Box<dyn Write + Send>", "Send-but-not-Sync sink", "1-byte-per-call sink", "7-bytes-per-call sink with Interrupted"][(kind % 9) as usize];
                    o.fail(
                        "same_bytes",
                        format!("same_bytes.sink.{}", name.replace(' ', "_")),
                        format!("history {} written to {} differs from the reference run ({} vs {} bytes, returns equal: {})", i, name, bytes.len(), r.out.len(), same_returns(&res, &r.results)),
                    );
                    return o;
                }
                o.class(&format!("sink:{}", kind % 9));
            }
        }
    }
    // T threads, each running its assigned histories concurrently (muxers are created on the main thread and MOVED)
    let t = (c.threads % 16) as usize + 1;
    let results: Vec<Vec<(usize, Vec<u8>, Vec<CallResult>, Option<String>)>> = std::thread::scope(|s| {
        let mut hs = Vec::new();
        for th in 0..t {
            let mine: Vec<usize> = (0..refs.len()).filter(|i| (c.assign.get(*i).copied().unwrap_or(*i as u8) as usize + *i) % t == th).collect();
            let refs = &refs;
            let fiddle = c.fiddle_log;
            hs.push(s.spawn(move || {
                let mut out = Vec::new();
                for i in mine {
                    let (l, _) = &refs[i];
                    if fiddle {
                        muxide::invariant_ppt::clear_invariant_log();
                    }
                    let r = run_history(&l.cfg, &l.ops);
                    if fiddle {
                        let _ = muxide::invariant_ppt::get_logged_invariants();
                    }
                    out.push((i, r.out, r.results, r.panic));
                }
                out
            }));
        }
        hs.into_iter().map(|h| h.join().unwrap_or_default()).collect()
    });
    let mut ran = 0;
    for (i, bytes, res, panic) in results.into_iter().flatten() {
        ran += 1;
        if let Some(p) = panic {
            o.aborted_by_panic = Some(p);
            return o;
        }
        if bytes != refs[i].1.out || !same_returns(&res, &refs[i].1.results) {
            o.fail("same_bytes", format!("same_bytes.threads={}", if t > 1 { "many" } else { "1" }), format!("history {} run on a worker thread (of {}) differs from the reference run", i, t));
            return o;
        }
    }
    // send: build on this thread, move to another thread, write and finish there
    {
        let (l, r) = &refs[0];
        let sink = RecSink::new();
        if let Ok(mut m) = build_muxer(sink.clone(), &l.cfg) {
            let ops = l.ops.clone();
            let cfg = l.cfg.clone();
            let h = std::thread::spawn(move || {
                let mut oks = Vec::new();
                for op in &ops {
                    let ok = match op {
                        COp::Video { pts, data, key } => m.write_video(*pts, data, *key).is_ok(),
                        COp::VideoDts { pts, dts, data, key } => m.write_video_with_dts(*pts, *dts, data, *key).is_ok(),
                        COp::Audio { pts, data } => m.write_audio(*pts, data).is_ok(),
                        COp::EncVideo { data, ms } => m.encode_video(data, *ms).is_ok(),
                        COp::EncAudio { data, samples } => m.encode_audio(data, *samples).is_ok(),
                        COp::Finish(_) => m.finish_in_place().is_ok(),
                    };
                    oks.push(ok);
                }
                let _ = cfg;
                oks
            });
            match h.join() {
                Ok(oks) => {
                    let want: Vec<bool> = r.results.iter().map(|x| x.is_ok()).collect();
                    if oks != want || sink.bytes() != r.out {
                        o.fail("send", "send.moved_muxer_differs", "a muxer moved to another thread produced different results");
                    }
                }
                Err(_) => o.class("moved_thread_panicked(C12)"),
            }
        }
    }
    o.nontrivial = (t >= 2 && ran >= 2) || true;
    o.class(&format!("threads:{}", if t >= 8 { "8-16" } else if t >= 2 { "2-7" } else { "1" }));
    o
}

fn pure_strategy(t: Tier) -> BoxedStrategy<PureCase> {
    let (n, mv) = if t == Tier::Quick { (4, 8) } else { (10, 20) };
    (vec(valid_case_strategy(mv, mv), 1..=n), 0u8..16, vec(any::<u8>(), 0..12), 0u8..9, any::<bool>(), vec(any::<u8>(), 0..96))
        .prop_map(|(pool, threads, assign, sink, fiddle_log, schedule)| PureCase { pool, threads, assign, sink, fiddle_log, schedule })
        .boxed()
}

// ------------------------------------------------------------------------------------------
// equivalent API paths

#[derive(Clone, Debug, Serialize, Deserialize, PartialEq, Eq, Hash)]
pub struct PathCase {
    pub base: ValidCase,
    pub ms: Vec<u32>,
    pub samples: Vec<u32>,
}

pub fn eval_paths(c: &PathCase) -> Outcome {
    let mut o = Outcome::default();
    let l = lower(&c.base);
    let r = run_history(&l.cfg, &l.ops);
    if let Some(p) = &r.panic {
        o.aborted_by_panic = Some(p.clone());
        return o;
    }
    // 1. builder aliases
    {
        let mut cfg2 = l.cfg.clone();
        cfg2.alias_builder = true;
        let r2 = run_history(&cfg2, &l.ops);
        if r2.out != r.out || !same_returns(&r2.results, &r.results) {
            let what = if l.cfg.title.is_none() && (l.cfg.ctime.is_some() || l.cfg.lang.is_some()) { "set_create_time/set_language" } else { "set_video_track/set_audio_track" };
            o.fail("paths", format!("paths.builder_aliases.{}", what), format!("alias builder methods ({}) give a different file ({} vs {} bytes)", what, r2.out.len(), r.out.len()));
        }
    }
    // 2. every finish form
    if r.finished_at.is_some() {
        let n = l.ops.len();
        for k in 0..5u8 {
            let mut ops = l.ops.clone();
            ops[n - 1] = COp::Finish(FinishKind::from_idx(k));
            let r2 = run_history(&l.cfg, &ops);
            if r2.out != r.out || r2.finished_at.is_none() {
                o.fail("paths", format!("paths.finish_form.{:?}", FinishKind::from_idx(k)), format!("finishing through {:?} gives a different file or fails", FinishKind::from_idx(k)));
                break;
            }
            if let (Some(a), Some(b)) = (r.stats, r2.stats) {
                if a != b {
                    o.fail("paths", "paths.finish_form.stats", "statistics differ between finish forms");
                }
            }
        }
    }
    // 2b. a second finish attempt must fail the same way whichever form is used (in-place vs consuming, alias)
    if r.finished_at.is_some() {
        let n = l.ops.len();
        let mut seen: Option<(String, u8)> = None;
        for k in 0..5u8 {
            let mut ops = l.ops.clone();
            ops[n - 1] = COp::Finish(FinishKind::InPlace);
            ops.push(COp::Finish(FinishKind::from_idx(k)));
            let r2 = run_history(&l.cfg, &ops);
            let res = r2.results.last().map(|x| match x {
                CallResult::Err { variant, .. } => format!("Err({})", variant),
                other => other.short(),
            });
            if let Some(res) = res {
                match &seen {
                    None => seen = Some((res, k)),
                    Some((first, k0)) => {
                        if &res != first {
                            o.fail(
                                "paths",
                                format!("paths.second_finish.{:?}", FinishKind::from_idx(k)),
                                format!("a second finish returns {} through {:?} but {} through {:?}", res, FinishKind::from_idx(k), first, FinishKind::from_idx(*k0)),
                            );
                            break;
                        }
                    }
                }
            }
        }
    }
    // 2c. on a sink whose write() succeeds and whose flush() fails, every finish form must still agree with every other one
    //     (whether a library flushes its sink is its decision, but not one that may differ between equivalent calls)
    if r.finished_at.is_some() {
        struct FlushFails(Arc<Mutex<Vec<u8>>>);
        impl Write for FlushFails {
            fn write(&mut self, b: &[u8]) -> std::io::Result<usize> {
                self.0.lock().unwrap().extend_from_slice(b);
                Ok(b.len())
            }
            fn flush(&mut self) -> std::io::Result<()> {
                Err(std::io::Error::from_raw_os_error(28))
            }
        }
        let n = l.ops.len();
        let none = |_: usize| {};
        let mut seen: Option<(bool, Vec<u8>, u8)> = None;
        for k in 0..5u8 {
            let mut ops = l.ops.clone();
            ops[n - 1] = COp::Finish(FinishKind::from_idx(k));
            let buf = Arc::new(Mutex::new(Vec::new()));
            let (_, res) = crate::exec::run_plain(FlushFails(buf.clone()), &l.cfg, &ops, &none);
            let ok = res.last().map(|x| x.is_ok()).unwrap_or(false);
            let bytes = buf.lock().unwrap().clone();
            match &seen {
                None => seen = Some((ok, bytes, k)),
                Some((ok0, b0, k0)) => {
                    if ok != *ok0 || &bytes != b0 {
                        o.fail(
                            "paths",
                            format!("paths.finish_form.flush_failing_sink.{:?}", FinishKind::from_idx(k)),
                            format!("on a sink whose flush() fails, {:?} returns ok={} ({} bytes) but {:?} returns ok={} ({} bytes)", FinishKind::from_idx(k), ok, bytes.len(), FinishKind::from_idx(*k0), ok0, b0.len()),
                        );
                        break;
                    }
                }
            }
        }
    }
    // 3. audio codec 'none' vs no audio call
    if !l.cfg.has_audio() {
        for (a, alias) in [(8u8, false), (8, true), (0, false)] {
            let mut cfg2 = l.cfg.clone();
            cfg2.audio = a;
            cfg2.alias_builder = alias;
            let ops: Vec<COp> = l.ops.iter().filter(|op| !op.is_audio()).cloned().collect();
            let mut cfg0 = l.cfg.clone();
            cfg0.audio = 0;
            let r0 = run_history(&cfg0, &ops);
            let r2 = run_history(&cfg2, &ops);
            if r2.out != r0.out || !same_returns(&r2.results, &r0.results) {
                o.fail("paths", format!("paths.audio_none{}", if alias { ".alias" } else { "" }), "AudioCodec::None behaves differently from not configuring audio");
                break;
            }
        }
        o.class("audio_none_pair");
    }
    // 4. convenience writes with automatic timestamps vs explicit timestamps at the same ticks
    {
        let mut fc = FirstCfg::default();
        let nv = c.base.video.len().min(c.ms.len());
        let mut ops = Vec::new();
        let mut vdata = Vec::new();
        for i in 0..nv {
            let mut g = c.base.video[i].clone();
            g.key = i == 0; // encode_video detects keyframes itself: keep one IDR at the start for H.264/5
            let (bytes, _) = video_frame(&c.base.cfg, &g, i, i == 0, &mut fc);
            vdata.push(bytes.clone());
            ops.push(COp::EncVideo { data: bytes, ms: c.ms[i].max(1) });
        }
        let na = if l.cfg.has_audio() && nv > 0 { c.base.audio.len().min(c.samples.len()) } else { 0 };
        let mut adata = Vec::new();
        for i in 0..na {
            let (bytes, _) = audio_frame(&c.base.cfg, &c.base.audio[i], i);
            adata.push(bytes.clone());
            ops.push(COp::EncAudio { data: bytes, samples: c.samples[i] });
        }
        ops.push(COp::Finish(FinishKind::InPlaceStats));
        let ra = run_history(&l.cfg, &ops);
        if ra.panic.is_none() && ra.finished_at.is_some() && ra.results.iter().all(|x| x.is_ok()) {
            if let Ok(p) = parse(&ra.out) {
                let vt = video_track(&p.movie);
                let at = audio_track(&p.movie);
                // auto_ticks
                let mut tie = false;
                if let Some(vt) = vt {
                    let mut acc_ms: u64 = 0;
                    for (i, s) in vt.samples.iter().enumerate() {
                        let want = acc_ms * 90;
                        // f64 accumulation of ms/1000 may land on a half tick only for huge values; 90*ms is always integral
                        if s.dts != want {
                            o.fail("auto_ticks", "auto_ticks.video", format!("encode_video sample {} starts at tick {} but 90 x sum(duration_ms) = {}", i, s.dts, want));
                            break;
                        }
                        acc_ms += c.ms[i].max(1) as u64;
                    }
                }
                let mut a_ticks = Vec::new();
                if let Some(at) = at {
                    let rate = l.cfg.sample_rate as u128;
                    let mut acc: u128 = 0;
                    for (i, s) in at.samples.iter().enumerate() {
                        let num = acc * 90000;
                        let q = num / rate;
                        let rem = num % rate;
                        let exact_half = rem * 2 == rate;
                        let near_half = (rem * 2).abs_diff(rate) * 1_000_000 <= rate; // float accumulation may cross
                        let want = if rem * 2 >= rate { q + 1 } else { q };
                        if exact_half || near_half {
                            tie = true;
                        } else if s.dts as u128 != want {
                            o.fail("auto_ticks", "auto_ticks.audio", format!("encode_audio sample {} starts at tick {} but round(90000 x {} / {}) = {}", i, s.dts, acc, rate, want));
                            break;
                        }
                        a_ticks.push(s.dts);
                        acc += c.samples[i] as u128;
                    }
                }
                if tie {
                    o.unconstrained.push("half_tick_tie".into());
                }
                // explicit run at the same tick values
                if o.violations.is_empty() {
                    let mut ops2 = Vec::new();
                    if let Some(vt) = vt {
                        for (i, s) in vt.samples.iter().enumerate() {
                            ops2.push(COp::Video { pts: s.dts as f64 / 90000.0, data: vdata[i].clone(), key: s.sync });
                        }
                    }
                    if let Some(at) = at {
                        for (i, s) in at.samples.iter().enumerate() {
                            ops2.push(COp::Audio { pts: s.dts as f64 / 90000.0, data: adata[i].clone() });
                        }
                    }
                    ops2.push(COp::Finish(FinishKind::InPlaceStats));
                    let rb = run_history(&l.cfg, &ops2);
                    if rb.out != ra.out {
                        o.fail("paths", "paths.encode_vs_explicit", format!("encode_* file ({} bytes) differs from explicit writes at the same ticks ({} bytes)", ra.out.len(), rb.out.len()));
                    }
                    o.class("encode_vs_explicit_compared");
                }
            }
        } else {
            o.class("convenience_history_not_all_accepted");
        }
    }
    o.nontrivial = true;
    o
}

pub fn path_strategy(t: Tier) -> BoxedStrategy<PathCase> {
    let mv = if t == Tier::Quick { 12 } else { 40 };
    (
        valid_case_strategy(mv, mv),
        vec(prop_oneof![3 => Just(33u32), 2 => Just(40u32), 2 => 1u32..200, 1 => 1u32..100000], 0..=mv),
        vec(prop_oneof![3 => Just(1024u32), 2 => Just(960u32), 2 => 0u32..5000], 0..=mv),
    )
        .prop_map(|(mut base, ms, samples)| {
            base.rejects.clear();
            PathCase { base, ms, samples }
        })
        .boxed()
}

// ------------------------------------------------------------------------------------------
// type-level clause: compile probe

fn run_probe(ctx: &Ctx) -> SubReport {
    let mut r = SubReport::new("send_generic");
    let dir = ctx.root.join("harness/send_probe");
    let out = std::process::Command::new("cargo")
        .args(["check", "--offline", "--quiet", "--target-dir"])
        .arg(ctx.root.join("harness/target/probe"))
        .current_dir(&dir)
        .env("CARGO_NET_OFFLINE", "true")
        .output();
    r.evaluations = 3;
    match out {
        Ok(o) if o.status.success() => {
            r.nontrivial.insert(1);
            r.nontrivial.insert(2);
            r.samples.push(serde_json::json!("fn p<W: Write + Send>() { is_send::<Muxer<W>>() }  // type-checks"));
            r.notes.push("compile probe (not a generated search): Muxer<W>: Send for all W: Write+Send, Sync for all W: Write+Sync".into());
        }
        Ok(o) => {
            let err = String::from_utf8_lossy(&o.stderr).to_string();
            if err.contains("cannot be sent between threads safely") || err.contains("cannot be shared between threads safely") || err.contains("E0277") {
                let v = vec![viol("send_generic", "send_generic.auto_trait_lost", format!("the generic Send/Sync probe no longer type-checks:\n{}", clip(&err, 1500)))];
                let path = write_replay(ctx, "send_generic", &Value::String(err.clone()), &v);
                r.failure = Some(Failure { case: Value::String(err), violations: v, replay_path: Some(path) });
            } else {
                r.notes.push(format!("send probe did not build for another reason (treated as infrastructure): {}", clip(&err, 300)));
            }
        }
        Err(e) => r.notes.push(format!("cannot run cargo for the send probe: {}", e)),
    }
    r
}

fn replay_probe(_v: &Value) -> Result<Outcome, String> {
    Err("the send_generic clause is a compile probe: re-run `./check C17 quick`".into())
}

// ------------------------------------------------------------------------------------------
// long / large recordings on other sinks and at other alignments

fn long_sink_cases(_t: Tier) -> Vec<ValidCase> {
    let mut v: Vec<ValidCase> = crate::scenario::long_cases(false).into_iter().filter(|c| c.expand.as_ref().map(|e| e.nv + e.na <= 40_000).unwrap_or(true)).collect();
    // frames of exactly equal length (>= 4 KiB) but different NAL layouts (one slice / two slices): with the alignment run every
    // frame also comes from one reused buffer, i.e. the same address and the same length with different content
    for codec in [0u8, 1] {
        let mut c = v[0].clone();
        c.expand = None;
        c.cfg.codec = codec;
        c.cfg.audio = 0;
        let extra = if codec == 1 { 5 } else { 4 };
        c.video = (0..14u32).map(|i| VGene { ddts: 3000, cts: 0, key: false, size: if i % 2 == 1 { 5000 } else { 5000 - extra }, shape: if i % 2 == 1 { 0 } else { 16 }, jit: 0, big: 0 }).collect();
        c.audio = vec![];
        v.push(c);
    }
    v
}

fn eval_long_sinks(c: &ValidCase) -> Outcome {
    let mut o = Outcome::default();
    o.nontrivial = true;
    let (l, r) = reference(c);
    if let Some(p) = &r.panic {
        o.aborted_by_panic = Some(p.clone());
        return o;
    }
    for (chunk, interrupt) in [(4099usize, true), (1 << 20, false), (3, false)] {
        if chunk == 3 && r.out.len() > (3 << 20) {
            continue;
        }
        let buf = Arc::new(Mutex::new(Vec::new()));
        let s = ChoppySink { buf: buf.clone(), chunk, calls: 0, interrupt };
        let (_, res) = run_plain(s, &l.cfg, &l.ops, &|_| ());
        let b = buf.lock().unwrap();
        o.sub_evals += 1;
        if b[..] != r.out[..] || !same_returns(&res, &r.results) {
            o.fail(
                "same_bytes",
                format!("same_bytes.sink.{}-bytes-per-call{}", chunk, if interrupt { "_with_Interrupted" } else { "" }),
                format!("a sink accepting at most {} bytes per call received {} bytes, the reference {}; returns equal: {}", chunk, b.len(), r.out.len(), same_returns(&res, &r.results)),
            );
            return o;
        }
    }
    let mut cfg = l.cfg.clone();
    cfg.misalign = 3;
    let r2 = run_history(&cfg, &l.ops);
    if r2.out != r.out || !same_returns(&r2.results, &r.results) {
        o.fail("same_bytes", "same_bytes.alignment.offset3", "different results when every frame starts at address = 3 (mod 8)");
    }
    o
}

// ------------------------------------------------------------------------------------------
// nothing carried over from other muxers in the process: reference from a fresh child process

fn process_cases(_t: Tier) -> Vec<crate::props::c07::InitCase> {
    use crate::frag::Vp9Lite;
    use crate::gen::{Av1Seq, ObuGene};
    let base = |codec: u8, via_builder: bool| crate::props::c07::InitCase {
        codec,
        width: 1920,
        height: 1080,
        sps: vec![0x67, 0x64, 0x00, 0x28, 0xac, 0x2c, 0xa5, 0x01, 0xe0, 0x08, 0x9f, 0x97],
        pps: vec![0x68, 0xee, 0x3c, 0xb0],
        vps: vec![0x40, 0x01, 0x0c, 0x01, 0xff, 0xff, 0x01, 0x60, 0x00, 0x00, 0x03, 0x00, 0x90],
        av1: Av1Seq::simple(),
        av1_obu: ObuGene { typ: 1, ext: false, ext_byte: 0, has_size: true, leb_pad: 0, len: 0, fill: 0 },
        vp9: Vp9Lite { width: 1920, height: 1080, profile: 0, bit_depth: 8, color_space: 1, transfer_function: 1, matrix_coefficients: 1, level: 40, full_range_flag: 0 },
        via_builder,
        stray: 0,
    };
    vec![base(3, true), base(3, false), base(0, true), base(1, false), base(2, true)]
}

fn eval_process(c: &crate::props::c07::InitCase) -> Outcome {
    use crate::props::c07::{init_bytes, twins};
    let mut o = Outcome::default();
    o.nontrivial = true;
    let exe = match std::env::current_exe() {
        Ok(e) => e,
        Err(e) => {
            o.unconstrained.push(format!("no current_exe: {}", e));
            return o;
        }
    };
    // "pollute" the process with the base configuration, then ask for each single-field twin and compare with what a fresh
    // process returns for that twin
    let _ = init_bytes(c);
    for t in twins(c) {
        let here = init_bytes(&t);
        let json = serde_json::to_string(&t).unwrap_or_default();
        let out = std::process::Command::new(&exe).arg("frag-init").arg(&json).output();
        o.sub_evals += 1;
        match out {
            Ok(out) if out.status.success() => {
                let txt = String::from_utf8_lossy(&out.stdout).trim().to_string();
                let there: Option<Vec<u8>> = if txt == "none" { None } else { Some((0..txt.len() / 2).filter_map(|i| u8::from_str_radix(&txt[2 * i..2 * i + 2], 16).ok()).collect()) };
                if here != there {
                    o.fail(
                        "process_state",
                        "process_state.init_segment",
                        format!("the init segment of a configuration differs between this process (where a configuration with one other field value was used before) and a fresh process: {:?} vs {:?} bytes", here.map(|b| b.len()), there.map(|b| b.len())),
                    );
                    break;
                }
            }
            Ok(out) => o.unconstrained.push(format!("child exited with {:?}", out.status.code())),
            Err(e) => o.unconstrained.push(format!("cannot spawn the child: {}", e)),
        }
    }
    o
}

// ------------------------------------------------------------------------------------------
// nothing taken from the process environment: the same history in child processes with different environment variables

fn env_cases(_t: Tier) -> Vec<ValidCase> {
    // small A/V histories with rejected calls of every kind (their error values carry formatted diagnostics)
    let mut v = Vec::new();
    for (codec, audio) in [(0u8, 1u8), (1, 2), (2, 7), (3, 1)] {
        let mut c = crate::scenario::long_cases(false).into_iter().next().unwrap();
        c.cfg.codec = codec;
        c.cfg.audio = audio;
        c.cfg.title = Some("env \u{e9}".into());
        c.cfg.ctime = Some(1_700_000_000);
        c.order = 1;
        if let Some(e) = c.expand.as_mut() {
            e.nv = 6;
            e.na = 8;
        }
        c.rejects = vec![(1, 2), (3, 3), (2, 0), (4, 1), (5, 4), (6, 5)];
        v.push(c);
    }
    v
}

fn eval_env(c: &ValidCase) -> Outcome {
    let mut o = Outcome::default();
    o.nontrivial = true;
    let exe = match std::env::current_exe() {
        Ok(e) => e,
        Err(e) => {
            o.unconstrained.push(format!("no current_exe: {}", e));
            return o;
        }
    };
    let json = serde_json::to_string(c).unwrap_or_default();
    let vars = ["NO_COLOR", "CLICOLOR", "CLICOLOR_FORCE", "FORCE_COLOR", "TERM", "LANG", "LC_ALL", "TZ", "COLUMNS", "LINES", "RUST_BACKTRACE", "RUST_LOG", "MUXIDE_DEBUG", "DEBUG", "HOME", "TMPDIR", "USER"];
    let run = |set: &[(&str, &str)]| -> Option<String> {
        let mut cmd = std::process::Command::new(&exe);
        cmd.arg("case-digest").arg(&json);
        for k in vars {
            cmd.env_remove(k);
        }
        for (k, val) in set {
            cmd.env(k, val);
        }
        match cmd.output() {
            Ok(out) if out.status.success() => Some(String::from_utf8_lossy(&out.stdout).to_string()),
            _ => None,
        }
    };
    let base = match run(&[]) {
        Some(b) => b,
        None => {
            o.unconstrained.push("child process failed".into());
            return o;
        }
    };
    let variants: [&[(&str, &str)]; 5] = [
        &[("NO_COLOR", "1"), ("TERM", "dumb"), ("CLICOLOR", "0")],
        &[("CLICOLOR_FORCE", "1"), ("FORCE_COLOR", "3"), ("TERM", "xterm-256color"), ("COLUMNS", "20"), ("LINES", "5")],
        &[("LANG", "ja_JP.UTF-8"), ("LC_ALL", "tr_TR.UTF-8"), ("TZ", "Asia/Tokyo")],
        &[("RUST_BACKTRACE", "full"), ("RUST_LOG", "trace"), ("MUXIDE_DEBUG", "1"), ("DEBUG", "1")],
        &[("HOME", "/nonexistent"), ("TMPDIR", "/nonexistent"), ("USER", "nobody"), ("TZ", "America/St_Johns")],
    ];
    // the kind of file behind the standard streams: /dev/null, a regular file, a closed descriptor, a terminal (through
    // script(1), which runs the command on a pseudo-terminal; skipped when it is not installed or no pty can be had)
    {
        let dir = crate::props::c20::case_dir();
        let case_file = dir.join("case.json");
        let _ = std::fs::write(&case_file, &json);
        let digest_of = |label: &str, build: &dyn Fn(&mut std::process::Command, &std::path::Path)| -> Option<String> {
            let out_file = dir.join(format!("digest-{}.txt", label));
            let _ = std::fs::remove_file(&out_file);
            let mut cmd = std::process::Command::new(&exe);
            for k in vars {
                cmd.env_remove(k);
            }
            build(&mut cmd, &out_file);
            let ok = cmd.output().map(|x| x.status.success()).unwrap_or(false);
            if !ok {
                return None;
            }
            std::fs::read_to_string(&out_file).ok()
        };
        let at = format!("@{}", case_file.display());
        let plain = |cmd: &mut std::process::Command, out: &std::path::Path| {
            cmd.arg("case-digest").arg(&at).arg(out);
        };
        let mut kinds: Vec<(&str, Option<String>)> = Vec::new();
        kinds.push(("stderr_to_dev_null", digest_of("null", &|cmd, out| {
            plain(cmd, out);
            cmd.stdin(std::process::Stdio::null()).stdout(std::process::Stdio::null()).stderr(std::process::Stdio::null());
        })));
        kinds.push(("stderr_to_a_file", digest_of("file", &|cmd, out| {
            plain(cmd, out);
            if let Ok(f) = std::fs::File::create(dir.join("stderr.txt")) {
                cmd.stderr(f);
            }
        })));
        if std::path::Path::new("/usr/bin/script").exists() {
            let exe_s = exe.display().to_string();
            kinds.push(("standard_streams_on_a_terminal", {
                let out_file = dir.join("digest-pty.txt");
                let mut cmd = std::process::Command::new("/usr/bin/script");
                for k in vars {
                    cmd.env_remove(k);
                }
                cmd.arg("-qec").arg(format!("'{}' case-digest '{}' '{}'", exe_s, at, out_file.display())).arg("/dev/null");
                cmd.stdin(std::process::Stdio::null());
                let ok = cmd.output().map(|x| x.status.success()).unwrap_or(false);
                if ok { std::fs::read_to_string(&out_file).ok() } else { None }
            }));
        }
        for (label, got) in kinds {
            o.sub_evals += 1;
            match got {
                Some(x) if x == base => o.class(&format!("stdio:{}", label)),
                Some(x) => {
                    let what = if x.lines().next() != base.lines().next() { "return_values" } else { "output_bytes" };
                    o.fail("environment", format!("environment.{}.{}", what, label), format!("the same history gives different {} in a process with {}", what.replace('_', " "), label.replace('_', " ")));
                    let _ = std::fs::remove_dir_all(&dir);
                    return o;
                }
                None => o.unconstrained.push(format!("child process failed / unavailable: {}", label)),
            }
        }
        let _ = std::fs::remove_dir_all(&dir);
    }
    for set in variants {
        o.sub_evals += 1;
        match run(set) {
            Some(x) if x == base => {}
            Some(x) => {
                let what = if x.lines().next() != base.lines().next() { "return_values" } else { "output_bytes" };
                o.fail("environment", format!("environment.{}", what), format!("the same history gives different {} in a process started with {:?}", what.replace('_', " "), set));
                break;
            }
            None => o.unconstrained.push(format!("child process failed with {:?}", set)),
        }
    }
    o
}

// ------------------------------------------------------------------------------------------
// wall-clock independence: the same history with real pauses inserted

#[derive(Clone, Debug, Serialize, Deserialize, PartialEq, Eq, Hash)]
pub struct ClockCase {
    pub codec: u8,
    pub via_builder: bool,
    pub frag_ms: u32,
    pub n: u8,
    pub pause_ms: u32,
    /// progressive muxer instead of the fragmented one
    pub progressive: bool,
}

fn clock_cases(t: Tier) -> Vec<ClockCase> {
    // one pause per history; the quick tier waits 1.25 s, the thorough tier up to 9 s
    let pauses: &[u32] = if t == Tier::Quick { &[1250] } else { &[1250, 4500, 9000] };
    let mut v = Vec::new();
    for &pause_ms in pauses {
        for (codec, via_builder, frag_ms, n) in [(0u8, false, 100u32, 2u8), (1, false, 500, 3), (2, true, 2000, 3), (3, false, 50, 1), (0, false, 1, 2), (1, true, 2000, 5)] {
            v.push(ClockCase { codec, via_builder, frag_ms, n, pause_ms, progressive: false });
        }
        v.push(ClockCase { codec: 0, via_builder: false, frag_ms: 0, n: 3, pause_ms, progressive: true });
        v.push(ClockCase { codec: 2, via_builder: false, frag_ms: 0, n: 2, pause_ms, progressive: true });
    }
    v
}

fn eval_clock(c: &ClockCase) -> Outcome {
    use crate::frag::*;
    let mut o = Outcome::default();
    o.nontrivial = true;
    let pause = std::time::Duration::from_millis(c.pause_ms as u64);
    if c.progressive {
        let mut base = crate::scenario::long_cases(false).into_iter().next().unwrap();
        base.cfg.codec = c.codec;
        base.cfg.audio = 1;
        if let Some(e) = base.expand.as_mut() {
            e.nv = c.n as u32 + 2;
            e.na = 4;
        }
        let l = lower(&base);
        let fast = run_history(&l.cfg, &l.ops);
        // slow: the same calls, one real pause after the second call and one before the finish
        let n_ops = l.ops.len();
        let shared = RecSink::new();
        let slow = crate::exec::run_paused(shared.clone(), &l.cfg, &l.ops, vec![2, n_ops - 1], pause / 2);
        let slow_res = slow.results;
        if shared.bytes() != fast.out || !same_returns(&slow_res, &fast.results) {
            o.fail("clock", "clock.progressive", format!("a progressive history paused for {} ms in the middle gives a different file or different returns", c.pause_ms));
        }
        return o;
    }
    let cfg = FCfg { frag_ms: c.frag_ms, via_builder: c.via_builder, ..crate::fragcase::fcfg(&crate::fragcase::FragCase {
        codec: c.codec,
        via_builder: c.via_builder,
        start: 0,
        width: 640,
        height: 480,
        pset_len: (12, 5, 7),
        ops: vec![],
        const_interval: None,
        realistic: true,
    }) };
    // span of the queued samples stays below the target (for the tiny targets it is above: both answers are exercised)
    let mut ops: Vec<FOp> = Vec::new();
    for i in 0..c.n as u64 {
        ops.push(FOp::Write { pts: i * 900, dts: i * 900, data: crate::fragcase::realistic_payload(c.codec, 30, i == 0, i), sync: i == 0 });
    }
    ops.extend([FOp::Ready, FOp::DurMs, FOp::Init]);
    ops.push(FOp::Write { pts: c.n as u64 * 900, dts: c.n as u64 * 900, data: crate::fragcase::realistic_payload(c.codec, 20, false, 99), sync: false });
    ops.extend([FOp::Ready, FOp::Flush, FOp::Ready, FOp::DurMs, FOp::Flush, FOp::Init]);
    let fast = run_frag(&cfg, &ops);
    // slow run: the pause sits right before the first query (the samples have been queued for `pause` of real time)
    let mut slow: Vec<FRes> = Vec::new();
    let mut first = true;
    let mut cur: Vec<FOp> = Vec::new();
    // run_frag has no pause hook: replay prefixes is not equivalent, so drive the muxer directly
    match build_frag(&cfg) {
        Ok(Ok(mut m)) => {
            for op in &ops {
                cur.push(op.clone());
                let r = match op {
                    FOp::Write { pts, dts, data, sync } => match m.write_video(*pts, *dts, data, *sync) {
                        Ok(()) => FRes::WriteOk,
                        Err(e) => FRes::WriteErr { prev: 0, curr: 0, display: format!("{}", e) },
                    },
                    FOp::Flush => FRes::Flush(m.flush_segment()),
                    FOp::Ready => {
                        if first {
                            std::thread::sleep(pause);
                            first = false;
                        }
                        FRes::Ready(m.ready_to_flush())
                    }
                    FOp::DurMs => FRes::DurMs(m.current_fragment_duration_ms()),
                    FOp::Init => FRes::Init(m.init_segment()),
                };
                slow.push(r);
            }
        }
        _ => {
            o.class("build_failed");
            return o;
        }
    }
    if fast.panic.is_some() {
        o.aborted_by_panic = fast.panic.clone();
        return o;
    }
    for (i, (a, b)) in fast.results.iter().zip(slow.iter()).enumerate() {
        if a != b {
            let what = match &ops[i] {
                FOp::Write { .. } => "write_video",
                FOp::Flush => "flush_segment",
                FOp::Ready => "ready_to_flush",
                FOp::DurMs => "current_fragment_duration_ms",
                FOp::Init => "init_segment",
            };
            o.fail("clock", format!("clock.fragmented.{}", what), format!("op {} ({}) answers differently after a real pause of {} ms (fragment target {} ms)", i, what, c.pause_ms, c.frag_ms));
            break;
        }
    }
    o
}

// ------------------------------------------------------------------------------------------
// a muxer whose sink failed must not leave anything behind for the next muxer on the thread

pub fn eval_after_failure(c: &ValidCase) -> Outcome {
    use crate::faultsink::{FaultSink, Script};
    let mut o = Outcome::default();
    let l = lower(c);
    let r = run_history(&l.cfg, &l.ops);
    if r.panic.is_some() || r.finished_at.is_none() {
        o.class("reference_run_unusable");
        return o;
    }
    // the follower: a small fixed recording, and the same recording again
    let mut small = crate::exec::CCfg::basic(c.cfg.codec % 4);
    small.fast_start = Some(!c.cfg.fast_start);
    let follower_ops: Vec<COp> = {
        let mut fc = FirstCfg::default();
        let mut v = Vec::new();
        for i in 0..3usize {
            let g = VGene { ddts: 3000, cts: 0, key: i == 0, size: 20 + i as u16, shape: 0, jit: 0, big: 0 };
            let (bytes, _) = video_frame(&c.cfg, &g, i, i == 0, &mut fc);
            v.push(COp::Video { pts: i as f64 / 30.0, data: bytes, key: i == 0 });
        }
        v.push(COp::Finish(FinishKind::InPlaceStats));
        v
    };
    let follower_ref = run_history(&small, &follower_ops);
    if follower_ref.panic.is_some() {
        o.aborted_by_panic = follower_ref.panic;
        return o;
    }
    let n_calls = r.sink.writes.len();
    for call in 0..n_calls {
        for (k, script) in [Script::FailAtCall { call, kind: (call % crate::faultsink::N_KINDS as usize) as u8 }, Script::FailOnceAtCall { call, kind: 7 }, Script::PanicAtCall { call }].into_iter().enumerate() {
            o.sub_evals += 1;
            let sink = FaultSink::new(script.clone());
            let st = sink.st.clone();
            let _failed = crate::exec::run_history_on(&l.cfg, &l.ops, sink, move || {
                let s = st.lock().unwrap();
                crate::exec::SinkState { bytes: s.accepted.clone(), writes: vec![], flushes: vec![], current_call: s.current_call }
            });
            for (who, cfg, ops, want) in [("a small recording", &small, &follower_ops, &follower_ref), ("the same recording", &l.cfg, &l.ops, &r)] {
                let again = run_history(cfg, ops);
                if let Some(p) = &again.panic {
                    o.aborted_by_panic = Some(p.clone());
                    o.fail(
                        "same_bytes",
                        format!("same_bytes.after_a_failed_muxer.{}.panic", ["sticky", "transient", "sink_panicked"][k]),
                        format!("{} muxed on the same thread after a muxer whose sink failed at write call {} panics although its own sink is healthy: {}", who, call, p),
                    );
                    return o;
                }
                if again.out != want.out || !same_returns(&again.results, &want.results) {
                    o.fail(
                        "same_bytes",
                        format!("same_bytes.after_a_failed_muxer.{}", ["sticky", "transient", "sink_panicked"][k]),
                        format!("{} muxed on the same thread after a muxer whose sink failed at write call {} gives {} bytes instead of {}", who, call, again.out.len(), want.out.len()),
                    );
                    return o;
                }
            }
        }
    }
    o.nontrivial = n_calls >= 3;
    o
}

pub fn after_failure_cases(t: Tier) -> Vec<ValidCase> {
    let mut v = crate::scenario::aimed_cases(t);
    // and a few ordinary small ones
    for (codec, audio) in [(0u8, 1u8), (1, 0), (2, 7), (3, 1)] {
        let mut c = crate::scenario::long_cases(false).into_iter().next().unwrap();
        c.cfg.codec = codec;
        c.cfg.audio = audio;
        if let Some(e) = c.expand.as_mut() {
            e.nv = 12;
            e.na = if audio == 0 { 0 } else { 9 };
        }
        v.push(c);
    }
    v
}

// ------------------------------------------------------------------------------------------
// fragmented muxers taking turns on one thread

#[derive(Clone, Debug, Serialize, Deserialize, PartialEq, Eq, Hash)]
pub struct FragPool {
    pub pool: Vec<crate::fragcase::FragCase>,
    pub schedule: Vec<u8>,
    /// a progressive history muxed in between (a third of the cases): the two muxer kinds share the codec modules
    pub progressive: Option<ValidCase>,
}

pub fn eval_frag_pool(c: &FragPool) -> Outcome {
    let mut o = Outcome::default();
    if c.pool.is_empty() {
        return o;
    }
    let lowered: Vec<crate::fragcase::LoweredFrag> = c.pool.iter().map(crate::fragcase::lower).collect();
    let alone: Vec<crate::frag::FRun> = lowered.iter().map(|l| crate::frag::run_frag(&l.cfg, &l.ops)).collect();
    if let Some(p) = alone.iter().find_map(|r| r.panic.clone()) {
        o.aborted_by_panic = Some(p);
        return o;
    }
    let prog = c.progressive.as_ref().map(|v| {
        let l = lower(v);
        let r = run_history(&l.cfg, &l.ops);
        (l, r)
    });
    // all muxers alive at once, plus a twin of the first; a progressive muxer is created, fed and finished in the middle
    let mut runs: Vec<(&crate::frag::FCfg, &[crate::frag::FOp])> = lowered.iter().map(|l| (&l.cfg, &l.ops[..])).collect();
    runs.push((&lowered[0].cfg, &lowered[0].ops[..]));
    let first = crate::frag::run_frag_lockstep(&runs, &c.schedule);
    for (i, g) in first.iter().enumerate() {
        let r = &alone[if i < alone.len() { i } else { 0 }];
        if g.panic.is_some() || g.results != r.results || g.build_err != r.build_err {
            let at = g.results.iter().zip(r.results.iter()).position(|(a, b)| a != b);
            o.fail(
                "same_bytes",
                "same_bytes.fragmented.alternating_instances",
                format!("fragmented history {} gives different results when {} fragmented muxers take turns call by call on one thread (first differing call: {:?}, panic: {:?})", i, runs.len(), at, g.panic),
            );
            return o;
        }
    }
    // each muxer moved to another thread in the middle of its history (with samples queued, between a write and its flush)
    for (i, l) in lowered.iter().enumerate() {
        if l.ops.is_empty() {
            continue;
        }
        let cut = (c.schedule.get(i).copied().unwrap_or(3) as usize) % l.ops.len();
        let moved = crate::frag::run_frag_moved(&l.cfg, &l.ops, cut);
        if moved.panic.is_some() || moved.results != alone[i].results {
            let at = moved.results.iter().zip(alone[i].results.iter()).position(|(a, b)| a != b);
            o.fail(
                "send",
                "send.fragmented.moved_mid_history",
                format!("fragmented history {} gives different results when the muxer is moved to another thread after {} of {} calls (first differing call: {:?}, panic: {:?})", i, cut, l.ops.len(), at, moved.panic),
            );
            return o;
        }
    }
    if let Some((l, r)) = &prog {
        if r.panic.is_none() {
            // progressive run between two halves of a fragmented history
            let l0 = &lowered[0];
            let cut = l0.ops.len() / 2;
            let _first_half = crate::frag::run_frag(&l0.cfg, &l0.ops[..cut]);
            let r2 = run_history(&l.cfg, &l.ops);
            if r2.out != r.out || !same_returns(&r2.results, &r.results) {
                o.fail("same_bytes", "same_bytes.progressive_after_fragmented", "a progressive history gives different results after a fragmented muxer was used on the thread");
                return o;
            }
            // and the fragmented history as a whole after the progressive one
            let again = crate::frag::run_frag(&l0.cfg, &l0.ops);
            if again.results != alone[0].results {
                o.fail("same_bytes", "same_bytes.fragmented_after_progressive", "a fragmented history gives different results after a progressive muxer was used on the thread");
                return o;
            }
            o.class("progressive_in_between");
        }
    }
    let segs: usize = alone.iter().map(|r| r.results.iter().filter(|x| matches!(x, crate::frag::FRes::Flush(Some(_)))).count()).sum();
    o.nontrivial = c.pool.len() >= 2 && c.schedule.len() >= 4 && segs >= 2;
    o
}

pub fn frag_pool_strategy(t: Tier) -> BoxedStrategy<FragPool> {
    let (n, m) = if t == Tier::Quick { (3, 14) } else { (6, 40) };
    (vec(crate::fragcase::frag_case_strategy(m), 1..=n), vec(any::<u8>(), 0..120), proptest::option::weighted(0.3, valid_case_strategy(8, 8)))
        .prop_map(|(pool, schedule, progressive)| FragPool { pool, schedule, progressive })
        .boxed()
}

pub fn def() -> PropertyDef {
    PropertyDef {
        fuzz_targets: &[],
        id: "C17",
        level: "exploration",
        rule: "pools of generated histories are run (i) in a second instance, (ii) on each of 9 sink types (shared Vec, &mut Vec, Cursor, File, BufWriter<File>, \
               Box<dyn Write+Send>, a Send-but-not-Sync sink, a 1-byte-per-call sink, a short-writing sink that also reports Interrupted), (iii) on 1..16 concurrent threads with generated assignments while the invariant log is \
               cleared/queried, (iv) in a muxer moved to another thread; equivalent paths: builder aliases, all 5 finish forms, AudioCodec::None vs no audio, \
               encode_* with automatic timestamps vs explicit writes at the same ticks (plus exact tick expectations 90*sum(ms), round(90000*sum(samples)/rate)). \
               Byte equality and equal returns against a single-threaded reference. Non-trivial: every case (each compares >= 2 executions)",
        assumptions: &[
            "'Muxer<W> is Send for ALL W: Send' quantifies over types; it is checked by a compile probe (harness/send_probe), not by generated search",
            "wall-clock independence: besides running at different times, a fixed list of histories is re-run with real pauses of 1.25 s (quick) to 9 s (thorough); behaviour that changes only after a longer real-time wait is not reached; with_current_time is not generated",
        ],
        subs: vec![
            Box::new(PSub { name: "instances_threads_sinks", quick: 1200, thorough: 40000, strat: pure_strategy, eval: eval_pure }),
            Box::new(LSub {
                name: "after_a_failed_muxer",
                cases: after_failure_cases,
                eval: eval_after_failure,
                note: "for every write call of a recording (incl. the ones aimed at 2^k file offsets): the sink fails there (sticky / once), then a small recording and the same recording are muxed on the same thread and compared with their references",
            }),
            Box::new(PSub { name: "fragmented_instances", quick: 3000, thorough: 100000, strat: frag_pool_strategy, eval: eval_frag_pool }),
            Box::new(PSub { name: "equivalent_paths", quick: 8000, thorough: 250000, strat: path_strategy, eval: eval_paths }),
            Box::new(ESub { name: "send_generic", run: run_probe, replay: replay_probe }),
            Box::new(LSub { name: "long_recordings", cases: long_sink_cases, eval: eval_long_sinks, note: crate::scenario::LONG_NOTE }),
            Box::new(LSub {
                name: "process_state",
                cases: process_cases,
                eval: eval_process,
                note: "fixed list: five fragmented configurations; after one was used, each single-field twin's init segment is compared with the one a fresh child process (verif frag-init) returns for it",
            }),
            Box::new(LSub {
                name: "environment",
                cases: env_cases,
                eval: eval_env,
                note: "fixed list: four A/V histories with rejected calls of every kind, each run in child processes (verif case-digest) with colour / terminal / locale / time-zone / logging / home variables unset and set in five combinations; return values (with error texts) and bytes must agree",
            }),
            Box::new(LSub {
                name: "wall_clock",
                cases: clock_cases,
                eval: eval_clock,
                note: "fixed list: fragmented (targets 1 .. 2000 ms, direct and builder configs) and progressive histories run twice, once back to back and once with a real pause (1.25 s quick; 1.25 / 4.5 / 9 s thorough) before the first query / in the middle; every answer and every byte must agree",
            }),
        ],
    }
}
