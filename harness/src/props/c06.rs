//! C06 — finalisation happens exactly once and accounts for every byte and frame.

use crate::contract::*;
use crate::engine::*;
use crate::exec::{run_history, COp, CallResult, ErrClass, FinishKind};
use crate::props::c04::run_resolved;
use proptest::strategy::Strategy;

pub fn eval(c: &RawCase) -> Outcome {
    let mut o = Outcome::default();
    let (cfg, _bv, steps, run) = run_resolved(c);
    if let Some(p) = &run.panic {
        o.aborted_by_panic = Some(p.clone());
        return o;
    }
    if !run.build.is_ok() {
        o.class("build_rejected");
        // nothing may be written by a failed build either
        if !run.sink.writes.is_empty() {
            o.fail("silent_before", "silent_before.build", "a failed build wrote to the sink");
        }
        return o;
    }
    let ops: Vec<COp> = steps.iter().map(|s| s.op.clone()).collect();
    let fin = run.finished_at;
    // silent_before / after: every sink write must belong to the one successful finish call
    for &(call, offered, _) in &run.sink.writes {
        if Some(call) != fin {
            let when = if call == usize::MAX {
                "build".to_string()
            } else if call == usize::MAX - 1 {
                "drop".to_string()
            } else if fin.map(|f| call < f).unwrap_or(true) {
                "before_finish".to_string()
            } else {
                "after_finish".to_string()
            };
            o.fail(
                if when == "after_finish" { "after" } else { "silent_before" },
                format!("sink_write.{}", when),
                format!("{} bytes were written to the sink during call index {} ({}); the successful finish is call {:?}", offered, call, when, fin),
            );
            return o;
        }
    }
    let f = match fin {
        None => {
            // no finish succeeded: either none attempted or the history has none
            let attempted = ops.iter().any(|op| op.is_finish());
            let first_fin = steps.iter().find(|s| s.op.is_finish());
            if matches!(first_fin.map(|s| &s.verdict), Some(Verdict::Either(_))) {
                o.unconstrained.push("finish_with_track_duration_beyond_u32(C16)".into());
            } else if attempted {
                o.fail("once", "once.first_finish_failed", "a finish was attempted on a fault-free sink but none succeeded");
            } else {
                o.class("no_finish_attempt");
            }
            return o;
        }
        Some(f) => f,
    };
    // after: every later call returns the "finished" error (consuming kinds end the history)
    let kind = match &ops[f] {
        COp::Finish(k) => *k,
        _ => unreachable!(),
    };
    let mut calls_after = 0;
    if !kind.consuming() {
        for (i, r) in run.results.iter().enumerate().skip(f + 1) {
            if matches!(r, CallResult::Skipped) {
                break; // a later consuming finish attempt (which failed, as it must) took the muxer away
            }
            calls_after += 1;
            match r {
                CallResult::Err { class: ErrClass::Finished, .. } => {}
                CallResult::Err { class, variant, .. } => {
                    // another violated precondition may be named as well (C04 judges which); it must still be an error
                    let _ = (class, variant);
                }
                other => {
                    let ep = match &ops[i] {
                        COp::Finish(_) => "finish",
                        COp::Audio { .. } | COp::EncAudio { .. } => "audio_write",
                        _ => "video_write",
                    };
                    o.fail("after", format!("after.{}.{}", ep, other.short().split('(').next().unwrap_or("")), format!("call {} after the successful finish returned {}", i, other.short()));
                    return o;
                }
            }
        }
    } else {
        for r in run.results.iter().skip(f + 1) {
            if !matches!(r, CallResult::Skipped) {
                o.fail("after", "after.consumed_muxer_still_callable", "harness inconsistency");
            }
        }
    }
    // once: the delivered bytes are exactly the file of the accepted calls
    let accepted: Vec<COp> =
        ops.iter().zip(run.results.iter()).take(f).filter(|(op, r)| !op.is_finish() && r.is_ok()).map(|(op, _)| op.clone()).collect();
    let mut plain = accepted.clone();
    plain.push(COp::Finish(FinishKind::InPlaceStats));
    let reference = run_history(&cfg, &plain);
    if reference.panic.is_some() || reference.finished_at.is_none() {
        o.class("reference_run_failed");
        return o;
    }
    if reference.out != run.out {
        o.fail(
            "once",
            format!("once.bytes_differ.len_delta={}", run.out.len() as i64 - reference.out.len() as i64),
            format!("bytes delivered ({}) differ from the file of the same accepted calls ({})", run.out.len(), reference.out.len()),
        );
        return o;
    }
    // statistics
    let nv = ops.iter().zip(run.results.iter()).take(f).filter(|(op, r)| op.is_video() && r.is_ok()).count() as u64;
    let na = ops.iter().zip(run.results.iter()).take(f).filter(|(op, r)| op.is_audio() && r.is_ok()).count() as u64;
    let stats = run.stats.or(reference.stats);
    let own_stats = run.stats.is_some();
    if let Some(s) = stats {
        if s.video_frames != nv || s.audio_frames != na {
            o.fail(
                "frames",
                format!("frames.video_delta={}.audio_delta={}", s.video_frames as i64 - nv as i64, s.audio_frames as i64 - na as i64),
                format!("stats report {} video / {} audio frames, accepted were {} / {}", s.video_frames, s.audio_frames, nv, na),
            );
        }
        if s.bytes_written != run.out.len() as u64 {
            o.fail(
                "bytes",
                format!("bytes.delta={}", s.bytes_written as i64 - run.out.len() as i64),
                format!("stats.bytes_written {} but the sink received {} bytes", s.bytes_written, run.out.len()),
            );
        }
        // duration: largest presentation end (pts + duration) over all accepted samples, +-1 tick
        let mut ends: Vec<(f64, f64)> = Vec::new(); // (lo, hi) admissible end per track
        let mut tie = false;
        for is_video in [true, false] {
            let samples: Vec<(u64, u64)> = steps
                .iter()
                .zip(run.results.iter())
                .take(f)
                .filter(|(s, r)| r.is_ok() && s.sample.as_ref().map(|x| x.0 == is_video).unwrap_or(false))
                .map(|(s, _)| {
                    if s.tie {
                        tie = true;
                    }
                    let x = s.sample.as_ref().unwrap();
                    (x.3, x.4)
                })
                .collect();
            let n = samples.len();
            if n == 0 {
                continue;
            }
            let mut lo: u64 = 0;
            let mut hi: u64 = 0;
            for i in 0..n {
                let (pts, dts) = samples[i];
                let (dlo, dhi) = if i + 1 < n {
                    let d = samples[i + 1].1.saturating_sub(dts);
                    (d, d)
                } else if n >= 2 {
                    let d = dts.saturating_sub(samples[i - 1].1);
                    (d, d)
                } else {
                    (0, 1) // a lone sample's duration is unknowable: 0 or the 1-tick placeholder
                };
                lo = lo.max(pts.saturating_add(dlo));
                hi = hi.max(pts.saturating_add(dhi));
            }
            ends.push((lo as f64, hi as f64));
        }
        let (want_lo, want_hi) = ends.iter().fold((0.0f64, 0.0f64), |m, e| (m.0.max(e.0), m.1.max(e.1)));
        let got = s.duration_secs() * 90000.0;
        // once the model has lost track (an unconstrained call whose outcome it could not follow) its ticks are meaningless
        let desynced = steps.iter().take(f).any(|s| matches!(&s.verdict, Verdict::Either(r) if r == "after_unconstrained_call"));
        if desynced {
            o.unconstrained.push("model_desynced_after_unconstrained_call".into());
        } else if tie {
            o.unconstrained.push("half_tick_tie".into());
        } else if want_hi >= 9.0e15 {
            o.unconstrained.push("timestamp_beyond_2^53_ticks(C16)".into());
        } else if !(got >= want_lo - 1.0 && got <= want_hi + 1.0) {
            let reord = steps.iter().zip(run.results.iter()).take(f).any(|(s, r)| r.is_ok() && s.sample.as_ref().map(|x| x.0 && x.3 != x.4).unwrap_or(false));
            o.fail(
                "duration",
                format!("duration.{}{}", if got < want_lo { "short" } else { "long" }, if reord { ":reordered" } else { "" }),
                format!("stats.duration_secs = {:.1} ticks, largest presentation end over accepted samples = {}..{} ticks", got, want_lo, want_hi),
            );
        }
        if reference.stats.is_some() && own_stats && run.stats != reference.stats {
            o.fail("frames", "stats.differ_from_plain_run", format!("stats {:?} differ from the plain run's {:?}", run.stats, reference.stats));
        }
    }
    // "the exact number of bytes delivered to the sink" must hold for every legal sink: the same accepted calls on a sink
    // that takes only a few bytes per write call (no error) must deliver the same file and report the same count
    if o.violations.is_empty() && !run.out.is_empty() {
        struct Chunky {
            buf: std::sync::Arc<std::sync::Mutex<Vec<u8>>>,
            k: usize,
            calls: usize,
        }
        impl std::io::Write for Chunky {
            fn write(&mut self, b: &[u8]) -> std::io::Result<usize> {
                self.calls += 1;
                let n = b.len().min(1 + (self.k + self.calls * 7) % 23);
                self.buf.lock().unwrap().extend_from_slice(&b[..n]);
                Ok(n)
            }
            fn flush(&mut self) -> std::io::Result<()> {
                Ok(())
            }
        }
        let buf = std::sync::Arc::new(std::sync::Mutex::new(Vec::new()));
        let (_, res) = crate::exec::run_plain(Chunky { buf: buf.clone(), k: run.out.len(), calls: 0 }, &cfg, &plain, &|_| ());
        let delivered = buf.lock().unwrap().clone();
        o.sub_evals += 1;
        match res.last() {
            Some(CallResult::OkStats(st)) => {
                if delivered != run.out {
                    o.fail("once", "once.short_writing_sink.bytes_differ", format!("a sink that accepts a few bytes per call received {} bytes, a whole-buffer sink {}", delivered.len(), run.out.len()));
                } else if st.bytes_written != delivered.len() as u64 {
                    o.fail(
                        "bytes",
                        format!("bytes.short_writing_sink.delta={}", st.bytes_written as i64 - delivered.len() as i64),
                        format!("stats.bytes_written {} but the short-writing sink received {} bytes", st.bytes_written, delivered.len()),
                    );
                }
            }
            Some(other) if !matches!(other, CallResult::Panic(_)) => {
                o.fail("once", "once.short_writing_sink.finish_failed", format!("finish returned {} on a sink that only shortens writes", other.short()));
            }
            _ => {}
        }
    }
    let n_finish = ops.iter().filter(|op| op.is_finish()).count();
    o.nontrivial = (n_finish >= 2 || calls_after >= 1) && (nv + na) >= 2;
    if steps.iter().zip(run.results.iter()).take(f).any(|(s, r)| r.is_ok() && s.sample.as_ref().map(|x| x.0 && x.3 != x.4).unwrap_or(false)) {
        o.class("reordered_video");
    }
    if kind.consuming() {
        o.class("consuming_finish");
    }
    o.class(&format!("finish:{:?}", kind));
    if calls_after > 0 {
        o.class("calls_after_finish");
    }
    if na > 0 {
        o.class("with_audio");
    }
    if nv + na == 0 {
        o.class("empty_file");
    }
    o
}

/// The statistics clauses on the scenario generator's histories (every framing / content variety the other properties use):
/// frame counts = calls that returned Ok, bytes_written = bytes the sink received, duration = largest presentation end.
pub fn eval_scenario(c: &crate::scenario::ValidCase) -> Outcome {
    use crate::scenario::*;
    let mut o = Outcome::default();
    let l = lower(c);
    let mut ops = l.ops.clone();
    let fin = ops.len() - 1;
    ops[fin] = COp::Finish(if c.finish % 2 == 0 { FinishKind::InPlaceStats } else { FinishKind::FinishStats });
    let run = run_history(&l.cfg, &ops);
    if let Some(p) = &run.panic {
        o.aborted_by_panic = Some(p.clone());
        return o;
    }
    let s = match (run.finished_at, run.stats) {
        (Some(f), Some(s)) if f == fin => s,
        _ => {
            o.class("finish_not_ok");
            return o;
        }
    };
    let nv = ops.iter().zip(run.results.iter()).take(fin).filter(|(op, r)| op.is_video() && r.is_ok()).count() as u64;
    let na = ops.iter().zip(run.results.iter()).take(fin).filter(|(op, r)| op.is_audio() && r.is_ok()).count() as u64;
    if s.video_frames != nv || s.audio_frames != na {
        o.fail(
            "frames",
            format!("frames.video_delta={}.audio_delta={}:scenario", s.video_frames as i64 - nv as i64, s.audio_frames as i64 - na as i64),
            format!("stats report {} video / {} audio frames, {} / {} calls returned Ok", s.video_frames, s.audio_frames, nv, na),
        );
    }
    if s.bytes_written != run.out.len() as u64 {
        o.fail("bytes", format!("bytes.delta={}:scenario", s.bytes_written as i64 - run.out.len() as i64), format!("stats.bytes_written {} but the sink received {} bytes", s.bytes_written, run.out.len()));
    }
    // the frame counts must also be what the file's sample tables hold
    if let Ok(p) = crate::mp4check::parse(&run.out) {
        let fv = crate::mp4check::video_track(&p.movie).map(|t| t.samples.len() as u64).unwrap_or(0);
        let fa = crate::mp4check::audio_track(&p.movie).map(|t| t.samples.len() as u64).unwrap_or(0);
        if fv != s.video_frames || fa != s.audio_frames {
            o.fail("frames", "frames.stats_vs_file:scenario", format!("stats report {} / {} frames, the file's tracks hold {} / {} samples", s.video_frames, s.audio_frames, fv, fa));
        }
    }
    let (v, a) = crate::mp4check::accepted(&l, &run);
    if !v.iter().chain(a.iter()).any(|x| x.tie) {
        let end = |x: &[&ExpSample]| -> (u64, u64) {
            let n = x.len();
            let mut lo = 0u64;
            let mut hi = 0u64;
            for i in 0..n {
                let (dlo, dhi) = if i + 1 < n {
                    let d = x[i + 1].dts.saturating_sub(x[i].dts);
                    (d, d)
                } else if n >= 2 {
                    let d = x[i].dts.saturating_sub(x[i - 1].dts);
                    (d, d)
                } else {
                    (0, 1)
                };
                lo = lo.max(x[i].pts.saturating_add(dlo));
                hi = hi.max(x[i].pts.saturating_add(dhi));
            }
            (lo, hi)
        };
        // presentation ends are measured from the track's own start (the file has no start offsets), as in the main check
        let rel = |x: &[&ExpSample]| -> (u64, u64) {
            if x.is_empty() {
                return (0, 0);
            }
            end(x)
        };
        let (vl, vh) = rel(&v);
        let (al, ah) = rel(&a);
        let got = s.duration_secs() * 90000.0;
        let lo = vl.max(al) as f64;
        let hi = vh.max(ah) as f64;
        if hi < 9.0e15 && v.len() == nv as usize && a.len() == na as usize && !(got >= lo - 1.0 && got <= hi + 1.0) {
            o.fail("duration", format!("duration.{}:scenario", if got < lo { "short" } else { "long" }), format!("stats.duration_secs = {:.1} ticks, largest presentation end over accepted samples = {}..{} ticks", got, lo, hi));
        }
    } else {
        o.unconstrained.push("half_tick_tie".into());
    }
    o.nontrivial = nv + na >= 2;
    o
}

fn strat_scenario(t: Tier) -> proptest::strategy::BoxedStrategy<crate::scenario::ValidCase> {
    match t {
        Tier::Quick => crate::scenario::valid_case_strategy(24, 30).boxed(),
        Tier::Thorough => crate::scenario::valid_case_strategy(60, 80).boxed(),
    }
}

fn strat(t: Tier) -> proptest::strategy::BoxedStrategy<RawCase> {
    // make sure most histories contain a finish: append one unless the history already has some
    let with_finish = |n: usize| {
        (raw_case_strategy(n, 3), 0u8..5, proptest::bool::weighted(0.85)).prop_map(|(mut c, k, add)| {
            if add {
                c.ops.push(ROp::Finish(k));
            }
            c
        })
    };
    match t {
        Tier::Quick => with_finish(24).boxed(),
        Tier::Thorough => proptest::prop_oneof![9 => with_finish(40), 1 => with_finish(200)].boxed(),
    }
}

pub fn def() -> PropertyDef {
    PropertyDef {
        fuzz_targets: &["c04_history"],
        id: "C06",
        level: "exploration",
        rule: "C04-style histories with finish attempts at arbitrary positions (first, repeated, followed by more writes), all five finish entry points, \
               a recording sink that tags every write with the API call in progress; clauses: nothing written outside the one successful finish \
               (build, writes, rejected calls, later calls, drop), delivered bytes = file of the accepted calls, every later call fails, frame counts, \
               bytes_written = sink length, duration = largest presentation end +-1 tick. Non-trivial = (>=2 finish attempts or a call after finish) \
               and >= 2 accepted frames",
        assumptions: &["a lone sample's duration is unknowable: its end may be pts+0 or pts+1 tick"],
        subs: vec![Box::new(PSub { name: "finalisation", quick: 40000, thorough: 1200000, strat, eval }), Box::new(LSub { name: "bursts_and_long", cases: burst_cases, eval, note: BURST_NOTE }), Box::new(PSub { name: "scenario_statistics", quick: 20000, thorough: 500000, strat: strat_scenario, eval: eval_scenario })],
    }
}
