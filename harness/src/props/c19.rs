//! C19 — header boxes and configuration records follow their specifications' layouts.

use crate::engine::*;
use crate::exec::run_history;
use crate::fragcase::{self, FragCase};
use crate::mp4check::hex;
use crate::reader::*;
use crate::scenario::*;
use proptest::strategy::Strategy;

const IDENTITY: [u32; 9] = [0x0001_0000, 0, 0, 0, 0x0001_0000, 0, 0, 0, 0x4000_0000];

fn full_box_v0(o: &mut Outcome, name: &str, p: &[u8], ctx: &str) {
    if p.len() < 4 || p[0..4] != [0, 0, 0, 0] {
        o.fail("fullbox", format!("{}.version_flags.{}", name, ctx), format!("{}: version/flags {} (expected 0)", name, hex(&p[..p.len().min(4)], 4)));
    }
}

/// Checks every fixed-layout box below `moov` of a progressive file or init segment.
pub fn check_moov(o: &mut Outcome, d: &[u8], tree: &[Node], m: &Movie, ctx: &str, want_dims: (u32, u32), movie_ts: u32, media_ts: u32, known: &dyn Fn(&str) -> bool) {
    let moov = match tree.iter().find(|n| &n.typ == b"moov") {
        Some(n) => n,
        None => return,
    };
    // ftyp
    if m.ftyp.len() < 8 || (m.ftyp.len() - 8) % 4 != 0 {
        o.fail("ftyp", format!("ftyp.len.{}", ctx), format!("ftyp payload {} bytes", m.ftyp.len()));
    }
    // mvhd
    let mv = &m.mvhd;
    let want_len = if mv.version == 1 { 112 } else { 100 };
    if mv.payload_len != want_len {
        o.fail("mvhd", format!("mvhd.payload_len={}.{}", mv.payload_len, ctx), format!("mvhd v{} payload {} bytes, spec {}", mv.version, mv.payload_len, want_len));
    }
    if mv.flags != 0 || !mv.reserved_ok || !mv.predefined_ok {
        o.fail("mvhd", format!("mvhd.reserved.{}", ctx), format!("mvhd flags {:#x} reserved_zero {} pre_defined_zero {}", mv.flags, mv.reserved_ok, mv.predefined_ok));
    }
    if mv.rate != 0x0001_0000 || mv.volume != 0x0100 {
        // template fields (typical values 1.0 / full volume), not reserved bits: reported as a note only
        o.class("note:mvhd_rate_or_volume_not_default");
    }
    if mv.matrix != IDENTITY {
        o.fail("mvhd", format!("mvhd.matrix.{}", ctx), format!("mvhd matrix {:x?}", mv.matrix));
    }
    if mv.timescale != movie_ts {
        o.fail("mvhd", format!("mvhd.timescale={}.{}", mv.timescale, ctx), format!("movie timescale {} (expected {})", mv.timescale, movie_ts));
    }
    let traks = moov.kids_of(b"trak");
    let mut ids = Vec::new();
    for (ti, tr) in traks.iter().enumerate() {
        let t = match m.tracks.get(ti) {
            Some(t) => t,
            None => break,
        };
        let kind = if t.is_video { "video" } else { "audio" };
        // ---- tkhd
        let tk_node = tr.kid(b"tkhd").unwrap();
        let tkp = tk_node.payload(d);
        let spec_len = tkhd_spec_len(t.tkhd.version);
        let mut tk = t.tkhd.clone();
        if tkp.len() != spec_len {
            let sig = format!("tkhd.payload_len={}(spec:{}).{}", tkp.len(), spec_len, ctx);
            let listed = known(&sig);
            o.fail("tkhd", sig, format!("{} tkhd v{} payload is {} bytes, the specification prescribes {}", kind, t.tkhd.version, tkp.len(), spec_len));
            if listed && tkp.len() > spec_len {
                // keep judging the remaining fields at the positions the listed deviation implies
                match dec_tkhd_shifted(tkp, tkp.len() - spec_len) {
                    Ok(x) => tk = x,
                    Err(_) => continue,
                }
            } else {
                o.class("tkhd_fields_unevaluable");
                continue;
            }
        }
        if tk.flags & 1 == 0 {
            o.fail("tkhd", format!("tkhd.flags={:#x}.{}", tk.flags, ctx), format!("{} tkhd flags {:#08x}: track_enabled bit not set", kind, tk.flags));
        }
        if tk.track_id == 0 || ids.contains(&tk.track_id) {
            o.fail("tkhd", format!("tkhd.track_id.{}", ctx), format!("track id {} zero or duplicate (seen {:?})", tk.track_id, ids));
        }
        ids.push(tk.track_id);
        if tk.reserved1 != 0 || !tk.reserved2_ok || tk.reserved3 != 0 {
            o.fail("tkhd", format!("tkhd.reserved.{}.{}", kind, ctx), format!("{} tkhd reserved1 {} reserved2_zero {} reserved3 {}", kind, tk.reserved1, tk.reserved2_ok, tk.reserved3));
        }
        if tk.layer != 0 || tk.alt_group != 0 {
            o.class("note:tkhd_layer_or_alternate_group_not_default");
        }
        let want_vol = if t.is_video { 0 } else { 0x0100 };
        if tk.volume != want_vol {
            o.fail("tkhd", format!("tkhd.volume.{}.{}", kind, ctx), format!("{} tkhd volume {:#06x} (expected {:#06x})", kind, tk.volume, want_vol));
        }
        if tk.matrix != IDENTITY {
            o.fail("tkhd", format!("tkhd.matrix.{}.{}", kind, ctx), format!("{} tkhd matrix {:x?}", kind, tk.matrix));
        }
        if t.is_video {
            if want_dims.0 <= 65535 && want_dims.1 <= 65535 && (tk.width != want_dims.0 << 16 || tk.height != want_dims.1 << 16) {
                o.fail(
                    "tkhd",
                    format!("tkhd.dims.{}", ctx),
                    format!("tkhd width/height {:#010x}/{:#010x} but configured {}x{} (16.16: {:#010x}/{:#010x})", tk.width, tk.height, want_dims.0, want_dims.1, want_dims.0 << 16, want_dims.1 << 16),
                );
            }
        } else if tk.width != 0 || tk.height != 0 {
            o.fail("tkhd", format!("tkhd.audio_dims.{}", ctx), "audio tkhd has non-zero width/height");
        }
        // ---- mdhd
        let md = &t.mdhd;
        let want_len = if md.version == 1 { 36 } else { 24 };
        if md.payload_len != want_len {
            o.fail("mdhd", format!("mdhd.payload_len={}.{}", md.payload_len, ctx), format!("mdhd payload {} bytes, spec {}", md.payload_len, want_len));
        }
        if md.flags != 0 || md.pad != 0 || md.predefined != 0 {
            o.fail("mdhd", format!("mdhd.constants.{}", ctx), format!("mdhd flags {:#x} pad {} pre_defined {}", md.flags, md.pad, md.predefined));
        }
        if md.timescale != media_ts {
            o.fail("mdhd", format!("mdhd.timescale={}.{}", md.timescale, ctx), format!("media timescale {} (expected {})", md.timescale, media_ts));
        }
        // ---- hdlr
        let h = &t.hdlr;
        if h.vf != 0 || h.predefined != 0 || !h.reserved_ok || !h.name_nul_terminated {
            o.fail("hdlr", format!("hdlr.layout.{}.{}", kind, ctx), format!("hdlr vf {:#x} pre_defined {} reserved_zero {} name NUL-terminated {}", h.vf, h.predefined, h.reserved_ok, h.name_nul_terminated));
        }
        if !(&h.handler == b"vide" || &h.handler == b"soun") {
            o.fail("hdlr", format!("hdlr.type.{}", ctx), format!("handler type {}", fourcc(&h.handler)));
        }
        // the handler type has to be the one the sample entry's coding calls for (a strict reader picks the decoder by
        // the entry and the media header box by the handler)
        let entry_is_video = match &t.entry.typ {
            b"avc1" | b"avc3" | b"hev1" | b"hvc1" | b"av01" | b"vp09" => Some(true),
            b"mp4a" | b"Opus" => Some(false),
            _ => None,
        };
        if let Some(v) = entry_is_video {
            if v != (&h.handler == b"vide") {
                o.fail("hdlr", format!("hdlr.type_vs_entry.{}", ctx), format!("handler type {} on a track whose sample entry is {}", fourcc(&h.handler), fourcc(&t.entry.typ)));
            }
        }
        // ---- minf headers
        let minf = tr.path(&[b"mdia", b"minf"]).unwrap();
        let want_hdr: &[u8; 4] = if &h.handler == b"vide" { b"vmhd" } else { b"smhd" };
        let other_hdr: &[u8; 4] = if &h.handler == b"vide" { b"smhd" } else { b"vmhd" };
        if minf.kid(want_hdr).is_none() || minf.kid(other_hdr).is_some() {
            o.fail("hdlr", format!("hdlr.media_header.{}.{}", kind, ctx), format!("{} track (handler {}): {} present = {}, {} present = {}", kind, fourcc(&h.handler), fourcc(want_hdr), minf.kid(want_hdr).is_some(), fourcc(other_hdr), minf.kid(other_hdr).is_some()));
        }
        if let Some(v) = minf.kid(b"vmhd") {
            let p = v.payload(d);
            if p.len() != 12 || p[0] != 0 {
                o.fail("vmhd", format!("vmhd.layout.{}", ctx), format!("vmhd payload {}", hex(p, 16)));
            }
            if p.len() >= 4 && p[1..4] != [0, 0, 1] {
                o.class("note:vmhd_flags_not_1");
            }
        }
        if let Some(v) = minf.kid(b"smhd") {
            let p = v.payload(d);
            if p.len() != 8 || p[0..4] != [0, 0, 0, 0] || p[6..8] != [0, 0] {
                o.fail("smhd", format!("smhd.layout.{}", ctx), format!("smhd payload {}", hex(p, 12)));
            }
        }
        if let Some(dref) = minf.path(&[b"dinf", b"dref"]) {
            let p = dref.payload(d);
            if p.len() < 8 || p[0..4] != [0, 0, 0, 0] || p[4..8] != [0, 0, 0, 1] {
                o.fail("dref", format!("dref.layout.{}", ctx), format!("dref header {}", hex(p, 8)));
            }
            if let Some(u) = dref.kids.first() {
                let up = u.payload(d);
                if &u.typ != b"url " || up != [0, 0, 0, 1] {
                    o.fail("dref", format!("dref.url.{}", ctx), format!("data entry '{}' payload {} (expected self-contained url: 00000001)", u.name(), hex(up, 8)));
                }
            }
        }
        // ---- sample tables: FullBox version 0 flags 0 (ctts may be version 1)
        let stbl = minf.kid(b"stbl").unwrap();
        for k in &stbl.kids {
            let p = k.payload(d);
            match &k.typ {
                b"stsd" | b"stts" | b"stsc" | b"stsz" | b"stco" | b"stss" | b"co64" => full_box_v0(o, &k.name(), p, ctx),
                b"ctts" => {
                    if p.len() < 4 || p[0] > 1 || p[1..4] != [0, 0, 0] {
                        o.fail("fullbox", format!("ctts.version_flags.{}", ctx), format!("ctts version/flags {}", hex(&p[..4.min(p.len())], 4)));
                    }
                }
                _ => {}
            }
        }
        // ---- sample entry
        let e = &t.entry;
        let pre = &e.prefix;
        if t.is_video {
            // reserved / pre_defined fields only; resolution, frame_count and depth are template fields (note)
            let ok = pre[0..6] == [0; 6] && e.data_ref_index == 1 && pre[8..24] == [0; 16] && pre[36..40] == [0; 4] && pre[42] <= 31 && pre[76..78] == [0xff, 0xff];
            if !ok {
                o.fail("visual_entry", format!("visual_entry.reserved.{}.{}", fourcc(&e.typ), ctx), format!("VisualSampleEntry reserved/pre_defined fields deviate: {}", hex(pre, 78)));
            }
            if !(pre[28..32] == [0, 0x48, 0, 0] && pre[32..36] == [0, 0x48, 0, 0] && pre[40..42] == [0, 1] && pre[74..76] == [0, 0x18]) {
                o.class("note:visual_entry_template_fields_not_default");
            }
            if want_dims.0 <= 65535 && want_dims.1 <= 65535 && (e.width as u32 != want_dims.0 || e.height as u32 != want_dims.1) {
                o.fail("visual_entry", format!("visual_entry.dims.{}.{}", fourcc(&e.typ), ctx), format!("sample entry {}x{} but configured {}x{}", e.width, e.height, want_dims.0, want_dims.1));
            }
        } else {
            let ok = pre[0..6] == [0; 6] && e.data_ref_index == 1 && pre[8..16] == [0; 8] && pre[20..24] == [0; 4];
            if !ok {
                o.fail("audio_entry", format!("audio_entry.reserved.{}.{}", fourcc(&e.typ), ctx), format!("AudioSampleEntry reserved/pre_defined fields deviate: {}", hex(pre, 28)));
            }
            if e.samplesize != 16 {
                o.class("note:audio_entry_samplesize_not_16");
            }
        }
        if let Some(err) = &e.config_err {
            o.fail("config_record", format!("config_record.undecodable.{}.{}", fourcc(&e.typ), ctx), format!("configuration record does not decode: {}", err));
        }
        let cp = &e.config_payload;
        match &e.config {
            ConfigRecord::Avc { version, reserved6, reserved3, length_size_minus_one, profile, sps, trailing, .. } => {
                if *version != 1 || *reserved6 != 0x3f || *reserved3 != 7 || *length_size_minus_one != 3 {
                    o.fail("avcC", format!("avcC.layout.{}", ctx), format!("avcC version {} reserved {:#x}/{:#x} lengthSizeMinusOne {}", version, reserved6, reserved3, length_size_minus_one));
                }
                // ISO/IEC 14496-15 5.2.4.1.1: for the High profiles (100, 110, 122, 144 in every edition) the record continues
                // with '111111' chroma_format(2), '11111' bit_depth_luma_minus8(3), '11111' bit_depth_chroma_minus8(3),
                // numOfSequenceParameterSetExt(8) and that many length-prefixed units; for the other profiles nothing follows.
                // (Profiles 244, 44, 83, 86, 118, 128 ... were added to the list by later editions: either form is accepted.)
                let must = matches!(*profile, 100 | 110 | 122 | 144);
                let may = matches!(*profile, 244 | 44 | 83 | 86 | 118 | 128 | 138 | 139 | 134);
                if trailing.is_empty() {
                    if must {
                        o.fail("avcC", format!("avcC.high_profile_fields_missing.{}", ctx), format!("avcC for profile_idc {} ends after the picture parameter sets: chroma_format / bit depths / SPS-extension count are missing", profile));
                    }
                } else if !(must || may) {
                    o.fail("avcC", format!("avcC.trailing_bytes.{}", ctx), format!("avcC for profile_idc {} carries {} bytes behind the picture parameter sets", profile, trailing.len()));
                } else {
                    let t = trailing;
                    let mut ok = t.len() >= 4 && t[0] & 0xfc == 0xfc && t[1] & 0xf8 == 0xf8 && t[2] & 0xf8 == 0xf8;
                    if ok {
                        let mut p2 = 4usize;
                        for _ in 0..t[3] {
                            match t.get(p2..p2 + 2) {
                                Some(l) => p2 += 2 + u16::from_be_bytes([l[0], l[1]]) as usize,
                                None => {
                                    ok = false;
                                    break;
                                }
                            }
                        }
                        ok = ok && p2 == t.len();
                    }
                    if !ok {
                        o.fail("avcC", format!("avcC.high_profile_fields_layout.{}", ctx), format!("avcC extension bytes {} do not follow the High-profile layout", hex(t, 12)));
                    } else if let Some((chroma, luma8, chroma8)) = sps.first().and_then(|u| avc_sps_front(u)) {
                        // the values must be those of the sequence parameter set the record carries
                        let got = (t[0] & 3, t[1] & 7, t[2] & 7);
                        if got != (chroma, luma8, chroma8) {
                            o.fail(
                                "avcC",
                                format!("avcC.high_profile_fields_vs_sps.{}", ctx),
                                format!("avcC says chroma_format {} bit depths 8+{} / 8+{}, its SPS says chroma_format {} bit depths 8+{} / 8+{}", got.0, got.1, got.2, chroma, luma8, chroma8),
                            );
                        }
                    }
                }
            }
            ConfigRecord::Hevc { version, arrays, trailing, .. } => {
                let r_ok = cp.len() >= 23 && cp[13] & 0xf0 == 0xf0 && cp[15] & 0xfc == 0xfc && cp[16] & 0xfc == 0xfc && cp[17] & 0xf8 == 0xf8 && cp[18] & 0xf8 == 0xf8;
                if *version != 1 || *trailing != 0 {
                    o.fail("hvcC", format!("hvcC.layout.{}", ctx), format!("hvcC version {} trailing bytes {}", version, trailing));
                }
                if !r_ok {
                    o.fail("hvcC", format!("hvcC.reserved_bits.{}", ctx), format!("hvcC reserved bits are not all ones: bytes 13..19 = {}", hex(&cp[13..19.min(cp.len())], 6)));
                }
                if arrays.iter().any(|(b, _)| b & 0x40 != 0) {
                    o.fail("hvcC", format!("hvcC.array_reserved.{}", ctx), "hvcC array reserved bit set");
                }
                // chromaFormat / bitDepthLumaMinus8 / bitDepthChromaMinus8 are copies of the SPS's values (14496-15 8.3.3.1.2)
                if r_ok {
                    if let Some(spsu) = arrays.iter().find(|(b, _)| b & 0x3f == 33).and_then(|(_, u)| u.first()) {
                        if let Some(want) = hevc_sps_front(spsu) {
                            // general_profile_space .. general_level_idc: the twelve bytes of the SPS's general
                            // profile_tier_level(), which the record repeats verbatim (14496-15 8.3.3.1.2)
                            if let Some(ptl) = hevc_general_ptl(spsu) {
                                if cp[1..13] != ptl[..] {
                                    let which = if cp[1] != ptl[0] { "profile" } else if cp[12] != ptl[11] { "level" } else if cp[2..6] != ptl[1..5] { "compatibility_flags" } else { "constraint_flags" };
                                    o.fail(
                                        "hvcC",
                                        format!("hvcC.general_ptl_vs_sps.{}.{}", which, ctx),
                                        format!("hvcC general profile/tier/level bytes {} but the SPS it carries has {}", hex(&cp[1..13], 12), hex(&ptl, 12)),
                                    );
                                }
                            }
                            let got = (cp[16] & 3, cp[17] & 7, cp[18] & 7);
                            if got != (want.0, want.1 & 7, want.2 & 7) {
                                let how = if got == (1, 0, 0) { "record_says_420_8bit" } else { "other" };
                                o.fail(
                                    "hvcC",
                                    format!("hvcC.chroma_bitdepth_vs_sps.{}.{}", how, ctx),
                                    format!("hvcC says chroma format {} bit depths 8+{} / 8+{}, the SPS it carries says chroma format {} bit depths 8+{} / 8+{}", got.0, got.1, got.2, want.0, want.1, want.2),
                                );
                            }
                        }
                    }
                }
                // progressive files take the sets from the first keyframe, where they were legal NAL units: each array entry
                // must still be one (its type is the array's type; no 00 00 00 / 00 00 01 / 00 00 02 inside, H.265 7.4.2)
                if ctx == "progressive" {
                    for (b, units) in arrays {
                        for u in units {
                            let typ = u.first().map(|h| (h >> 1) & 0x3f).unwrap_or(255);
                            let forbidden = u.windows(3).any(|w| w[0] == 0 && w[1] == 0 && w[2] <= 2);
                            if typ != (b & 0x3f) || forbidden {
                                o.fail("hvcC", format!("hvcC.nal_unit.{}", ctx), format!("hvcC array of type {} holds {} which is not a NAL unit of that type (forbidden zero sequence: {})", b & 0x3f, hex(u, 24), forbidden));
                            }
                        }
                    }
                }
            }
            ConfigRecord::Av1 { raw4, config_obus } => {
                let delay_present = raw4[3] & 0x10 != 0;
                if raw4[0] != 0x81 || raw4[3] & 0xe0 != 0 || (!delay_present && raw4[3] & 0x0f != 0) {
                    o.fail("av1C", format!("av1C.layout.{}", ctx), format!("av1C header {}", hex(raw4, 4)));
                }
                // configOBUs: complete OBUs that tile the rest of the record exactly, the first one a sequence header
                if let Err(why) = tile_obus(config_obus) {
                    o.fail("av1C", format!("av1C.config_obus_layout.{}", ctx), format!("av1C configOBUs {}: {}", hex(config_obus, 24), why));
                } else if let Some((profile, level0, tier0)) = seq_header_front(config_obus) {
                    // AV1-ISOBMFF 2.3.3: seq_profile, seq_level_idx_0 and seq_tier_0 of the record shall match the Sequence
                    // Header OBU carried in configOBUs
                    let rec = (raw4[1] >> 5, raw4[1] & 0x1f, raw4[2] >> 7);
                    if rec != (profile, level0, tier0) {
                        o.fail(
                            "av1C",
                            format!("av1C.fields_vs_config_obus.{}", ctx),
                            format!("av1C says profile {} level {} tier {}, the sequence header in its configOBUs says profile {} level {} tier {}", rec.0, rec.1, rec.2, profile, level0, tier0),
                        );
                    }
                }
            }
            ConfigRecord::Vp9Raw { payload } => {
                if payload.len() < 12 || payload[0] != 1 || payload[1..4] != [0, 0, 0] || payload.len() != 12 + u16::from_be_bytes([payload[10], payload[11]]) as usize {
                    o.fail("vpcC", format!("vpcC.layout.{}", ctx), format!("vpcC payload {} is not FullBox v1 + record", hex(payload, 16)));
                }
            }
            ConfigRecord::Esds { vf, object_type, stream_type_byte, sl_predefined, lens_consistent, es_flags, .. } => {
                let _ = es_flags; // optional ES_Descriptor fields are legal; the decoder skips them
                if *vf != 0 || *object_type != 0x40 || *stream_type_byte != 0x15 || *sl_predefined != Some(2) || !lens_consistent {
                    o.fail("esds", format!("esds.layout.{}", ctx), format!("esds vf {:#x} objectType {:#x} streamType byte {:#x} SL predefined {:?} nested lengths consistent {}", vf, object_type, stream_type_byte, sl_predefined, lens_consistent));
                }
            }
            ConfigRecord::Dops { payload } => {
                let ch = e.channels as usize;
                let fam = payload.get(10).copied().unwrap_or(255);
                let want = if fam == 0 { 11 } else { 13 + payload.get(1).copied().unwrap_or(0) as usize };
                if payload.len() != want || payload[0] != 0 || (ch <= 255 && payload[1] as usize != ch) {
                    o.fail("dOps", format!("dOps.layout.family{}.{}", fam, ctx), format!("dOps {} ({} bytes) for {} channels: expected {} bytes for mapping family {}", hex(payload, 24), payload.len(), ch, want, fam));
                }
            }
            ConfigRecord::None => {}
        }
    }
    if let Some(&max_id) = ids.iter().max() {
        if mv.next_track_id <= max_id {
            o.fail(
                "mvhd",
                format!("mvhd.next_track_id={}.tracks={}.{}", mv.next_track_id, ids.len(), ctx),
                format!("next_track_ID {} is not above the largest track id {}", mv.next_track_id, max_id),
            );
        }
    }
    // udta/meta
    if let Some(meta) = moov.path(&[b"udta", b"meta"]) {
        let p = meta.payload(d);
        if p.len() < 4 || p[0..4] != [0, 0, 0, 0] {
            o.fail("meta", format!("meta.version_flags.{}", ctx), "meta is not FullBox version 0 flags 0");
        }
        if let Some(h) = meta.kid(b"hdlr") {
            if let Ok(hd) = dec_hdlr(h.payload(d)) {
                if hd.vf != 0 || hd.predefined != 0 || !hd.name_nul_terminated {
                    o.fail("meta", format!("meta.hdlr.{}", ctx), "meta hdlr layout");
                }
            }
        }
    }
    for t in &m.mvex_trex {
        if t.payload_len != 24 || t.vf != 0 || !ids.contains(&t.track_id) || t.default_sdi == 0 {
            o.fail("trex", format!("trex.layout.{}", ctx), format!("trex {:?}", t));
        }
    }
}

/// The 12 bytes of the general part of profile_tier_level() of an H.265 SPS NAL unit (after removing emulation prevention).
pub fn hevc_general_ptl(nal: &[u8]) -> Option<[u8; 12]> {
    let mut rbsp = Vec::new();
    let mut zeros = 0;
    for &b in nal.get(2..)? {
        if zeros >= 2 && b == 3 {
            zeros = 0;
            continue;
        }
        zeros = if b == 0 { zeros + 1 } else { 0 };
        rbsp.push(b);
        if rbsp.len() == 13 {
            break;
        }
    }
    let mut out = [0u8; 12];
    out.copy_from_slice(rbsp.get(1..13)?);
    Some(out)
}

/// chroma_format_idc, bit_depth_luma_minus8, bit_depth_chroma_minus8 of an H.265 sequence parameter set NAL unit
/// (H.265 7.3.2.2.1 with profile_tier_level 7.3.3); None when the unit ends early or holds impossible values.
pub fn hevc_sps_front(nal: &[u8]) -> Option<(u8, u8, u8)> {
    if nal.len() < 15 || (nal[0] >> 1) & 0x3f != 33 {
        return None;
    }
    let mut rbsp = Vec::with_capacity(nal.len());
    let mut zeros = 0;
    for &b in &nal[2..] {
        if zeros >= 2 && b == 3 {
            zeros = 0;
            continue;
        }
        zeros = if b == 0 { zeros + 1 } else { 0 };
        rbsp.push(b);
    }
    struct Bits<'a> {
        d: &'a [u8],
        p: usize,
    }
    impl Bits<'_> {
        fn u(&mut self, n: usize) -> Option<u64> {
            let mut v = 0u64;
            for _ in 0..n {
                let byte = *self.d.get(self.p / 8)?;
                v = (v << 1) | ((byte >> (7 - self.p % 8)) & 1) as u64;
                self.p += 1;
            }
            Some(v)
        }
        fn skip(&mut self, n: usize) -> Option<()> {
            if (self.p + n + 7) / 8 > self.d.len() + 1 && self.p + n > self.d.len() * 8 {
                return None;
            }
            self.p += n;
            Some(())
        }
        fn ue(&mut self) -> Option<u32> {
            let mut z = 0;
            while self.u(1)? == 0 {
                z += 1;
                if z > 31 {
                    return None;
                }
            }
            Some((1u32 << z) - 1 + if z > 0 { self.u(z)? as u32 } else { 0 })
        }
    }
    let mut b = Bits { d: &rbsp, p: 0 };
    b.u(4)?;
    let msl = b.u(3)? as usize;
    b.u(1)?;
    if msl > 6 {
        return None;
    }
    b.skip(96)?;
    let mut present = Vec::new();
    for _ in 0..msl {
        present.push((b.u(1)? == 1, b.u(1)? == 1));
    }
    if msl > 0 {
        for _ in msl..8 {
            b.u(2)?;
        }
    }
    for (p, l) in present {
        if p {
            b.skip(88)?;
        }
        if l {
            b.skip(8)?;
        }
    }
    let _id = b.ue()?;
    let chroma = b.ue()?;
    if chroma > 3 {
        return None;
    }
    if chroma == 3 {
        b.u(1)?;
    }
    let w = b.ue()?;
    let h = b.ue()?;
    if w == 0 || h == 0 || w > 16384 || h > 16384 {
        return None;
    }
    if b.u(1)? == 1 {
        for _ in 0..4 {
            b.ue()?;
        }
    }
    let l8 = b.ue()?;
    let c8 = b.ue()?;
    if l8 > 8 || c8 > 8 {
        return None;
    }
    Some((chroma as u8, l8 as u8, c8 as u8))
}

/// chroma_format_idc, bit_depth_luma_minus8, bit_depth_chroma_minus8 of an H.264 sequence parameter set NAL unit of one of
/// the profiles that code them (H.264 7.3.2.1.1); None when the unit is too short or the values are out of range.
fn avc_sps_front(nal: &[u8]) -> Option<(u8, u8, u8)> {
    if nal.len() < 5 || nal[0] & 0x1f != 7 {
        return None;
    }
    // remove emulation prevention bytes
    let mut rbsp = Vec::with_capacity(nal.len());
    let mut zeros = 0;
    for &b in &nal[1..] {
        if zeros >= 2 && b == 3 {
            zeros = 0;
            continue;
        }
        zeros = if b == 0 { zeros + 1 } else { 0 };
        rbsp.push(b);
    }
    let profile = rbsp[0];
    if !matches!(profile, 100 | 110 | 122 | 244 | 44 | 83 | 86 | 118 | 128 | 138 | 139 | 134 | 135 | 144) {
        return None;
    }
    let mut bit = 24usize; // profile_idc, constraint flags, level_idc
    let mut rd = |n: usize| -> Option<u32> {
        let mut v = 0u32;
        for _ in 0..n {
            let byte = *rbsp.get(bit / 8)?;
            v = (v << 1) | ((byte >> (7 - bit % 8)) & 1) as u32;
            bit += 1;
        }
        Some(v)
    };
    let ue = |rd: &mut dyn FnMut(usize) -> Option<u32>| -> Option<u32> {
        let mut zeros = 0;
        while rd(1)? == 0 {
            zeros += 1;
            if zeros > 31 {
                return None;
            }
        }
        Some((1u32 << zeros) - 1 + if zeros > 0 { rd(zeros)? } else { 0 })
    };
    let _sps_id = ue(&mut rd)?;
    let chroma = ue(&mut rd)?;
    if chroma > 3 {
        return None;
    }
    if chroma == 3 {
        rd(1)?; // separate_colour_plane_flag
    }
    let luma8 = ue(&mut rd)?;
    let chroma8 = ue(&mut rd)?;
    if luma8 > 6 || chroma8 > 6 {
        return None;
    }
    Some((chroma as u8, luma8 as u8, chroma8 as u8))
}

/// seq_profile, seq_level_idx[0] and seq_tier[0] of the sequence header OBU at the start of `d` (AV1 spec 5.5.1; only the part
/// of the syntax in front of them is read).  None when the OBU is not a sequence header or ends early.
fn seq_header_front(d: &[u8]) -> Option<(u8, u8, u8)> {
    let h = *d.first()?;
    if (h >> 3) & 0xf != 1 {
        return None;
    }
    let mut p = 1usize;
    if h & 4 != 0 {
        p += 1;
    }
    let payload: &[u8] = if h & 2 != 0 {
        let mut size = 0u64;
        let mut shift = 0;
        loop {
            let b = *d.get(p)?;
            p += 1;
            size |= ((b & 0x7f) as u64) << shift;
            shift += 7;
            if b & 0x80 == 0 || shift >= 56 {
                break;
            }
        }
        d.get(p..p.checked_add(size as usize)?)?
    } else {
        d.get(p..)?
    };
    let mut bit = 0usize;
    let mut rd = |n: usize| -> Option<u64> {
        let mut v = 0u64;
        for _ in 0..n {
            let byte = *payload.get(bit / 8)?;
            v = (v << 1) | ((byte >> (7 - bit % 8)) & 1) as u64;
            bit += 1;
        }
        Some(v)
    };
    let profile = rd(3)? as u8;
    let _still = rd(1)?;
    let reduced = rd(1)? == 1;
    if reduced {
        let level = rd(5)? as u8;
        return Some((profile, level, 0));
    }
    let timing = rd(1)? == 1;
    let mut decoder_model = false;
    if timing {
        rd(32)?;
        rd(32)?;
        if rd(1)? == 1 {
            // uvlc
            let mut zeros = 0;
            while rd(1)? == 0 {
                zeros += 1;
                if zeros > 32 {
                    return None;
                }
            }
            if zeros < 32 {
                rd(zeros)?;
            }
        }
        decoder_model = rd(1)? == 1;
        if decoder_model {
            rd(5)?;
            rd(32)?;
            rd(5)?;
            rd(5)?;
        }
    }
    let _ = decoder_model;
    let _initial_display_delay_present = rd(1)?;
    let _cnt_minus_1 = rd(5)?;
    let _idc = rd(12)?;
    let level = rd(5)? as u8;
    let tier = if level > 7 { rd(1)? as u8 } else { 0 };
    Some((profile, level, tier))
}

/// Strict walk over an OBU sequence (AV1 spec 5.3): forbidden bit 0, header (+ extension byte), leb128 size that fits;
/// an OBU without a size field runs to the end.  The first OBU must be a sequence header (type 1).
fn tile_obus(d: &[u8]) -> Result<(), String> {
    let mut p = 0usize;
    let mut first = true;
    while p < d.len() {
        let h = d[p];
        if h & 0x80 != 0 {
            return Err(format!("forbidden bit set in the OBU header at {}", p));
        }
        let typ = (h >> 3) & 15;
        if first && typ != 1 {
            return Err(format!("first OBU has type {} (expected the sequence header, 1)", typ));
        }
        first = false;
        let mut q = p + 1;
        if h & 4 != 0 {
            q += 1;
        }
        if h & 2 == 0 {
            if q > d.len() {
                return Err("OBU header runs past the end".into());
            }
            return Ok(());
        }
        let mut size: u64 = 0;
        let mut done = false;
        for i in 0..8 {
            let b = match d.get(q) {
                Some(b) => *b,
                None => return Err("leb128 size runs past the end".into()),
            };
            q += 1;
            size |= ((b & 0x7f) as u64) << (7 * i);
            if b & 0x80 == 0 {
                done = true;
                break;
            }
        }
        if !done {
            return Err("leb128 size longer than 8 bytes".into());
        }
        if q as u64 + size > d.len() as u64 {
            return Err(format!("OBU at {} declares {} payload bytes but only {} remain", p, size, d.len() - q.min(d.len())));
        }
        p = q + size as usize;
    }
    if first {
        return Err("empty".into());
    }
    Ok(())
}

pub fn eval_prog(c: &ValidCase) -> Outcome {
    let mut o = Outcome::default();
    let l = lower(c);
    let run = run_history(&l.cfg, &l.ops);
    if let Some(p) = &run.panic {
        o.aborted_by_panic = Some(p.clone());
        return o;
    }
    if run.finished_at.is_none() {
        o.class("finish_not_ok");
        return o;
    }
    let (tree, m) = match parse_movie(&run.out) {
        Ok(x) => x,
        Err(_) => {
            o.class("unparseable_not_judged(C02)");
            return o;
        }
    };
    let known = |_s: &str| true; // whether a signature is listed is decided by the engine; keep judging shifted fields always
    check_moov(&mut o, &run.out, &tree, &m, "progressive", (l.cfg.width, l.cfg.height), 1000, 90000, &known);
    o.nontrivial = l.cfg.has_audio() || l.cfg.codec != 0;
    o.class(["h264", "h265", "av1", "vp9"][l.cfg.codec as usize % 4]);
    if l.cfg.is_aac() {
        o.class("aac");
    } else if l.cfg.has_audio() {
        o.class("opus");
        if l.cfg.channels > 2 {
            o.class("opus_multichannel");
        }
    }
    if l.cfg.title.is_some() || l.cfg.ctime.is_some() {
        o.class("metadata");
    }
    o
}

pub fn eval_frag(c: &FragCase) -> Outcome {
    use crate::fragcase::*;
    let mut o = Outcome::default();
    let mut c = c.clone();
    c.ops.insert(0, FGene::Init);
    c.ops.push(FGene::Flush);
    for g in c.ops.iter_mut() {
        if let FGene::Write { back, .. } = g {
            *back = None;
        }
    }
    let l = lower(&c);
    let mut scratch = Outcome::default();
    let t = run_and_check(&mut scratch, &l, false);
    if let Some(p) = &t.panic {
        o.aborted_by_panic = Some(p.clone());
        return o;
    }
    if let Some(init) = t.inits.first() {
        match parse_movie(init) {
            Ok((tree, m)) => {
                let known = |_s: &str| true;
                check_moov(&mut o, init, &tree, &m, "fragmented", (l.cfg.width, l.cfg.height), l.cfg.timescale, l.cfg.timescale, &known);
                if m.mvex_trex.is_empty() {
                    o.fail("trex", "trex.missing.fragmented", "init segment without mvex/trex");
                }
            }
            Err(_) => o.class("unparseable_not_judged(C02)"),
        }
    }
    for e in &t.emitted {
        if let Ok(s) = &e.parsed {
            if s.mfhd_len != 8 || s.mfhd_vf != 0 {
                o.fail("mfhd", "mfhd.layout", format!("mfhd payload {} vf {:#x}", s.mfhd_len, s.mfhd_vf));
            }
            if s.tfdt_flags != 0 || s.tfdt_len != if s.tfdt_version == 1 { 12 } else { 8 } {
                o.fail("tfdt", "tfdt.layout", format!("tfdt v{} payload {} flags {:#x}", s.tfdt_version, s.tfdt_len, s.tfdt_flags));
            }
            if s.track_id != 1 && s.track_id == 0 {
                o.fail("tfhd", "tfhd.track_id", "tfhd track id 0");
            }
            if s.tfhd_flags & 0x1 == 0 && s.tfhd_flags & 0x020000 == 0 {
                o.class("note:tfhd_without_default_base_is_moof");
            }
        }
    }
    o.nontrivial = true;
    o.class(["h264", "h265", "av1", "vp9"][(c.codec % 4) as usize]);
    o
}

fn strat(t: Tier) -> proptest::strategy::BoxedStrategy<ValidCase> {
    let _ = t;
    valid_case_strategy(3, 3).boxed()
}
fn strat_frag(_t: Tier) -> proptest::strategy::BoxedStrategy<FragCase> {
    fragcase::frag_case_strategy(6).boxed()
}

pub fn def() -> PropertyDef {
    PropertyDef {
        fuzz_targets: &[],
        id: "C19",
        level: "exploration",
        rule: "all codec x audio (6 AAC profiles, Opus 1..8 channels) x metadata x layout configurations with 0..3 frames, dims 1..65535, 13 rates, and \
               the four codecs' init + media segments; every fixed-layout box (ftyp, mvhd, tkhd, mdhd, hdlr, vmhd, smhd, dref/url, stsd, sample entries, \
               avcC/hvcC/av1C/vpcC/esds/dOps, table FullBox headers, meta, trex, mfhd, tfhd, tfdt, trun) is decoded strictly per ISO/IEC 14496-12/-14/-15 \
               and the AV1/VP9/Opus bindings: size, version, flags, reserved bits, field positions. Non-trivial = audio present, non-H.264 codec, or fragmented",
        assumptions: &[
            "when a box's size clause fails with a listed signature its remaining fields are judged at the positions that deviation implies (tkhd)",
            "vmhd flags != 1 and template fields with customary defaults (mvhd rate/volume, tkhd layer/alternate_group, 72 dpi, frame_count, depth, samplesize) are only reported as notes: they are not among size/version/reserved bits/field positions",
        ],
        subs: vec![
            Box::new(PSub { name: "progressive", quick: 20000, thorough: 600000, strat, eval: eval_prog }),
            Box::new(PSub { name: "fragmented", quick: 12000, thorough: 300000, strat: strat_frag, eval: eval_frag }),
        ],
    }
}
