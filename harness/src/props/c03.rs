//! C03 — decode and composition timing in the file equals the submitted timestamps.

use crate::engine::*;
use crate::exec::run_history;
use crate::mp4check::*;
use crate::reader::Track;
use crate::scenario::*;
use proptest::strategy::Strategy;

pub fn check_track(o: &mut Outcome, name: &str, t: &Track, exp: &[&ExpSample], is_video: bool) {
    let n = exp.len();
    if t.samples.len() != n {
        // C01's business; timing cannot be judged
        o.class("count_mismatch_not_judged");
        return;
    }
    if n == 0 {
        return;
    }
    let mut acc_ok = true;
    for i in 0..n.saturating_sub(1) {
        if exp[i].tie || exp[i + 1].tie {
            o.unconstrained.push("half_tick_tie".into());
            acc_ok = false;
            continue;
        }
        let want = exp[i + 1].dts as i128 - exp[i].dts as i128;
        let got = t.samples[i].duration as i128;
        if want != got {
            o.fail(
                "delta",
                format!("delta.{}", name),
                format!("{} sample {}: stts delta {} but submitted decode times differ by {} ticks", name, i, got, want),
            );
            return;
        }
    }
    if acc_ok {
        for i in 0..n {
            let want = exp[i].dts - exp[0].dts;
            if t.samples[i].dts != want {
                o.fail(
                    "no_drift",
                    format!("no_drift.{}", name),
                    format!("{} sample {}: accumulated decode time {} != {} (submitted, relative to first)", name, i, t.samples[i].dts, want),
                );
                return;
            }
        }
    }
    if n >= 2 && t.samples[n - 1].duration != t.samples[n - 2].duration {
        o.fail(
            "last",
            format!("last.{}", name),
            format!(
                "{}: final sample duration {} != preceding interval {}",
                name,
                t.samples[n - 1].duration,
                t.samples[n - 2].duration
            ),
        );
    }
    // composition offsets
    let mut any_nonzero = false;
    for i in 0..n {
        if exp[i].tie {
            continue;
        }
        let want = exp[i].pts as i64 - exp[i].dts as i64;
        if want != 0 {
            any_nonzero = true;
        }
        if t.samples[i].cts != want {
            o.fail(
                "cts",
                format!("cts.{}{}", name, if want < 0 { ".negative" } else { "" }),
                format!(
                    "{} sample {}: composition offset in file {} (ctts v{}), submitted pts-dts = {}",
                    name,
                    i,
                    t.samples[i].cts,
                    t.ctts.as_ref().map(|c| c.version as i32).unwrap_or(-1),
                    want
                ),
            );
            return;
        }
    }
    if !exp.iter().any(|e| e.tie) {
        if t.ctts.is_some() != any_nonzero {
            o.fail(
                "ctts_iff",
                format!("ctts_iff.{}.present={}", name, t.ctts.is_some()),
                format!("{}: ctts present = {}, some non-zero offset = {}", name, t.ctts.is_some(), any_nonzero),
            );
        }
    }
    if !is_video && t.ctts.is_some() {
        o.fail("ctts_iff", "ctts_iff.audio.present", "audio track carries a ctts");
    }
    let sum: u64 = t.samples.iter().map(|s| s.duration as u64).sum();
    if sum <= u32::MAX as u64 || t.mdhd.version == 1 {
        if t.mdhd.duration != sum {
            o.fail(
                "mdhd_sum",
                format!("mdhd_sum.{}", name),
                format!("{}: mdhd duration {} != sum of sample durations {}", name, t.mdhd.duration, sum),
            );
        }
    } else {
        // a version-0 mdhd cannot hold the sum: whatever it declares differs from the sum of the sample durations
        o.fail(
            "mdhd_sum",
            format!("mdhd_sum.{}.beyond_32bit", name),
            format!("{}: the sample durations sum to {} (> 2^32 - 1) but mdhd is version 0 and declares {}", name, sum, t.mdhd.duration),
        );
    }
}

pub fn eval(c: &ValidCase) -> Outcome {
    let mut o = Outcome::default();
    let l = lower(c);
    let run = run_history(&l.cfg, &l.ops);
    if let Some(p) = &run.panic {
        o.aborted_by_panic = Some(p.clone());
        return o;
    }
    if run.finished_at.is_none() {
        o.class("finish_not_ok");
        return o;
    }
    let (v, a) = accepted(&l, &run);
    let p = match parse(&run.out) {
        Ok(p) => p,
        Err(e) if e.starts_with("counts: stts") || e.starts_with("counts: ctts") => {
            // the timing table itself does not give every sample a decode delta / composition offset
            let which = &e[8..12];
            o.fail("coverage", format!("coverage.{}", which), format!("{}: not every sample of the track has its timing in the file", e));
            return o;
        }
        Err(_) => {
            o.class("unparseable_not_judged(C02)");
            return o;
        }
    };
    if let Some(vt) = video_track(&p.movie) {
        check_track(&mut o, "video", vt, &v, true);
    }
    if let Some(at) = audio_track(&p.movie) {
        check_track(&mut o, "audio", at, &a, false);
    }
    let mut deltas: Vec<u64> = v.windows(2).map(|w| w[1].dts - w[0].dts).collect();
    deltas.sort();
    deltas.dedup();
    let reord = v.iter().any(|s| s.pts != s.dts);
    let ntsc = matches!(c.fps_mode, Some(2) | Some(5) | Some(8));
    o.nontrivial = (v.len() >= 3 && deltas.len() >= 2) || (v.len() >= 3 && ntsc) || (v.len() >= 2 && reord) || v.len() + a.len() > 1024;
    if v.iter().any(|s| s.pts < s.dts) {
        o.class("negative_cts");
    }
    if reord {
        o.class("reordered");
    }
    if ntsc {
        o.class("1001_rate_caller_arithmetic");
    }
    if c.fps_mode.is_some() {
        o.class("caller_arithmetic_i_div_fps");
    }
    if a.windows(2).any(|w| w[0].pts == w[1].pts) {
        o.class("equal_audio_timestamps");
    }
    if v.first().map(|s| s.dts != 0).unwrap_or(false) {
        o.class("start_nonzero");
    }
    if v.len() >= 1000 {
        o.class("n_ge_1000");
    }
    if v.len() == 1 {
        o.class("single_sample");
    }
    o
}

fn strat(t: Tier) -> proptest::strategy::BoxedStrategy<ValidCase> {
    match t {
        Tier::Quick => proptest::prop_oneof![
            8 => valid_case_strategy(30, 30),
            2 => valid_case_strategy(400, 100),
        ]
        .boxed(),
        Tier::Thorough => proptest::prop_oneof![
            60 => valid_case_strategy(40, 60),
            15 => valid_case_strategy(400, 200),
            1 => valid_case_strategy(20000, 2000),
        ]
        .boxed(),
    }
}

/// The convenience calls compute the timestamps themselves (frame index / frame rate, running sample count / sample rate): the
/// decode deltas in the file must equal those of the documented instants (C17's path generator and tick arithmetic,
/// restricted to the timing clause).
fn eval_auto(c: &crate::props::c17::PathCase) -> Outcome {
    let inner = crate::props::c17::eval_paths(c);
    let mut o = Outcome::default();
    o.nontrivial = inner.nontrivial;
    o.sub_evals = inner.sub_evals;
    o.aborted_by_panic = inner.aborted_by_panic;
    for mut v in inner.violations {
        if v.clause == "auto_ticks" {
            v.clause = "delta".into();
            v.sig = format!("delta.{}", v.sig);
            o.violations.push(v);
        }
    }
    o
}

pub fn def() -> PropertyDef {
    PropertyDef {
        fuzz_targets: &["c01_scenario"],
        id: "C03",
        level: "exploration",
        rule: "timelines in ticks (+ sub-tick jitter up to 0.49 tick) or computed as i/fps like a caller (incl. 1001-rates), VFR gaps 1 tick..2^32-1, \
               non-zero starts, reorderings with positive and negative composition offsets; stts/ctts/mdhd read back and compared with exact \
               integer tick arithmetic; non-trivial = >=3 samples with >=2 distinct deltas, or a 1001-rate, or reordering, or more than 1 024 samples",
        assumptions: &["half-tick ties (exact product within 2 ulp of .5) are accepted either way and counted as unconstrained"],
        subs: vec![Box::new(PSub { name: "timing", quick: 30000, thorough: 800000, strat, eval }), Box::new(PSub { name: "totals_near_2^32", quick: 6000, thorough: 150000, strat: crate::props::c16::timeline_strategy, eval }), Box::new(PSub { name: "auto_timestamps", quick: 6000, thorough: 150000, strat: crate::props::c17::path_strategy, eval: eval_auto }), Box::new(LSub { name: "long_recordings", cases: long_cases_all, eval, note: LONG_NOTE })],
    }
}
