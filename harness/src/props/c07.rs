//! C07 — the codec configuration in the file is exactly that of the submitted stream.

use crate::engine::*;
use crate::exec::{run_history, CCfg, COp, FinishKind};
use crate::frag::*;
use crate::gen::*;
use crate::mp4check::*;
use crate::reader::{fourcc, parse_movie, ConfigRecord, SampleEntry};
use crate::scenario::{av1_seq_strategy, vp9_key_strategy};
use proptest::collection::vec;
use proptest::prelude::*;
use serde::{Deserialize, Serialize};

// ------------------------------------------------------------------------------------------
// shared entry checks

fn check_dims(o: &mut Outcome, e: &SampleEntry, want_type: &[u8; 4], w: u32, h: u32, ctx: &str) {
    if &e.typ != want_type {
        o.fail(
            "entry_type",
            format!("entry_type.{}={}", ctx, fourcc(&e.typ)),
            format!("sample entry type '{}' expected '{}'", fourcc(&e.typ), fourcc(want_type)),
        );
    }
    if w <= 65535 && h <= 65535 && (e.width as u32 != w || e.height as u32 != h) {
        o.fail(
            "dims",
            format!("dims.{}", ctx),
            format!("sample entry dims {}x{} but configured {}x{}", e.width, e.height, w, h),
        );
    }
}

fn check_avc(o: &mut Outcome, e: &SampleEntry, sps: &[u8], pps: &[u8], ctx: &str) {
    match &e.config {
        ConfigRecord::Avc { version, profile, compat, level, reserved6, length_size_minus_one, reserved3, sps: s, pps: p, .. } => {
            if *version != 1 {
                o.fail("avcC", format!("avcC.version.{}", ctx), format!("configurationVersion {}", version));
            }
            if *length_size_minus_one != 3 {
                o.fail("avcC", format!("avcC.length_size.{}", ctx), format!("lengthSizeMinusOne {} but samples use 4-byte lengths", length_size_minus_one));
            }
            if *reserved6 != 0x3f || *reserved3 != 7 {
                o.fail("avcC", format!("avcC.reserved.{}", ctx), "reserved bits of avcC are not all ones");
            }
            if s.len() != 1 || s[0] != sps {
                o.fail(
                    "avcC",
                    format!("avcC.sps.{}", ctx),
                    format!("avcC SPS list {:?} but first SPS of the keyframe is {}", s.iter().map(|x| hex(x, 12)).collect::<Vec<_>>(), hex(sps, 12)),
                );
            }
            if p.len() != 1 || p[0] != pps {
                o.fail(
                    "avcC",
                    format!("avcC.pps.{}", ctx),
                    format!("avcC PPS list {:?} but first PPS of the keyframe is {}", p.iter().map(|x| hex(x, 12)).collect::<Vec<_>>(), hex(pps, 12)),
                );
            }
            if sps.len() >= 4 && (*profile, *compat, *level) != (sps[1], sps[2], sps[3]) {
                o.fail(
                    "avcC",
                    format!("avcC.profile_level.{}", ctx),
                    format!("avcC profile/compat/level {:02x} {:02x} {:02x} but SPS carries {:02x} {:02x} {:02x}", profile, compat, level, sps[1], sps[2], sps[3]),
                );
            }
        }
        other => o.fail("avcC", format!("avcC.missing.{}", ctx), format!("no avcC record (found {:?})", std::mem::discriminant(other))),
    }
}

fn check_hevc(o: &mut Outcome, e: &SampleEntry, vps: &[u8], sps: &[u8], pps: &[u8], ctx: &str) {
    match &e.config {
        ConfigRecord::Hevc { version, length_size_minus_one, arrays, trailing, .. } => {
            if *version != 1 {
                o.fail("hvcC", format!("hvcC.version.{}", ctx), format!("configurationVersion {}", version));
            }
            if *length_size_minus_one != 3 {
                o.fail("hvcC", format!("hvcC.length_size.{}", ctx), format!("lengthSizeMinusOne {}", length_size_minus_one));
            }
            if *trailing != 0 {
                o.fail("hvcC", format!("hvcC.trailing.{}", ctx), format!("{} unparsed bytes after the arrays", trailing));
            }
            for (t, want, name) in [(32u8, vps, "vps"), (33, sps, "sps"), (34, pps, "pps")] {
                let found: Vec<&Vec<Vec<u8>>> = arrays.iter().filter(|(b, _)| b & 0x3f == t).map(|(_, n)| n).collect();
                if found.len() != 1 || found[0].len() != 1 || found[0][0] != want {
                    o.fail(
                        "hvcC",
                        format!("hvcC.{}.{}", name, ctx),
                        format!(
                            "hvcC array for NAL type {} holds {:?}, expected exactly the first {} of the keyframe {}",
                            t,
                            found.iter().map(|n| n.iter().map(|x| hex(x, 10)).collect::<Vec<_>>()).collect::<Vec<_>>(),
                            name,
                            hex(want, 10)
                        ),
                    );
                }
            }
        }
        _ => o.fail("hvcC", format!("hvcC.missing.{}", ctx), "no hvcC record"),
    }
}

fn check_av1(o: &mut Outcome, e: &SampleEntry, obu: &[u8], x: &Av1Expect, ctx: &str) {
    match &e.config {
        ConfigRecord::Av1 { raw4, config_obus } => {
            if raw4[0] != 0x81 {
                o.fail("av1C", format!("av1C.marker_version={:#04x}.{}", raw4[0], ctx), format!("av1C first byte {:#04x}, expected marker=1 version=1 (0x81)", raw4[0]));
            }
            if config_obus != obu {
                o.fail(
                    "av1C",
                    format!("av1C.config_obus.{}", ctx),
                    format!("configOBUs {} differ from the submitted sequence header OBU {}", hex(config_obus, 16), hex(obu, 16)),
                );
            }
            let got = Av1Expect {
                profile: raw4[1] >> 5,
                level0: raw4[1] & 31,
                tier0: raw4[2] >> 7,
                high_bitdepth: raw4[2] & 0x40 != 0,
                twelve_bit: raw4[2] & 0x20 != 0,
                mono: raw4[2] & 0x10 != 0,
                ssx: raw4[2] & 0x08 != 0,
                ssy: raw4[2] & 0x04 != 0,
                csp: raw4[2] & 3,
            };
            if &got != x {
                let mut which = Vec::new();
                if got.profile != x.profile {
                    which.push("profile");
                }
                if got.level0 != x.level0 {
                    which.push("level");
                }
                if got.tier0 != x.tier0 {
                    which.push("tier");
                }
                if got.high_bitdepth != x.high_bitdepth || got.twelve_bit != x.twelve_bit {
                    which.push("bitdepth");
                }
                if got.mono != x.mono {
                    which.push("mono");
                }
                if got.ssx != x.ssx || got.ssy != x.ssy {
                    which.push("subsampling");
                }
                if got.csp != x.csp {
                    which.push("chroma_sample_position");
                }
                let sig = if x.mono && which == ["chroma_sample_position"] {
                    format!("av1C.fields.chroma_sample_position.{}:mono_chrome", ctx)
                } else if x.mono && muxide::codec::av1::extract_av1_config(obu).is_none() {
                    // classification of the signature only: the library's parser rejects this (valid) mono header
                    format!("av1C.fields.defaults_for_rejected_mono_header.{}", ctx)
                } else {
                    format!("av1C.fields.{}.{}", which.join("+"), ctx)
                };
                o.fail(
                    "av1C",
                    sig,
                    format!("av1C fields {:?} but the sequence header says {:?}", got, x),
                );
            }
        }
        _ => o.fail("av1C", format!("av1C.missing.{}", ctx), format!("no (or too short) av1C record, payload {}", hex(&e.config_payload, 16))),
    }
}

/// vpcC per the VP9 ISO-BMFF binding: FullBox(version 1, flags 0); profile(8) level(8) bitDepth(4) chromaSubsampling(3)
/// videoFullRangeFlag(1) colourPrimaries(8) transferCharacteristics(8) matrixCoefficients(8) codecInitializationDataSize(16)
fn check_vp9(o: &mut Outcome, e: &SampleEntry, x: &Vp9Expect, ctx: &str) {
    match &e.config {
        ConfigRecord::Vp9Raw { payload } => {
            if payload.len() < 12 || payload[0] != 1 || payload[1..4] != [0, 0, 0] {
                o.fail(
                    "vpcC",
                    format!("vpcC.layout.len={}.{}", payload.len(), ctx),
                    format!("vpcC payload {} is not FullBox v1 + 8 bytes (VP9 binding)", hex(payload, 16)),
                );
                return;
            }
            let got = (payload[4], payload[6] >> 4, payload[6] & 1, payload[7], payload[8], payload[9]);
            let want = (x.profile, x.bit_depth, x.full_range, x.color_space, x.transfer, x.matrix);
            if got != want {
                o.fail(
                    "vpcC",
                    format!("vpcC.fields.{}", ctx),
                    format!("vpcC (profile,bitDepth,fullRange,primaries,transfer,matrix) = {:?}, keyframe header says {:?}", got, want),
                );
            }
            let n = u16::from_be_bytes([payload[10], payload[11]]) as usize;
            if payload.len() != 12 + n {
                o.fail("vpcC", format!("vpcC.init_data_size.{}", ctx), "codecInitializationDataSize inconsistent with the box");
            }
        }
        _ => o.fail("vpcC", format!("vpcC.missing.{}", ctx), "no vpcC record"),
    }
}

// ------------------------------------------------------------------------------------------
// progressive: first keyframes

#[derive(Clone, Debug, Serialize, Deserialize, PartialEq, Eq, Hash)]
pub struct KeyCase {
    pub codec: u8,
    pub width: u16,
    pub height: u16,
    pub fast_start: bool,
    pub nals: Vec<NalGene>,
    pub lead_zeros: u8,
    pub trail_zeros: u8,
    pub av1: Av1Frame,
    pub vp9: Vp9Key,
    pub second_frame: bool,
    /// before the keyframe under test, submit a DIFFERENT keyframe in a call that must be rejected for a reason unrelated to its
    /// configuration (1: composition offset beyond 32 bits, 2: NaN timestamp, 3: negative timestamp, 4: keyframe flag false);
    /// the record must describe the first ACCEPTED keyframe
    #[serde(default)]
    pub rejected_first: u8,
}

pub fn eval_key(c: &KeyCase) -> Outcome {
    let mut o = Outcome::default();
    let codec = c.codec % 4;
    let mut cfg = CCfg::basic(codec);
    cfg.width = c.width.max(1) as u32;
    cfg.height = c.height.max(1) as u32;
    cfg.fast_start = Some(c.fast_start);
    // half of the cases also call the fragmented-only parameter setters with a plausible group for the same codec (documented
    // as ignored by build()): the record still has to come from the first keyframe
    cfg.reconfig = if c.height % 2 == 1 { 8 } else { 0 };
    let tag = 0x7000_0000_0000_0000u64 | c.width as u64;
    // build the frame and the expectation
    enum Want {
        Avc(Vec<u8>, Vec<u8>),
        Hevc(Vec<u8>, Vec<u8>, Vec<u8>),
        Av1(Vec<u8>, Av1Expect),
        Vp9(Vp9Expect),
        Incomplete,
    }
    let (frame, want) = match codec {
        0 | 1 => {
            let hevc = codec == 1;
            let fr = AnnexBFrame { nals: c.nals.clone(), lead_zeros: c.lead_zeros % 3, trail_zeros: c.trail_zeros % 3 };
            let (bytes, units) = fr.build(hevc, tag);
            let first = |t: u8| -> Option<Vec<u8>> {
                fr.nals.iter().zip(units.iter()).find(|(g, _)| (if hevc { g.typ & 0x3f } else { g.typ & 0x1f }) == t).map(|(_, u)| u.clone())
            };
            let count = |t: u8| fr.nals.iter().filter(|g| (if hevc { g.typ & 0x3f } else { g.typ & 0x1f }) == t).count();
            if hevc {
                if count(32) > 1 || count(33) > 1 || count(34) > 1 {
                    o.class("param_set_candidates_ge_2");
                    o.nontrivial = true;
                }
                match (first(32), first(33), first(34)) {
                    (Some(v), Some(s), Some(p)) => (bytes, Want::Hevc(v, s, p)),
                    _ => (bytes, Want::Incomplete),
                }
            } else {
                if count(7) > 1 || count(8) > 1 {
                    o.class("param_set_candidates_ge_2");
                    o.nontrivial = true;
                }
                match (first(7), first(8)) {
                    (Some(s), Some(p)) => (bytes, Want::Avc(s, p)),
                    _ => (bytes, Want::Incomplete),
                }
            }
        }
        2 => {
            let (bytes, seq) = c.av1.build(tag);
            match (&c.av1.seq, seq) {
                (Some(s), Some(obu)) => {
                    let s = s.normalised();
                    let br = s.branches();
                    if !br.is_empty() {
                        o.nontrivial = br.iter().any(|b| *b != "no_timing_info" && *b != "order_hint");
                    }
                    for b in br {
                        o.class(&format!("av1:{}", b));
                    }
                    (bytes, Want::Av1(obu, s.expect()))
                }
                _ => (bytes, Want::Incomplete),
            }
        }
        _ => {
            let (bytes, exp) = c.vp9.build(tag);
            if exp.color_space != 0 || exp.bit_depth != 8 || exp.transfer != 0 || exp.matrix != 0 || exp.full_range != 0 {
                o.nontrivial = true;
                o.class("vp9:non_default_colour");
            }
            if c.vp9.render.is_some() {
                o.class("vp9:render_size");
            }
            if c.vp9.profile & 3 >= 2 {
                o.class("vp9:profile_ge_2");
            }
            (bytes, Want::Vp9(exp))
        }
    };
    let too_long = match &want {
        Want::Avc(s, p) => s.len() > 65535 || p.len() > 65535,
        Want::Hevc(v, s, p) => v.len() > 65535 || s.len() > 65535 || p.len() > 65535,
        _ => false,
    };
    if too_long {
        o.unconstrained.push("parameter_set_longer_than_u16(C16)".into());
        o.nontrivial = false;
        return o;
    }
    if matches!(want, Want::Incomplete) {
        o.class("keyframe_without_complete_config(not judged)");
        o.nontrivial = false;
        return o;
    }
    let mut ops = Vec::new();
    // same structure, different parameter-set / header bytes
    let other_frame = |salt: u64| -> Vec<u8> {
        match codec {
            0 | 1 => {
                let fr = AnnexBFrame { nals: c.nals.clone(), lead_zeros: 0, trail_zeros: 0 };
                fr.build(codec == 1, tag ^ salt).0
            }
            2 => {
                let mut f2 = c.av1.clone();
                if let Some(s) = f2.seq.as_mut() {
                    s.ops.iter_mut().for_each(|o| o.level = (o.level + 3) & 31);
                    s.reduced_level = (s.reduced_level + 3) & 31;
                    s.w_m1 ^= 1;
                }
                f2.build(tag).0
            }
            _ => {
                let mut k = c.vp9.clone();
                k.profile = (k.profile + 1) & 3;
                k.color = Some((0x23, Some(1)));
                k.render = None;
                k.build(tag).0
            }
        }
    };
    if c.rejected_first % 5 != 0 && frame.len() > 8 {
        let other: Vec<u8> = match codec {
            0 | 1 => {
                let fr = AnnexBFrame { nals: c.nals.clone(), lead_zeros: 0, trail_zeros: 0 };
                fr.build(codec == 1, tag ^ 0x0f0f_0000_0000).0
            }
            2 => {
                let mut f2 = c.av1.clone();
                if let Some(s) = f2.seq.as_mut() {
                    s.ops.iter_mut().for_each(|o| o.level = (o.level + 3) & 31);
                    s.reduced_level = (s.reduced_level + 3) & 31;
                    s.w_m1 ^= 1;
                }
                f2.build(tag).0
            }
            _ => {
                let mut k = c.vp9.clone();
                k.profile = (k.profile + 1) & 3;
                k.color = Some((0x23, Some(1)));
                k.render = None;
                k.build(tag).0
            }
        };
        ops.push(match c.rejected_first % 5 {
            1 => COp::VideoDts { pts: 30000.0, dts: 1.0, data: other, key: true },
            2 => COp::Video { pts: f64::NAN, data: other, key: true },
            3 => COp::Video { pts: -1.0, data: other, key: true },
            _ => COp::Video { pts: 0.0, data: other, key: false },
        });
        o.class("rejected_call_before_first_keyframe");
    }
    let first_idx = ops.len();
    // the keyframe under test arrives through one of the three video entry points (encode_video detects keyframes itself:
    // only used when the access unit carries an IDR slice; AV1 / VP9 first frames always qualify)
    let has_idr = match codec {
        0 => c.nals.iter().any(|g| g.typ & 0x1f == 5),
        1 => c.nals.iter().any(|g| (19..=21).contains(&(g.typ & 0x3f))),
        _ => true,
    };
    match c.width % 3 {
        1 => {
            ops.push(COp::VideoDts { pts: 0.0, dts: 0.0, data: frame.clone(), key: true });
            o.class("entry:write_video_with_dts");
        }
        2 if has_idr => {
            ops.push(COp::EncVideo { data: frame.clone(), ms: 33 });
            o.class("entry:encode_video");
        }
        _ => ops.push(COp::Video { pts: 0.0, data: frame.clone(), key: true }),
    }
    if c.second_frame {
        // a later keyframe with different parameter sets / another sequence header / other frame-header fields must not
        // replace (any part of) the configuration; a third of the cases only change the last byte of the frame
        let mut later = if c.height % 3 == 0 { frame.clone() } else { other_frame(0x0a0a_0000_0000) };
        let n = later.len();
        if n > 8 && c.height % 3 == 0 {
            later[n - 1] ^= 0x55;
            if later[n - 1] == 0 {
                later[n - 1] = 0x7f;
            }
        }
        ops.push(COp::Video { pts: 1.0, data: later, key: true });
        if c.height % 3 == 2 {
            ops.push(COp::Video { pts: 2.0, data: frame.clone(), key: true });
        }
    }
    ops.push(COp::Finish(FinishKind::InPlace));
    let run = run_history(&cfg, &ops);
    if let Some(p) = &run.panic {
        o.aborted_by_panic = Some(p.clone());
        return o;
    }
    if first_idx == 1 && run.results[0].is_ok() {
        // the deliberately illegal call was accepted: C04's business; the "first keyframe" is then a different one
        o.class("illegal_first_call_accepted(C04)");
        o.nontrivial = false;
        return o;
    }
    if !run.results[first_idx].is_ok() {
        o.class(&format!("first_keyframe_rejected(C04):{}", run.results[first_idx].short()));
        o.nontrivial = false;
        return o;
    }
    if run.finished_at.is_none() {
        o.class("finish_not_ok");
        return o;
    }
    let m = match parse_movie(&run.out) {
        Ok((_, m)) => m,
        Err(_) => {
            o.class("unparseable_not_judged(C02)");
            return o;
        }
    };
    let vt = match video_track(&m) {
        Some(t) => t,
        None => return o,
    };
    let e = &vt.entry;
    let ctx = "progressive";
    match want {
        Want::Avc(s, p) => {
            check_dims(&mut o, e, b"avc1", cfg.width, cfg.height, ctx);
            check_avc(&mut o, e, &s, &p, ctx);
            o.class("h264");
        }
        Want::Hevc(v, s, p) => {
            check_dims(&mut o, e, b"hvc1", cfg.width, cfg.height, ctx);
            check_hevc(&mut o, e, &v, &s, &p, ctx);
            o.class("h265");
        }
        Want::Av1(obu, x) => {
            check_dims(&mut o, e, b"av01", cfg.width, cfg.height, ctx);
            check_av1(&mut o, e, &obu, &x, ctx);
            o.class("av1");
        }
        Want::Vp9(x) => {
            check_dims(&mut o, e, b"vp09", cfg.width, cfg.height, ctx);
            check_vp9(&mut o, e, &x, ctx);
            o.class("vp9");
        }
        Want::Incomplete => {}
    }
    o
}

fn nal_strategy(hevc: bool) -> impl Strategy<Value = NalGene> {
    let typ = if hevc {
        prop_oneof![3 => Just(32u8), 3 => Just(33u8), 3 => Just(34u8), 1 => Just(35u8), 1 => Just(39u8), 2 => 19u8..22, 1 => 0u8..10, 1 => 0u8..64]
            .boxed()
    } else {
        prop_oneof![3 => Just(7u8), 3 => Just(8u8), 1 => Just(6u8), 1 => Just(9u8), 2 => Just(5u8), 1 => Just(1u8), 1 => 1u8..32].boxed()
    };
    // fill: the body patterns 0..3 (2 and 3 need emulation prevention), 255 = a byte-identical repetition of the previous unit
    // of the same type, 254 = 0xFF padding with trailing bits, 192.. = a box type's bytes at the end
    (typ, prop_oneof![6 => 0u16..40, 2 => 40u16..400, 1 => 250u16..262, 1 => 400u16..60000], prop_oneof![12 => 0u8..4, 2 => Just(255u8), 1 => Just(254u8), 1 => 192u8..240], any::<bool>(), any::<u8>())
        .prop_map(|(typ, len, fill, sc4, aux)| NalGene { typ, len, fill, sc4, aux })
}

fn obu_strategy() -> impl Strategy<Value = ObuGene> {
    (
        prop_oneof![3 => Just(1u8), 2 => Just(2u8), 1 => Just(5u8), 3 => Just(6u8), 1 => Just(15u8), 1 => Just(3u8)],
        any::<bool>(),
        any::<u8>(),
        prop::bool::weighted(0.85),
        0u8..4,
        // payload sizes around the leb128 length boundaries (1 -> 2 -> 3 bytes)
        prop_oneof![10 => 0u16..60, 2 => 60u16..3000, 1 => 124u16..131, 1 => 16_380u16..16_388],
        0u8..4,
    )
        .prop_map(|(typ, ext, ext_byte, has_size, leb_pad, len, fill)| ObuGene { typ, ext, ext_byte, has_size, leb_pad, len, fill })
}

fn key_strategy(codec: Option<u8>) -> impl Strategy<Value = KeyCase> {
    let codec_s = match codec {
        Some(c) => Just(c).boxed(),
        None => (0u8..4).boxed(),
    };
    codec_s.prop_flat_map(|codec| {
        (
            Just(codec),
            prop_oneof![3 => 16u16..4097, 1 => 1u16..=65535],
            prop_oneof![3 => 16u16..2161, 1 => 1u16..=65535],
            any::<bool>(),
            vec(nal_strategy(codec == 1), if codec <= 1 { 1..9 } else { 0..1 }),
            0u8..3,
            0u8..3,
            (vec(obu_strategy(), if codec == 2 { 1..6 } else { 0..1 }), av1_seq_strategy()).prop_map(|(mut obus, seq)| {
                // make sure there is a frame OBU at the end so the unit looks like a keyframe
                obus.push(ObuGene { typ: 6, ext: false, ext_byte: 0, has_size: true, leb_pad: 0, len: 12, fill: 0 });
                Av1Frame { obus, seq: Some(seq) }
            }),
            vp9_key_strategy(),
            (prop::bool::weighted(0.3), prop_oneof![3 => Just(0u8), 1 => 1u8..5]),
        )
            .prop_map(|(codec, width, height, fast_start, nals, lead_zeros, trail_zeros, av1, vp9, (second_frame, rejected_first))| KeyCase {
                codec,
                width,
                height,
                fast_start,
                nals,
                lead_zeros,
                trail_zeros,
                av1,
                vp9,
                second_frame,
                rejected_first,
            })
    })
}

// ------------------------------------------------------------------------------------------
// fragmented init segments (builder-supplied parameter sets)

#[derive(Clone, Debug, Serialize, Deserialize, PartialEq, Eq, Hash)]
pub struct InitCase {
    pub codec: u8,
    pub width: u32,
    pub height: u32,
    pub sps: Vec<u8>,
    pub pps: Vec<u8>,
    pub vps: Vec<u8>,
    pub av1: Av1Seq,
    pub av1_obu: ObuGene,
    pub vp9: Vp9Lite,
    pub via_builder: bool,
    #[serde(default)]
    pub stray: u8,
}

/// What a caller may hand to `with_av1_sequence_header`: the bare sequence header OBU, or the start of the encoder's first
/// packet (temporal delimiter in front, a frame OBU behind).  The record must carry the sequence header OBU only.
fn av1_argument(c: &InitCase, seq_obu: &[u8]) -> Vec<u8> {
    let mut v = Vec::new();
    // mono_chrome headers are the listed open finding (the parser gives up on some of them and the argument is then copied
    // verbatim): they keep the bare form so that the finding's signatures stay what they are
    if c.av1.normalised().expect().mono {
        return seq_obu.to_vec();
    }
    if c.av1_obu.fill & 1 != 0 {
        v.extend_from_slice(&obu(2, false, 0, true, 0, &[]));
    }
    v.extend_from_slice(seq_obu);
    if c.av1_obu.fill & 2 != 0 {
        v.extend_from_slice(&obu(6, false, 0, true, 0, &[0x10, 0x22, 0x33, 0x44, 0x55]));
    }
    v
}

/// The init segment a muxer built from this configuration returns (None: build refused / panic).
pub fn init_bytes(c: &InitCase) -> Option<Vec<u8>> {
    let seq = c.av1.normalised();
    let f = FCfg {
        codec: c.codec % 4,
        width: c.width,
        height: c.height,
        sps: c.sps.clone(),
        pps: c.pps.clone(),
        vps: c.vps.clone(),
        av1: av1_argument(c, &obu(1, c.av1_obu.ext, c.av1_obu.ext_byte, true, c.av1_obu.leb_pad % 4, &seq.payload())),
        vp9: c.vp9.clone(),
        via_builder: c.via_builder,
        timescale: 90000,
        frag_ms: 2000,
        stray: if c.via_builder { c.stray } else { 0 },
    };
    match run_frag(&f, &[FOp::Init]).results.first() {
        Some(FRes::Init(b)) => Some(b.clone()),
        _ => None,
    }
}

/// Configurations that differ from `c` in exactly one field (another muxer in the same process must not inherit anything).
pub fn twins(c: &InitCase) -> Vec<InitCase> {
    let mut v = Vec::new();
    let mut t = c.clone();
    t.vp9.level = t.vp9.level.wrapping_add(1);
    v.push(t);
    let mut t = c.clone();
    t.vp9.profile = (t.vp9.profile + 1) % 4;
    v.push(t);
    let mut t = c.clone();
    t.vp9.full_range_flag ^= 1;
    v.push(t);
    let mut t = c.clone();
    t.vp9.matrix_coefficients = (t.vp9.matrix_coefficients + 1) % 8;
    v.push(t);
    let mut t = c.clone();
    t.width = if t.width > 16 { t.width - 2 } else { t.width + 2 };
    v.push(t);
    let mut t = c.clone();
    if let Some(b) = t.sps.last_mut() {
        *b ^= 0x10;
    }
    v.push(t);
    let mut t = c.clone();
    if let Some(b) = t.pps.last_mut() {
        *b ^= 0x01;
    }
    v.push(t);
    let mut t = c.clone();
    if let Some(b) = t.vps.last_mut() {
        *b ^= 0x04;
    }
    v.push(t);
    let mut t = c.clone();
    t.av1.w_m1 ^= 1;
    v.push(t);
    v
}

/// `eval_init` on the case and then, in the same thread, on each of its single-field twins.
pub fn eval_init_twins(c: &InitCase) -> Outcome {
    let mut o = eval_init(c);
    if !o.violations.is_empty() || o.aborted_by_panic.is_some() {
        return o;
    }
    for t in twins(c) {
        let o2 = eval_init(&t);
        o.sub_evals += 1;
        if let Some(v) = o2.violations.into_iter().next() {
            o.fail("twin", format!("twin.{}", v.sig), format!("a configuration that differs in one field from the one used just before in this thread: {}", v.detail));
            break;
        }
    }
    o
}

pub fn eval_init(c: &InitCase) -> Outcome {
    let mut o = Outcome::default();
    let codec = c.codec % 4;
    let seq = c.av1.normalised();
    let seq_obu = obu(1, c.av1_obu.ext, c.av1_obu.ext_byte, true, c.av1_obu.leb_pad % 4, &seq.payload());
    let f = FCfg {
        codec,
        width: c.width,
        height: c.height,
        sps: c.sps.clone(),
        pps: c.pps.clone(),
        vps: c.vps.clone(),
        av1: av1_argument(c, &seq_obu),
        vp9: c.vp9.clone(),
        via_builder: c.via_builder,
        timescale: 90000,
        frag_ms: 2000,
        stray: if c.via_builder { c.stray } else { 0 },
    };
    let run = run_frag(&f, &[FOp::Init]);
    if let Some(p) = &run.panic {
        o.aborted_by_panic = Some(p.clone());
        return o;
    }
    let init = match run.results.first() {
        Some(FRes::Init(b)) => b.clone(),
        _ => {
            o.class("no_init_segment");
            return o;
        }
    };
    let too_long = c.sps.len() > 65535 || c.pps.len() > 65535 || c.vps.len() > 65535;
    if codec <= 1 && too_long {
        o.unconstrained.push("parameter_set_longer_than_u16(C16)".into());
        return o;
    }
    let m = match parse_movie(&init) {
        Ok((_, m)) => m,
        Err(_) => {
            o.class("unparseable_not_judged(C02)");
            return o;
        }
    };
    let vt = match video_track(&m) {
        Some(t) => t,
        None => return o,
    };
    let e = &vt.entry;
    let ctx = "fragmented";
    o.nontrivial = true;
    match codec {
        0 => {
            check_dims(&mut o, e, b"avc1", c.width, c.height, ctx);
            check_avc(&mut o, e, &c.sps, &c.pps, ctx);
            o.class("h264");
        }
        1 => {
            check_dims(&mut o, e, b"hvc1", c.width, c.height, ctx);
            check_hevc(&mut o, e, &c.vps, &c.sps, &c.pps, ctx);
            o.class("h265");
        }
        2 => {
            check_dims(&mut o, e, b"av01", c.width, c.height, ctx);
            check_av1(&mut o, e, &seq_obu, &seq.expect(), ctx);
            o.class("av1");
        }
        _ => {
            check_dims(&mut o, e, b"vp09", c.width, c.height, ctx);
            let x = Vp9Expect {
                profile: c.vp9.profile,
                bit_depth: c.vp9.bit_depth,
                color_space: c.vp9.color_space,
                transfer: c.vp9.transfer_function,
                matrix: c.vp9.matrix_coefficients,
                full_range: c.vp9.full_range_flag,
            };
            check_vp9(&mut o, e, &x, ctx);
            o.class("vp9");
        }
    }
    if c.sps.is_empty() || c.pps.is_empty() {
        o.class("empty_parameter_set");
    }
    if c.via_builder {
        o.class("via_builder");
        if c.stray != 0 {
            o.class("stray_setters_of_other_codecs");
        }
    }
    o
}

fn pset_strategy() -> impl Strategy<Value = Vec<u8>> {
    prop_oneof![
        6 => vec(any::<u8>(), 0..40),
        2 => vec(any::<u8>(), 40..600),
        1 => vec(any::<u8>(), 250..262),
        1 => vec(any::<u8>(), 60000..65536),
        // dictionary prefixes / suffixes a caller's bytes may plausibly carry: an Annex B start code left in front of the
        // unit (cut out of an elementary stream), a 4-byte length prefix, a box type, trailing zero bytes
        2 => (0usize..8, vec(any::<u8>(), 1..40), any::<bool>()).prop_map(|(k, body, at_end)| {
            let dict: [&[u8]; 8] = [&[0, 0, 1], &[0, 0, 0, 1], &[0, 0, 0, 9], b"avcC", b"hvcC", &[0, 0, 3], &[0, 0], &[0xff, 0xff, 0xff, 0xff]];
            let mut v = Vec::new();
            if at_end {
                v.extend_from_slice(&body);
                v.extend_from_slice(dict[k]);
            } else {
                v.extend_from_slice(dict[k]);
                v.extend_from_slice(&body);
            }
            v
        }),
    ]
}

fn init_strategy() -> impl Strategy<Value = InitCase> {
    (
        0u8..4,
        prop_oneof![3 => 16u32..4097, 1 => 1u32..=65535],
        prop_oneof![3 => 16u32..2161, 1 => 1u32..=65535],
        pset_strategy(),
        pset_strategy(),
        pset_strategy(),
        av1_seq_strategy(),
        obu_strategy(),
        (0u8..4, prop_oneof![Just(8u8), Just(10u8), Just(12u8)], 0u8..8, 0u8..8, 0u8..2, 0u8..2).prop_map(|(p, b, cs, tf, mc, fr)| Vp9Lite {
            width: 640,
            height: 480,
            profile: p,
            bit_depth: b,
            color_space: cs,
            transfer_function: tf,
            matrix_coefficients: mc,
            level: 0,
            full_range_flag: fr,
        }),
        (any::<bool>(), prop_oneof![2 => Just(0u8), 1 => 0u8..16, 2 => any::<u8>()]),
    )
        .prop_map(|(codec, width, height, sps, pps, vps, av1, av1_obu, vp9, (via_builder, stray))| InitCase {
            codec,
            width,
            height,
            sps,
            pps,
            vps,
            av1,
            av1_obu,
            vp9,
            via_builder,
            stray,
        })
}

// ------------------------------------------------------------------------------------------
// audio sample descriptions

#[derive(Clone, Debug, Serialize, Deserialize, PartialEq, Eq, Hash)]
pub struct AudioCase {
    pub audio: u8,
    pub rate: u32,
    pub channels: u16,
    pub frames: u8,
    pub fast_start: bool,
}

pub fn eval_audio(c: &AudioCase) -> Outcome {
    let mut o = Outcome::default();
    let audio = 1 + (c.audio % 7);
    let mut cfg = CCfg::basic(0);
    cfg.audio = audio;
    cfg.sample_rate = c.rate;
    cfg.channels = c.channels;
    cfg.fast_start = Some(c.fast_start);
    let key = AnnexBFrame {
        nals: vec![
            NalGene { typ: 7, len: 6, fill: 0, sc4: true, aux: 3 },
            NalGene { typ: 8, len: 3, fill: 0, sc4: true, aux: 3 },
            NalGene { typ: 5, len: 20, fill: 0, sc4: true, aux: 3 },
        ],
        lead_zeros: 0,
        trail_zeros: 0,
    }
    .build(false, 1)
    .0;
    let mut ops = vec![COp::Video { pts: 0.0, data: key, key: true }];
    for i in 0..(c.frames % 3) {
        let data = if audio == 7 {
            OpusGene { config: 4, stereo: false, code: 0, count_byte: 0, len: 10, corrupt: 0 }.build(i as u64).0
        } else {
            AdtsGene { protection_absent: true, profile: 1, sfi: 3, chan: 1, payload_len: 10, extra: 0, fill: 0, corrupt: 0 , misc: 0}.build(i as u64).0
        };
        ops.push(COp::Audio { pts: i as f64 * 0.02, data });
    }
    ops.push(COp::Finish(FinishKind::InPlace));
    let run = run_history(&cfg, &ops);
    if let Some(p) = &run.panic {
        o.aborted_by_panic = Some(p.clone());
        return o;
    }
    if run.finished_at.is_none() {
        o.class("finish_not_ok");
        return o;
    }
    let m = match parse_movie(&run.out) {
        Ok((_, m)) => m,
        Err(_) => {
            o.class("unparseable_not_judged(C02)");
            return o;
        }
    };
    let at = match audio_track(&m) {
        Some(t) => t,
        None => {
            o.fail("audio_entry", "audio_entry.no_track", "audio configured but no audio track");
            return o;
        }
    };
    let e = &at.entry;
    o.nontrivial = true;
    if e.channels != c.channels {
        o.fail("audio_entry", "audio_entry.channelcount", format!("channelcount {} but configured {}", e.channels, c.channels));
    }
    if audio == 7 {
        o.class("opus");
        if &e.typ != b"Opus" {
            o.fail("audio_entry", format!("audio_entry.type={}", fourcc(&e.typ)), "Opus track must use the 'Opus' sample entry");
        }
        if e.samplerate_16_16 != 48000u32 << 16 {
            o.fail("audio_entry", "audio_entry.opus_rate", format!("Opus sample entry rate {:#x}, expected 48000<<16", e.samplerate_16_16));
        }
        match &e.config {
            ConfigRecord::Dops { payload } => {
                if (1..=8).contains(&c.channels) {
                    let fam = payload.get(10).copied().unwrap_or(255);
                    let want_len = if fam == 0 { 11 } else { 13 + c.channels as usize };
                    if payload.len() < 11 || payload[0] != 0 || payload[1] as u16 != c.channels || payload.len() != want_len {
                        o.fail(
                            "dOps",
                            format!("dOps.ch{}", if c.channels > 2 { ">2" } else { "<=2" }),
                            format!("dOps {} inconsistent with {} channels (family {}, expected length {})", hex(payload, 24), c.channels, fam, want_len),
                        );
                    }
                    if fam == 0 && c.channels > 2 {
                        o.fail("dOps", "dOps.family0_multichannel", "mapping family 0 with more than 2 channels");
                    }
                    if payload.len() >= 8 && u32::from_be_bytes([payload[4], payload[5], payload[6], payload[7]]) == 0 {
                        // InputSampleRate 0 is legal ("unspecified"); not judged
                    }
                } else {
                    o.unconstrained.push("opus_channels_outside_1..8".into());
                }
            }
            _ => o.fail("dOps", "dOps.missing", "no dOps record"),
        }
    } else {
        o.class("aac");
        if &e.typ != b"mp4a" {
            o.fail("audio_entry", format!("audio_entry.type={}", fourcc(&e.typ)), "AAC track must use the 'mp4a' sample entry");
        }
        if c.rate <= 65535 {
            if e.samplerate_16_16 != c.rate << 16 {
                o.fail("audio_entry", "audio_entry.rate", format!("sample entry rate {:#x}, configured {} Hz", e.samplerate_16_16, c.rate));
            }
        } else {
            o.unconstrained.push("rate_beyond_16.16(C16)".into());
        }
        match &e.config {
            ConfigRecord::Esds { object_type, stream_type_byte, asc, lens_consistent, .. } => {
                if *object_type != 0x40 || (stream_type_byte >> 2) != 5 {
                    o.fail("esds", "esds.object_or_stream_type", format!("objectType {:#x} streamType byte {:#x}", object_type, stream_type_byte));
                }
                if !lens_consistent {
                    o.fail("esds", "esds.lengths", "descriptor lengths do not nest consistently");
                }
                if asc.len() < 2 {
                    o.fail("esds", "esds.asc_short", "AudioSpecificConfig shorter than 2 bytes");
                } else {
                    let sfi = ((asc[0] & 7) << 1) | (asc[1] >> 7);
                    let chan = (asc[1] >> 3) & 15;
                    if let Some(idx) = AAC_RATES.iter().position(|&r| r == c.rate) {
                        o.class("aac_standard_rate");
                        if sfi as usize != idx {
                            o.fail(
                                "esds",
                                "esds.sampling_frequency_index",
                                format!("samplingFrequencyIndex {} but {} Hz is index {}", sfi, c.rate, idx),
                            );
                        }
                    } else {
                        o.unconstrained.push("aac_non_standard_rate".into());
                    }
                    if (1..=6).contains(&c.channels) {
                        if chan as u16 != c.channels {
                            o.fail("esds", "esds.channel_configuration", format!("channelConfiguration {} but {} channels configured", chan, c.channels));
                        }
                    } else {
                        o.unconstrained.push("aac_channels_outside_1..6".into());
                    }
                }
            }
            _ => o.fail("esds", "esds.missing", "no esds record"),
        }
    }
    o
}

fn audio_strategy() -> impl Strategy<Value = AudioCase> {
    (
        0u8..7,
        prop_oneof![6 => (0usize..13).prop_map(|i| AAC_RATES[i]), 2 => 1u32..65536, 1 => 65536u32..200_000],
        prop_oneof![8 => 1u16..9, 1 => 0u16..300],
        0u8..3,
        any::<bool>(),
    )
        .prop_map(|(audio, rate, channels, frames, fast_start)| AudioCase { audio, rate, channels, frames, fast_start })
}

pub fn s_h264(_: Tier) -> BoxedStrategy<KeyCase> {
    key_strategy(Some(0)).boxed()
}
pub fn s_h265(_: Tier) -> BoxedStrategy<KeyCase> {
    key_strategy(Some(1)).boxed()
}
pub fn s_av1(_: Tier) -> BoxedStrategy<KeyCase> {
    key_strategy(Some(2)).boxed()
}
pub fn s_vp9(_: Tier) -> BoxedStrategy<KeyCase> {
    key_strategy(Some(3)).boxed()
}
pub fn s_init(_: Tier) -> BoxedStrategy<InitCase> {
    init_strategy().boxed()
}
pub fn s_audio(_: Tier) -> BoxedStrategy<AudioCase> {
    audio_strategy().boxed()
}

pub fn def() -> PropertyDef {
    PropertyDef {
        fuzz_targets: &["c07_av1"],
        id: "C07",
        level: "exploration",
        rule: "first keyframes built from NAL / OBU lists (any number, order and length of parameter-set and slice units, 3/4-byte start codes, \
               repeated later-differing sets), AV1 sequence headers written branch by branch from the spec syntax (section 5.5), VP9 keyframe \
               headers of the accepted form, builder-supplied parameter sets as arbitrary bytes, audio configurations; the stsd entry of the \
               file / init segment is decoded per ISO 14496-15 / AV1 / VP9 / Opus bindings and compared with the generator's structured value; \
               non-trivial = >=2 candidates for a parameter set, an optional AV1 branch taken, non-default VP9 colour, any init/audio case",
        assumptions: &[
            "AV1 expectation comes from an independent header *writer* (gen.rs) that follows the spec syntax, not from parsing",
            "VP9: muxide's accepted keyframe form is its own layout; the generator mirrors the documented layout and checks propagation into vpcC",
        ],
        subs: vec![
            Box::new(PSub { name: "h264", quick: 8000, thorough: 300000, strat: s_h264, eval: eval_key }),
            Box::new(PSub { name: "h265", quick: 8000, thorough: 300000, strat: s_h265, eval: eval_key }),
            Box::new(PSub { name: "av1", quick: 15000, thorough: 600000, strat: s_av1, eval: eval_key }),
            Box::new(PSub { name: "vp9", quick: 8000, thorough: 300000, strat: s_vp9, eval: eval_key }),
            Box::new(PSub { name: "frag_init", quick: 10000, thorough: 300000, strat: s_init, eval: eval_init }),
            Box::new(PSub { name: "frag_init_twins", quick: 1500, thorough: 40000, strat: s_init, eval: eval_init_twins }),
            Box::new(PSub { name: "audio", quick: 6000, thorough: 150000, strat: s_audio, eval: eval_audio }),
        ],
    }
}
