//! C09 — audio/video synchronisation of the input is preserved.

use crate::engine::*;
use crate::exec::run_history;
use crate::mp4check::*;
use crate::reader::{Movie, Track};
use crate::scenario::*;
use proptest::strategy::Strategy;

/// Presentation time of sample `i` of `t` on the movie timeline, as an exact rational in units of
/// 1/(movie_ts * media_ts) seconds ... simplified: returned in *media ticks of that track* as i128 numerator over
/// the track's media timescale, after mapping through the edit list (None = sample not presented).
pub fn presentation(m: &Movie, t: &Track, i: usize) -> Option<(i128, i128)> {
    let s = &t.samples[i];
    let media_time = s.dts as i128 + s.cts as i128; // composition time in media units
    let mts = t.mdhd.timescale as i128;
    let movts = m.mvhd.timescale as i128;
    match &t.elst {
        None => Some((media_time, mts)),
        Some(edits) if edits.is_empty() => Some((media_time, mts)),
        Some(edits) => {
            // movie time accumulates segment durations (movie timescale); find the edit containing media_time
            let mut movie_pos: i128 = 0; // movie units
            for &(seg_dur, mtime, _rate) in edits {
                if mtime >= 0 {
                    let start = mtime as i128;
                    let end_media = if seg_dur == 0 { i128::MAX } else { start + (seg_dur as i128 * mts) / movts.max(1) + 1 };
                    if media_time >= start && media_time < end_media {
                        // movie_pos (movie units) + (media_time - start) (media units)
                        return Some((movie_pos * mts + (media_time - start) * movts, mts * movts));
                    }
                }
                movie_pos += seg_dur as i128;
            }
            None
        }
    }
}

pub fn eval(c: &ValidCase) -> Outcome {
    let mut o = Outcome::default();
    let l = lower(c);
    let run = run_history(&l.cfg, &l.ops);
    if let Some(p) = &run.panic {
        o.aborted_by_panic = Some(p.clone());
        return o;
    }
    if run.finished_at.is_none() {
        o.class("finish_not_ok");
        return o;
    }
    let (v, a) = accepted(&l, &run);
    if v.is_empty() || a.is_empty() {
        o.class("no_av_pair");
        return o;
    }
    let p = match parse(&run.out) {
        Ok(p) => p,
        Err(_) => {
            o.class("unparseable_not_judged(C02)");
            return o;
        }
    };
    let (vt, at) = match (video_track(&p.movie), audio_track(&p.movie)) {
        (Some(v), Some(a)) => (v, a),
        _ => return o,
    };
    if vt.samples.len() != v.len() || at.samples.len() != a.len() {
        o.class("count_mismatch_not_judged(C01)");
        return o;
    }
    if v[0].tie || a.iter().any(|s| s.tie) {
        o.unconstrained.push("half_tick_tie".into());
        return o;
    }
    let v0 = match presentation(&p.movie, vt, 0) {
        Some(x) => x,
        None => {
            o.fail("rel", "rel.first_video_not_presented", "first video sample is outside every edit");
            return o;
        }
    };
    // deviations in 90 kHz ticks (rational -> f64 only for the final comparison with tolerance 1 tick)
    let to_ticks = |(n, d): (i128, i128)| -> f64 { n as f64 * 90000.0 / d as f64 };
    let mut devs: Vec<f64> = Vec::new();
    for (i, e) in a.iter().enumerate() {
        let ap = match presentation(&p.movie, at, i) {
            Some(x) => x,
            None => {
                o.fail("rel", "rel.audio_not_presented", format!("audio sample {} is outside every edit", i));
                return o;
            }
        };
        let file_rel = to_ticks(ap) - to_ticks(v0);
        let want = e.pts as f64 - v[0].pts as f64;
        devs.push(file_rel - want);
    }
    let worst = devs.iter().cloned().fold(0.0f64, |m, d| if d.abs() > m.abs() { d } else { m });
    if worst.abs() > 1.0 {
        // discriminate the root cause: "both tracks start at zero, no start offset written" gives the constant
        // deviation  -(a0 - v0_dts)  for every audio sample and no edit list
        let expected_const = -(a[0].pts as f64 - v[0].dts as f64);
        let constant = devs.iter().all(|d| (d - expected_const).abs() <= 1.0);
        let no_elst = vt.elst.is_none() && at.elst.is_none();
        let sig = if constant && no_elst {
            "rel.tracks_start_at_zero_no_offset".to_string()
        } else if devs.iter().all(|d| (d - devs[0]).abs() <= 1.0) {
            "rel.constant_other".to_string()
        } else {
            "rel.varying".to_string()
        };
        o.fail(
            "rel",
            sig,
            format!(
                "audio relative to first video deviates by up to {:.1} ticks (first audio pts {}, first video pts {} dts {}; deviations head {:?})",
                worst,
                a[0].pts,
                v[0].pts,
                v[0].dts,
                &devs[..devs.len().min(4)]
            ),
        );
        if a[0].pts > v[0].pts && devs[0] < -1.0 {
            o.class("audio_plays_early");
        }
    }
    let a0_ne_v0 = a[0].pts != v[0].pts;
    let v0_ne_0 = v[0].pts != 0;
    o.nontrivial = a0_ne_v0 || v0_ne_0;
    if a0_ne_v0 {
        o.class("a0_ne_v0");
    }
    if v0_ne_0 {
        o.class("v0_ne_0");
    }
    if v[0].pts != v[0].dts {
        o.class("first_video_cts_nonzero");
    }
    if !a0_ne_v0 && !v0_ne_0 {
        o.class("both_start_at_zero");
    }
    o
}

fn with_audio(maxv: usize, maxa: usize) -> impl Strategy<Value = ValidCase> {
    (valid_case_strategy(maxv, maxa), 1u8..8).prop_map(|(mut c, a)| {
        if c.cfg.audio % 8 == 0 {
            c.cfg.audio = a;
        }
        c
    })
}

fn strat(t: Tier) -> proptest::strategy::BoxedStrategy<ValidCase> {
    match t {
        Tier::Quick => with_audio(16, 24).boxed(),
        Tier::Thorough => proptest::prop_oneof![9 => with_audio(30, 60), 1 => with_audio(300, 600)].boxed(),
    }
}

/// Automatic timestamps (encode_video / encode_audio): the implied timestamps are 0, sum(ms)/1000 and sum(samples)/rate; the
/// audio and video samples must be presented at exactly those instants relative to each other (the same generator and tick
/// arithmetic as C17's path check, restricted to the timing clause).
fn eval_auto(c: &crate::props::c17::PathCase) -> Outcome {
    let inner = crate::props::c17::eval_paths(c);
    let mut o = Outcome::default();
    o.nontrivial = inner.nontrivial;
    o.sub_evals = inner.sub_evals;
    o.aborted_by_panic = inner.aborted_by_panic;
    for v in inner.violations {
        if v.clause == "auto_ticks" {
            o.violations.push(v);
        }
    }
    o
}

pub fn def() -> PropertyDef {
    PropertyDef {
        fuzz_targets: &["c01_scenario"],
        id: "C09",
        level: "exploration",
        rule: "A/V histories with independent start offsets (first video PTS 0 / random, first audio = first video + {0, 1 tick .. minutes}), \
               reordered video included; per-track presentation timelines (stts + ctts, mapped through an edit list when present) are compared \
               with the submitted timestamps to within one tick; non-trivial = first audio != first video PTS, or first video PTS != 0",
        assumptions: &["presentation time of sample i = sum of stts deltas + ctts offset, mapped through elst when present"],
        subs: vec![Box::new(PSub { name: "sync", quick: 30000, thorough: 800000, strat, eval }), Box::new(PSub { name: "auto_timestamps", quick: 6000, thorough: 150000, strat: crate::props::c17::path_strategy, eval: eval_auto }), Box::new(LSub { name: "long_recordings", cases: long_cases_all, eval, note: LONG_NOTE })],
    }
}
