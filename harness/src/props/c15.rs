//! C15 — audio and video samples are interleaved in timestamp order in the media data.

use crate::engine::*;
use crate::exec::run_history;
use crate::mp4check::*;
use crate::scenario::*;
use proptest::strategy::Strategy;

fn find_all(hay: &[u8], needle: &[u8]) -> Vec<usize> {
    let mut out = Vec::new();
    if needle.is_empty() || hay.len() < needle.len() {
        return out;
    }
    let first = needle[0];
    let mut i = 0;
    while i + needle.len() <= hay.len() {
        if hay[i] == first && &hay[i..i + needle.len()] == needle {
            out.push(i);
            if out.len() > 1 {
                break;
            }
        }
        i += 1;
    }
    out
}

pub fn eval(c: &ValidCase) -> Outcome {
    let mut o = Outcome::default();
    let l = lower(c);
    let run = run_history(&l.cfg, &l.ops);
    if let Some(p) = &run.panic {
        o.aborted_by_panic = Some(p.clone());
        return o;
    }
    if run.finished_at.is_none() {
        o.class("finish_not_ok");
        return o;
    }
    let (v, a) = accepted(&l, &run);
    let p = match parse(&run.out) {
        Ok(p) => p,
        Err(_) => {
            o.class("unparseable_not_judged(C02)");
            return o;
        }
    };
    let (lo, hi) = match p.movie.mdat {
        Some(x) => x,
        None => return o,
    };
    let mdat = &run.out[lo..hi];
    // true locations, independent of the tables: search for each sample's (unique, tagged) bytes
    let mut locs: Vec<(usize, bool, usize, u64)> = Vec::new(); // (location, is_video, index, tick)
    // long recordings: a byte search per sample would be quadratic; there the location is the table's offset, accepted only
    // if the sample's (tagged, unique) bytes really are at that place
    let fast = v.len() + a.len() > 3000;
    for (isv, list) in [(true, &v), (false, &a)] {
        let tr = if isv { video_track(&p.movie) } else { audio_track(&p.movie) };
        for (i, e) in list.iter().enumerate() {
            if fast {
                let at = tr.and_then(|t| t.samples.get(i)).map(|s| s.offset as usize);
                match at {
                    Some(off) if off >= lo && off + e.bytes.len() <= hi && run.out[off..off + e.bytes.len()] == e.bytes[..] && e.bytes.len() >= 16 => {
                        locs.push((off - lo, isv, i, if isv { e.dts } else { e.pts }));
                    }
                    _ => {
                        o.unconstrained.push("sample_bytes_not_at_table_offset(C01)".into());
                        return o;
                    }
                }
                continue;
            }
            let f = find_all(mdat, &e.bytes);
            if f.len() != 1 {
                o.unconstrained.push(if f.is_empty() { "sample_bytes_not_found(C01)".into() } else { "sample_bytes_ambiguous".into() });
                return o;
            }
            locs.push((f[0], isv, i, if isv { e.dts } else { e.pts }));
        }
    }
    // per_track
    for isv in [true, false] {
        let mut prev: Option<usize> = None;
        for &(loc, v_, i, _) in locs.iter().filter(|x| x.1 == isv) {
            let _ = v_;
            if let Some(pl) = prev {
                if loc <= pl {
                    o.fail(
                        "per_track",
                        format!("per_track.{}", if isv { "video" } else { "audio" }),
                        format!("{} sample {} stored at {} which is not after its predecessor at {}", if isv { "video" } else { "audio" }, i, loc, pl),
                    );
                    break;
                }
            }
            prev = Some(loc);
        }
    }
    // frame reordering = the presentation order differs from the decode order.  A constant decoder delay (pts = dts + c for
    // every frame) is not reordering; there the merge may be by decode or by presentation time (the statement says "by
    // timestamp"): either is accepted
    let reord = v.windows(2).any(|w| w[1].pts < w[0].pts);
    let delayed = !reord && v.iter().any(|s| s.pts != s.dts);
    let ties = v.iter().chain(a.iter()).any(|s| s.tie);
    if !reord && !ties && !a.is_empty() {
        let mut by_loc = locs.clone();
        by_loc.sort();
        let mut by_time = locs.clone();
        by_time.sort_by_key(|&(_, isv, i, tick)| (tick, !isv, i));
        let seq_loc: Vec<(bool, usize)> = by_loc.iter().map(|x| (x.1, x.2)).collect();
        let mut seq_time: Vec<(bool, usize)> = by_time.iter().map(|x| (x.1, x.2)).collect();
        if delayed && seq_loc != seq_time {
            // try the merge by presentation time
            let mut by_pts = locs.clone();
            by_pts.sort_by_key(|&(_, isv, i, tick)| (if isv { v[i].pts } else { tick }, !isv, i));
            let alt: Vec<(bool, usize)> = by_pts.iter().map(|x| (x.1, x.2)).collect();
            if seq_loc == alt {
                seq_time = alt;
            }
        }
        if seq_loc != seq_time {
            let k = seq_loc.iter().zip(seq_time.iter()).position(|(a, b)| a != b).unwrap_or(0);
            let equal_ts = by_time.windows(2).any(|w| w[0].3 == w[1].3 && w[0].1 != w[1].1);
            o.fail(
                "merge",
                format!("merge{}", if equal_ts { ".with_equal_timestamps" } else { "" }),
                format!(
                    "storage order differs from timestamp merge at position {}: stored {:?}, expected {:?} (video=true)",
                    k, seq_loc[k], seq_time[k]
                ),
            );
        }
    }
    let vt: std::collections::HashSet<u64> = v.iter().map(|x| x.dts).collect();
    let cross_equal = a.iter().any(|y| vt.contains(&y.pts));
    o.nontrivial = v.len() >= 2 && a.len() >= 2 && (cross_equal || c.order % 4 != 1);
    if cross_equal {
        o.class("cross_track_equal_timestamp");
    }
    if reord {
        o.class("reordered");
    }
    o.class(["order_all_video_first", "order_merged", "order_audio_before_later_video", "order_bursts"][(c.order % 4) as usize]);
    if l.cfg.fast_start_effective() {
        o.class("fast_start");
    }
    o
}

fn with_audio(maxv: usize, maxa: usize) -> impl Strategy<Value = ValidCase> {
    (valid_case_strategy(maxv, maxa), 1u8..8, proptest::bool::weighted(0.5)).prop_map(|(mut c, a, align)| {
        if c.cfg.audio % 8 == 0 {
            c.cfg.audio = a;
        }
        // make samples long enough to carry their unique tag
        for v in c.video.iter_mut() {
            v.size = v.size.max(24);
            if align {
                v.ddts = 3000;
            }
        }
        for (i, x) in c.audio.iter_mut().enumerate() {
            x.size = x.size.max(24);
            if align {
                // audio ticks coincide with video ticks regularly
                x.dpts = if i % 2 == 0 { 3000 } else { 1500 };
            }
        }
        if align {
            c.a_off = 0;
            c.const_rate = None;
            c.fps_mode = None;
        }
        c
    })
}

fn strat(t: Tier) -> proptest::strategy::BoxedStrategy<ValidCase> {
    match t {
        Tier::Quick => with_audio(16, 24).boxed(),
        Tier::Thorough => proptest::prop_oneof![9 => with_audio(30, 60), 1 => with_audio(200, 400)].boxed(),
    }
}

pub fn def() -> PropertyDef {
    PropertyDef {
        fuzz_targets: &["c01_scenario"],
        id: "C15",
        level: "exploration",
        rule: "A/V histories under four submission orders (all video first, merged, all audio before later video, bursts), with cross-track \
               equal timestamps forced in half of the cases, both layouts; the true location of every sample is found by searching the mdat \
               for its uniquely tagged bytes (independent of the tables); non-trivial = >=2 samples per track and an equal cross-track \
               timestamp or a submission order different from timestamp order",
        assumptions: &["sample payloads carry a unique 16-byte tag, so a byte search locates them unambiguously (ambiguous cases are counted and skipped)"],
        subs: vec![Box::new(PSub { name: "interleave", quick: 30000, thorough: 800000, strat, eval }), Box::new(LSub { name: "long_recordings", cases: long_cases_all, eval, note: LONG_NOTE })],
    }
}
