//! C01 — every sample in the file resolves to exactly the bytes and key flag submitted.

use crate::engine::*;
use crate::exec::run_history;
use crate::mp4check::*;
use crate::scenario::*;
use proptest::strategy::Strategy;

pub fn eval(c: &ValidCase) -> Outcome {
    let mut o = Outcome::default();
    let l = lower(c);
    let run = run_history(&l.cfg, &l.ops);
    if let Some(p) = &run.panic {
        o.aborted_by_panic = Some(p.clone());
        return o;
    }
    if run.finished_at.is_none() {
        o.class("finish_not_ok");
        return o;
    }
    let (v, a) = accepted(&l, &run);
    let reord = v.iter().any(|s| s.pts != s.dts);
    let ctx = match (reord, !a.is_empty()) {
        (true, true) => ":reordered+audio",
        (true, false) => ":reordered",
        _ => "",
    };
    match parse(&run.out) {
        Err(e) => o.fail("parse", "parse", format!("output does not parse: {}", e)),
        Ok(p) => check_samples(&mut o, &run.out, &p, &v, &a, &l.cfg, ctx),
    }
    // non-triviality and classes
    let mut sizes: Vec<usize> = v.iter().map(|s| s.bytes.len()).collect();
    sizes.sort();
    sizes.dedup();
    o.nontrivial = v.len() >= 2 && sizes.len() >= 2;
    if !a.is_empty() {
        o.class("with_audio");
    }
    if reord {
        o.class("reordered");
    }
    if reord && !a.is_empty() {
        o.class("reordered_and_audio");
    }
    if l.cfg.fast_start_effective() {
        o.class("fast_start");
    }
    if l.cfg.title.is_some() || l.cfg.ctime.is_some() {
        o.class("metadata");
    }
    o.class(["h264", "h265", "av1", "vp9"][l.cfg.codec as usize % 4]);
    if l.cfg.is_aac() {
        o.class("aac");
    } else if l.cfg.has_audio() {
        o.class("opus");
    }
    let rejected = run.results.iter().filter(|r| r.is_err()).count();
    if rejected > 0 {
        o.class("some_call_rejected");
        for r in run.results.iter() {
            if let crate::exec::CallResult::Err { variant, .. } = r {
                o.class(&format!("rejected:{}:{}", ["h264", "h265", "av1", "vp9"][l.cfg.codec as usize % 4], variant));
                break;
            }
        }
    }
    if v.is_empty() {
        o.class("no_video_accepted");
    }
    o
}

fn strat(t: Tier) -> proptest::strategy::BoxedStrategy<ValidCase> {
    match t {
        Tier::Quick => valid_case_strategy(24, 30).boxed(),
        Tier::Thorough => proptest::prop_oneof![
            9 => valid_case_strategy(40, 60),
            1 => valid_case_strategy(600, 300),
        ]
        .boxed(),
    }
}

// ---- long histories and large files (positions beyond 2^16 samples, 2^24 and 2^31 bytes)

#[derive(Clone, Debug, serde::Serialize, serde::Deserialize, PartialEq, Eq, Hash)]
pub struct BigCase {
    pub codec: u8,
    pub audio: u8,
    pub fast_start: bool,
    pub frames: u32,
    pub frame_bytes: u32,
    pub audio_frames: u32,
}

pub fn eval_big(c: &BigCase) -> Outcome {
    use crate::exec::{CCfg, COp, FinishKind};
    use crate::gen::*;
    let mut o = Outcome::default();
    let codec = 2 + c.codec % 2; // AV1 / VP9: stored unchanged, so huge frames need no expected-copy conversion
    let mut cfg = CCfg::basic(codec);
    cfg.audio = if c.audio_frames > 0 { 7 } else { 0 };
    cfg.fast_start = Some(c.fast_start);
    let mut ops = Vec::new();
    let mut vexp: Vec<ExpSample> = Vec::new();
    let mut aexp: Vec<ExpSample> = Vec::new();
    for i in 0..c.frames {
        let body = filler(c.frame_bytes.max(4) as usize, (7u64 << 60) | i as u64, 0);
        let data = if codec == 2 {
            let mut v = Vec::new();
            if i == 0 {
                v.extend_from_slice(&obu(1, false, 0, true, 0, &Av1Seq::simple().payload()));
            }
            let mut b = body;
            b[0] &= 0x1f;
            v.extend_from_slice(&obu(6, false, 0, true, 0, &b));
            v
        } else if i == 0 {
            Vp9Key { profile: 0, byte4: 0, sync: 0, width: 320, height: 240, wlen: 2, hlen: 2, render: None, color: Some((0, None)), tail: 0 }.build(1).0.into_iter().chain(body).collect()
        } else {
            let mut v = vec![0x49, 0x83, 0x42, 0x10];
            v.extend_from_slice(&body);
            v
        };
        let t = i as u64 * 3000;
        vexp.push(ExpSample { bytes: data.clone(), key: i % 50 == 0, pts: t, dts: t, tie: false, op: ops.len(), pts_secs: 0.0, dts_secs: 0.0 });
        ops.push(COp::Video { pts: t as f64 / 90000.0, data, key: i % 50 == 0 });
        // interleave audio in submission order
        if (i as u64) < c.audio_frames as u64 {
            let p = OpusGene { config: 4, stereo: false, code: 0, count_byte: 0, len: 40 + (i % 7) as u16, corrupt: 0 }.build((9u64 << 60) | i as u64).0;
            aexp.push(ExpSample { bytes: p.clone(), key: true, pts: t, dts: t, tie: false, op: ops.len(), pts_secs: 0.0, dts_secs: 0.0 });
            ops.push(COp::Audio { pts: t as f64 / 90000.0, data: p });
        }
    }
    ops.push(COp::Finish(FinishKind::InPlaceStats));
    let run = run_history(&cfg, &ops);
    if let Some(p) = &run.panic {
        o.aborted_by_panic = Some(p.clone());
        return o;
    }
    let total: u64 = vexp.iter().chain(aexp.iter()).map(|s| s.bytes.len() as u64).sum();
    if run.finished_at.is_none() {
        if total + 8 <= u32::MAX as u64 - 1_000_000 {
            o.fail("finish", "finish.large_file_rejected", format!("finish failed for {} bytes of media data (fits 32-bit sizes): {:?}", total, run.results.last().map(|r| r.short())));
        }
        return o;
    }
    let all_ok = run.results.iter().all(|r| r.is_ok());
    if !all_ok {
        o.class("some_call_rejected");
        return o;
    }
    let v: Vec<&ExpSample> = vexp.iter().collect();
    let a: Vec<&ExpSample> = aexp.iter().collect();
    match parse(&run.out) {
        Err(e) => o.fail("parse", "parse.large", format!("output does not parse: {}", e)),
        Ok(p) => check_samples(&mut o, &run.out, &p, &v, &a, &cfg, ":large"),
    }
    o.nontrivial = true;
    if total >= 1 << 24 {
        o.class("file_beyond_2^24_bytes");
    }
    if total >= 1 << 31 {
        o.class("file_beyond_2^31_bytes");
    }
    if c.frames > 65535 {
        o.class("more_than_65535_samples");
    }
    o
}

fn run_big(ctx: &Ctx) -> SubReport {
    let thorough = ctx.tier == Tier::Thorough;
    let mk = move |shard: usize, shards: usize| {
        let mut v = vec![
            // > 65 535 samples per track, both layouts, with and without audio
            BigCase { codec: 0, audio: 0, fast_start: true, frames: 70_000, frame_bytes: 5, audio_frames: 0 },
            BigCase { codec: 1, audio: 1, fast_start: false, frames: 66_000, frame_bytes: 9, audio_frames: 66_000 },
            BigCase { codec: 0, audio: 1, fast_start: true, frames: 65_536, frame_bytes: 4, audio_frames: 65_537 },
            // offsets beyond 2^24
            BigCase { codec: 1, audio: 1, fast_start: true, frames: 300, frame_bytes: 60_000, audio_frames: 300 },
            BigCase { codec: 0, audio: 0, fast_start: false, frames: 9, frame_bytes: 2_000_000, audio_frames: 0 },
            BigCase { codec: 0, audio: 1, fast_start: false, frames: 40, frame_bytes: 500_000, audio_frames: 40 },
        ];
        if thorough {
            // offsets beyond 2^31 (still below the 2^32 box-size limit)
            v.push(BigCase { codec: 1, audio: 0, fast_start: true, frames: 33, frame_bytes: 67_000_000, audio_frames: 0 });
            v.push(BigCase { codec: 0, audio: 1, fast_start: true, frames: 34, frame_bytes: 66_000_000, audio_frames: 34 });
            v.push(BigCase { codec: 1, audio: 1, fast_start: false, frames: 36, frame_bytes: 64_000_000, audio_frames: 20 });
        }
        // big cases are memory hungry: run them on at most 3 shards
        let lanes = shards.min(if thorough { 2 } else { 3 });
        v.into_iter().enumerate().filter(move |(i, _)| shard < lanes && i % lanes == shard).map(|(_, c)| c)
    };
    let mut r = run_enumerated(ctx, "long_and_large", &mk, &eval_big);
    r.exhaustive = false;
    r.notes.push("fixed list: > 65 535 samples per track; sample positions beyond 2^24 bytes (quick) and beyond 2^31 bytes (thorough only); the 2^32 limit is not explored".into());
    r
}

fn replay_big(v: &serde_json::Value) -> Result<Outcome, String> {
    let c: BigCase = serde_json::from_value(v.clone()).map_err(|e| e.to_string())?;
    Ok(eval_big(&c))
}

pub fn def() -> PropertyDef {
    PropertyDef {
        fuzz_targets: &["c01_scenario"],
        id: "C01",
        level: "exploration",
        rule: "valid A/V call histories (4 codecs x none/AAC(6)/Opus x fast-start x metadata, B-frame reordering, 3/4-byte start codes, \
               sizes 1 B..65 KB) are muxed and every stsz/stco/stsc/stss entry is dereferenced with an independent reader; \
               non-trivial = at least 2 accepted video samples with at least 2 distinct sizes; distinct by case hash",
        assumptions: &[
            "the harness's ISO-BMFF reader (src/reader.rs) implements stsc/stco/co64/stsz/stz2/stss resolution correctly",
            "expected MP4 framing is built from the generator's NAL/OBU lists, never by re-parsing",
        ],
        subs: vec![
            Box::new(PSub { name: "resolve", quick: 30000, thorough: 1000000, strat, eval }),
            Box::new(ESub { name: "long_and_large", run: run_big, replay: replay_big }),
            Box::new(LSub { name: "long_recordings", cases: long_cases_all, eval: eval, note: LONG_NOTE }),
        ],
    }
}
