//! C01 — every sample in the file resolves to exactly the bytes and key flag submitted.

use crate::engine::*;
use crate::exec::run_history;
use crate::mp4check::*;
use crate::scenario::*;
use proptest::strategy::Strategy;

pub fn eval(c: &ValidCase) -> Outcome {
    let mut o = Outcome::default();
    let l = lower(c);
    let run = run_history(&l.cfg, &l.ops);
    if let Some(p) = &run.panic {
        o.aborted_by_panic = Some(p.clone());
        return o;
    }
    if run.finished_at.is_none() {
        o.class("finish_not_ok");
        return o;
    }
    let (v, a) = accepted(&l, &run);
    let reord = v.iter().any(|s| s.pts != s.dts);
    let ctx = match (reord, !a.is_empty()) {
        (true, true) => ":reordered+audio",
        (true, false) => ":reordered",
        _ => "",
    };
    match parse(&run.out) {
        Err(e) => o.fail("parse", "parse", format!("output does not parse: {}", e)),
        Ok(p) => check_samples(&mut o, &run.out, &p, &v, &a, &l.cfg, ctx),
    }
    // non-triviality and classes
    let mut sizes: Vec<usize> = v.iter().map(|s| s.bytes.len()).collect();
    sizes.sort();
    sizes.dedup();
    o.nontrivial = v.len() >= 2 && sizes.len() >= 2;
    if !a.is_empty() {
        o.class("with_audio");
    }
    if reord {
        o.class("reordered");
    }
    if reord && !a.is_empty() {
        o.class("reordered_and_audio");
    }
    if l.cfg.fast_start_effective() {
        o.class("fast_start");
    }
    if l.cfg.title.is_some() || l.cfg.ctime.is_some() {
        o.class("metadata");
    }
    o.class(["h264", "h265", "av1", "vp9"][l.cfg.codec as usize % 4]);
    if l.cfg.is_aac() {
        o.class("aac");
    } else if l.cfg.has_audio() {
        o.class("opus");
    }
    let rejected = run.results.iter().filter(|r| r.is_err()).count();
    if rejected > 0 {
        o.class("some_call_rejected");
        for r in run.results.iter() {
            if let crate::exec::CallResult::Err { variant, .. } = r {
                o.class(&format!("rejected:{}:{}", ["h264", "h265", "av1", "vp9"][l.cfg.codec as usize % 4], variant));
                break;
            }
        }
    }
    if v.is_empty() {
        o.class("no_video_accepted");
    }
    o
}

fn strat(t: Tier) -> proptest::strategy::BoxedStrategy<ValidCase> {
    match t {
        Tier::Quick => valid_case_strategy(24, 30).boxed(),
        Tier::Thorough => proptest::prop_oneof![
            9 => valid_case_strategy(40, 60),
            1 => valid_case_strategy(600, 300),
        ]
        .boxed(),
    }
}

pub fn def() -> PropertyDef {
    PropertyDef {
        fuzz_targets: &[],
        id: "C01",
        level: "exploration",
        rule: "valid A/V call histories (4 codecs x none/AAC(6)/Opus x fast-start x metadata, B-frame reordering, 3/4-byte start codes, \
               sizes 1 B..65 KB) are muxed and every stsz/stco/stsc/stss entry is dereferenced with an independent reader; \
               non-trivial = at least 2 accepted video samples with at least 2 distinct sizes; distinct by case hash",
        assumptions: &[
            "the harness's ISO-BMFF reader (src/reader.rs) implements stsc/stco/co64/stsz/stz2/stss resolution correctly",
            "expected MP4 framing is built from the generator's NAL/OBU lists, never by re-parsing",
        ],
        subs: vec![Box::new(PSub { name: "resolve", quick: 30000, thorough: 1000000, strat, eval })],
    }
}
