//! C05 — rejected calls leave no trace (metamorphic: H vs H minus the rejected frame-writing calls).

use crate::contract::*;
use crate::engine::*;
use crate::exec::{run_history, COp, CallResult, FinishKind};
use crate::frag::*;
use crate::fragcase::{self, FragCase};
use crate::props::c04::run_resolved;
use proptest::strategy::Strategy;

pub fn eval(c: &RawCase) -> Outcome {
    let mut o = Outcome::default();
    let (cfg, _bv, steps, _) = run_resolved(c);
    let mut ops: Vec<COp> = steps.iter().map(|s| s.op.clone()).collect();
    ops.push(COp::Finish(FinishKind::InPlaceStats));
    let a = run_history(&cfg, &ops);
    if let Some(p) = &a.panic {
        o.aborted_by_panic = Some(p.clone());
        return o;
    }
    if !a.build.is_ok() {
        o.class("build_rejected");
        return o;
    }
    // H' = H without the rejected frame-writing calls
    let mut keep: Vec<usize> = Vec::new();
    let mut n_rejected = 0;
    let mut reasons = std::collections::BTreeSet::new();
    let mut rejected_followed_by_accept_same_track = false;
    for (i, (op, r)) in ops.iter().zip(a.results.iter()).enumerate() {
        let frame_call = op.is_video() || op.is_audio();
        if frame_call && r.is_err() {
            n_rejected += 1;
            if let CallResult::Err { variant, .. } = r {
                reasons.insert(*variant);
            }
            let later_ok = ops.iter().zip(a.results.iter()).skip(i + 1).any(|(op2, r2)| r2.is_ok() && op2.is_video() == op.is_video() && (op2.is_video() || op2.is_audio()));
            if later_ok {
                rejected_followed_by_accept_same_track = true;
            }
            continue;
        }
        keep.push(i);
    }
    let ops_b: Vec<COp> = keep.iter().map(|&i| ops[i].clone()).collect();
    let b = run_history(&cfg, &ops_b);
    if let Some(p) = &b.panic {
        o.aborted_by_panic = Some(p.clone());
        return o;
    }
    // decisions + stats
    for (k, &i) in keep.iter().enumerate() {
        let ra = &a.results[i];
        let rb = &b.results[k];
        let same = match (ra, rb) {
            (CallResult::Ok, CallResult::Ok) => true,
            (CallResult::OkStats(x), CallResult::OkStats(y)) => {
                if x != y {
                    let what = if x.video_frames != y.video_frames || x.audio_frames != y.audio_frames {
                        "frames"
                    } else if x.bytes_written != y.bytes_written {
                        "bytes_written"
                    } else {
                        "duration"
                    };
                    o.fail("stats", format!("stats.{}", what), format!("statistics differ: with rejected calls {:?}, without {:?}", x, y));
                    return o;
                }
                true
            }
            (CallResult::Err { variant: va, .. }, CallResult::Err { variant: vb, .. }) => va == vb,
            (CallResult::Skipped, CallResult::Skipped) => true,
            _ => false,
        };
        if !same {
            let ep = match &ops[i] {
                COp::Video { .. } => "write_video",
                COp::VideoDts { .. } => "write_video_with_dts",
                COp::Audio { .. } => "write_audio",
                COp::EncVideo { .. } => "encode_video",
                COp::EncAudio { .. } => "encode_audio",
                COp::Finish(_) => "finish",
            };
            o.fail(
                "decisions",
                format!("decisions.{}.{}_vs_{}", ep, ra.short().split('(').next().unwrap_or(""), rb.short().split('(').next().unwrap_or("")),
                format!("call {} ({}) returned {} in the full history but {} once the rejected calls are removed", i, ep, ra.short(), rb.short()),
            );
            return o;
        }
    }
    if a.out != b.out {
        let pos = a.out.iter().zip(b.out.iter()).position(|(x, y)| x != y).unwrap_or(a.out.len().min(b.out.len()));
        // name the box the first difference falls into (coarse signature)
        let boxname = crate::reader::parse_tree(&a.out)
            .ok()
            .and_then(|t| deepest(&t, pos))
            .unwrap_or_else(|| "unknown".into());
        o.fail(
            "bytes",
            format!("bytes.first_diff_in.{}", boxname),
            format!("output differs (lengths {} vs {}), first difference at byte {} inside '{}'", a.out.len(), b.out.len(), pos, boxname),
        );
    }
    // each rejected call on its own: with all OTHER rejected calls removed it must be rejected again, for the same reason
    // (otherwise it was rejected only because of what earlier rejected calls left behind)
    if o.violations.is_empty() {
        let rejected_idx: Vec<usize> = (0..ops.len()).filter(|i| !keep.contains(i)).collect();
        let same_op = |x: usize, y: usize| format!("{:?}", ops[x]) == format!("{:?}", ops[y]);
        // a run of identical rejected calls needs only its first and last member
        let distinct: Vec<usize> = rejected_idx
            .iter()
            .copied()
            .enumerate()
            .filter(|&(k, i)| {
                let prev_same = k > 0 && rejected_idx[k - 1] + 1 == i && same_op(rejected_idx[k - 1], i);
                let next_same = k + 1 < rejected_idx.len() && rejected_idx[k + 1] == i + 1 && same_op(rejected_idx[k + 1], i);
                !(prev_same && next_same)
            })
            .map(|x| x.1)
            .collect();
        let pick: Vec<usize> = if distinct.len() <= 24 { distinct.clone() } else { distinct[..12].iter().chain(distinct[distinct.len() - 12..].iter()).copied().collect() };
        for r in pick {
            let pos = keep.iter().filter(|&&k| k < r).count();
            let mut ops_r = ops_b.clone();
            ops_r.insert(pos, ops[r].clone());
            let cr = run_history(&cfg, &ops_r);
            if cr.panic.is_some() {
                continue;
            }
            o.sub_evals += 1;
            let (ra, rr) = (&a.results[r], &cr.results[pos]);
            let same = match (ra, rr) {
                (CallResult::Err { variant: va, .. }, CallResult::Err { variant: vb, .. }) => va == vb,
                _ => false,
            };
            if !same {
                let ep = match &ops[r] {
                    COp::Video { .. } => "write_video",
                    COp::VideoDts { .. } => "write_video_with_dts",
                    COp::Audio { .. } => "write_audio",
                    COp::EncVideo { .. } => "encode_video",
                    COp::EncAudio { .. } => "encode_audio",
                    COp::Finish(_) => "finish",
                };
                o.fail(
                    "decisions",
                    format!("decisions.alone.{}.{}_vs_{}", ep, ra.short().split('(').next().unwrap_or(""), rr.short().split('(').next().unwrap_or("")),
                    format!(
                        "call {} ({}) returned {} in the full history but {} when the other rejected calls are removed: its fate depended on calls that were themselves rejected",
                        r,
                        ep,
                        ra.short(),
                        rr.short()
                    ),
                );
                break;
            }
        }
    }
    o.nontrivial = rejected_followed_by_accept_same_track;
    if n_rejected == 0 {
        o.class("no_rejection");
    }
    for r in reasons {
        o.class(&format!("rejection:{}", r));
    }
    // position classes
    if let Some(first_frame_idx) = ops.iter().position(|op| op.is_video() || op.is_audio()) {
        if a.results[first_frame_idx].is_err() {
            o.class("rejected_first_call");
        }
    }
    o
}

fn deepest(nodes: &[crate::reader::Node], pos: usize) -> Option<String> {
    for n in nodes {
        if pos >= n.start && pos < n.end {
            return Some(deepest(&n.kids, pos).unwrap_or_else(|| n.name()));
        }
    }
    None
}

pub fn eval_frag(c: &FragCase) -> Outcome {
    let mut o = Outcome::default();
    let mut c = c.clone();
    c.ops.push(fragcase::FGene::Flush);
    let l = fragcase::lower(&c);
    let a = run_frag(&l.cfg, &l.ops);
    if let Some(p) = &a.panic {
        o.aborted_by_panic = Some(p.clone());
        return o;
    }
    let mut keep = Vec::new();
    let mut rejected = 0;
    let mut rej_then_ok = false;
    for (i, (op, r)) in l.ops.iter().zip(a.results.iter()).enumerate() {
        if matches!(op, FOp::Write { .. }) && matches!(r, FRes::WriteErr { .. }) {
            rejected += 1;
            if l.ops.iter().zip(a.results.iter()).skip(i + 1).any(|(_, r2)| matches!(r2, FRes::WriteOk)) {
                rej_then_ok = true;
            }
            continue;
        }
        keep.push(i);
    }
    let ops_b: Vec<FOp> = keep.iter().map(|&i| l.ops[i].clone()).collect();
    let b = run_frag(&l.cfg, &ops_b);
    if let Some(p) = &b.panic {
        o.aborted_by_panic = Some(p.clone());
        return o;
    }
    for (k, &i) in keep.iter().enumerate() {
        if a.results[i] != b.results[k] {
            let what = match &l.ops[i] {
                FOp::Write { .. } => "write",
                FOp::Flush => "flush",
                FOp::Ready => "ready_to_flush",
                FOp::DurMs => "current_fragment_duration_ms",
                FOp::Init => "init_segment",
            };
            o.fail(
                "frag",
                format!("frag.{}", what),
                format!("op {} ({}) behaves differently once the rejected writes are removed", i, what),
            );
            return o;
        }
    }
    if o.violations.is_empty() {
        let rejected_idx: Vec<usize> = (0..l.ops.len()).filter(|i| !keep.contains(i)).collect();
        let pick: Vec<usize> = if rejected_idx.len() <= 16 { rejected_idx.clone() } else { rejected_idx[..8].iter().chain(rejected_idx[rejected_idx.len() - 8..].iter()).copied().collect() };
        for r in pick {
            let pos = keep.iter().filter(|&&k| k < r).count();
            let mut ops_r = ops_b.clone();
            ops_r.insert(pos, l.ops[r].clone());
            let cr = run_frag(&l.cfg, &ops_r);
            if cr.panic.is_some() {
                continue;
            }
            o.sub_evals += 1;
            if cr.results[pos] != a.results[r] {
                o.fail("frag", "frag.alone.write", format!("write {} was rejected in the full history but behaves differently when the other rejected writes are removed", r));
                break;
            }
        }
    }
    o.nontrivial = rej_then_ok;
    if rejected == 0 {
        o.class("no_rejection");
    }
    o
}

fn strat(t: Tier) -> proptest::strategy::BoxedStrategy<RawCase> {
    match t {
        Tier::Quick => raw_case_strategy(24, 1).boxed(),
        Tier::Thorough => proptest::prop_oneof![9 => raw_case_strategy(40, 1), 1 => raw_case_strategy(200, 1)].boxed(),
    }
}
fn strat_frag(t: Tier) -> proptest::strategy::BoxedStrategy<FragCase> {
    match t {
        Tier::Quick => fragcase::frag_case_strategy(30).boxed(),
        Tier::Thorough => fragcase::frag_case_strategy(80).boxed(),
    }
}

// ---- rejected calls whose payloads add up to more than 2^32 bytes (one shared 32 MiB buffer offered 136 times)

#[derive(Clone, Debug, serde::Serialize, serde::Deserialize, PartialEq, Eq, Hash)]
pub struct VolumeCase {
    /// 0: progressive, invalid audio payloads; 1: progressive, video frames with a non-increasing timestamp; 2: fragmented, decreasing DTS
    pub family: u8,
    pub codec: u8,
    pub audio: u8,
    pub times: u16,
    pub mib: u16,
}

fn volume_cases(_t: Tier) -> Vec<VolumeCase> {
    vec![
        VolumeCase { family: 0, codec: 0, audio: 1, times: 136, mib: 32 },
        VolumeCase { family: 0, codec: 1, audio: 1, times: 127, mib: 32 },
        VolumeCase { family: 1, codec: 0, audio: 0, times: 127, mib: 32 },
        VolumeCase { family: 2, codec: 1, audio: 0, times: 127, mib: 32 },
        VolumeCase { family: 0, codec: 2, audio: 7, times: 136, mib: 32 },
        VolumeCase { family: 1, codec: 1, audio: 0, times: 136, mib: 32 },
        VolumeCase { family: 2, codec: 0, audio: 0, times: 136, mib: 32 },
        VolumeCase { family: 2, codec: 3, audio: 0, times: 70, mib: 64 },
    ]
}

fn eval_volume(c: &VolumeCase) -> Outcome {
    use crate::exec::{guarded, CCfg};
    let mut o = Outcome::default();
    o.nontrivial = true;
    let mut huge = vec![0x5au8; (c.mib as usize) << 20];
    // invalid as ADTS (no sync word) and as an Opus packet (code 3 with a frame count of zero)
    huge[0] = 0x03;
    huge[1] = 0x00;
    let run = |with_rejected: bool| -> Result<(Vec<String>, Vec<u8>), String> {
        guarded(|| {
            let mut log: Vec<String> = Vec::new();
            if c.family == 2 {
                let fc = crate::fragcase::FragCase { codec: c.codec, via_builder: false, start: 0, width: 640, height: 480, pset_len: (12, 5, 7), ops: vec![], const_interval: None, realistic: true };
                let mut m = match build_frag(&crate::fragcase::fcfg(&fc)) {
                    Ok(Ok(m)) => m,
                    _ => return (vec!["build failed".into()], vec![]),
                };
                let mut out = Vec::new();
                for seg in 0..3u64 {
                    for i in 0..4u64 {
                        let dts = 100_000 + (seg * 4 + i) * 3000;
                        log.push(format!("{:?}", m.write_video(dts, dts, &crate::fragcase::realistic_payload(c.codec, 40, i == 0, seg * 4 + i), i == 0).is_ok()));
                        if with_rejected && seg == 0 && i == 1 {
                            for _ in 0..c.times {
                                let r = m.write_video(5, 5, &huge, false);
                                if r.is_ok() {
                                    log.push("a write with a decreasing DTS was accepted".into());
                                }
                            }
                            // ... and a tail of ever shorter ones (half, quarter, ... one byte; twice) so that a byte counter
                            // that refuses to go past a limit is driven right up to it
                            for _ in 0..2 {
                                let mut len = huge.len() / 2;
                                while len > 0 {
                                    if m.write_video(5, 5, &huge[..len], false).is_ok() {
                                        log.push("a write with a decreasing DTS was accepted".into());
                                    }
                                    len /= 2;
                                }
                            }
                        }
                        log.push(format!("{} {}", m.ready_to_flush(), m.current_fragment_duration_ms()));
                    }
                    match m.flush_segment() {
                        Some(sg) => {
                            log.push(format!("segment of {} bytes", sg.len()));
                            out.extend_from_slice(&sg);
                        }
                        None => log.push("no segment".into()),
                    }
                }
                return (log, out);
            }
            let mut cfg = CCfg::basic(c.codec);
            cfg.audio = c.audio;
            cfg.channels = 1;
            let sink = crate::exec::RecSink::new();
            let mut m = match crate::exec::build_muxer(sink.clone(), &cfg) {
                Ok(m) => m,
                Err(e) => return (vec![format!("build: {}", e)], vec![]),
            };
            let key = vframe(c.codec, &VF { kind: VKind::KeyCfg, size: 30, shape: 0 }, 0).0;
            log.push(format!("{:?}", m.write_video(0.0, &key, true).is_ok()));
            let afr = |i: u64| aframe(&cfg, &AF { kind: AKind::Valid, size: 9, shape: 33 }, 100 + i).0;
            for i in 0..6u64 {
                if c.audio != 0 {
                    log.push(format!("a{:?}", m.write_audio(i as f64 * 0.02, &afr(i)).map_err(|e| format!("{}", e))));
                }
                if i > 0 {
                    let d = vframe(c.codec, &VF { kind: VKind::Delta, size: 12, shape: 0 }, i).0;
                    log.push(format!("v{:?}", m.write_video(i as f64 / 30.0, &d, false).map_err(|e| format!("{}", e))));
                }
                if with_rejected && i == 2 {
                    for _ in 0..c.times {
                        let r = if c.family == 0 { m.write_audio(0.05, &huge) } else { m.write_video(2.0 / 30.0, &huge, false) };
                        if r.is_ok() {
                            log.push("a call that must be rejected was accepted".into());
                        }
                    }
                    for _ in 0..2 {
                        let mut len = huge.len() / 2;
                        while len > 1 {
                            let r = if c.family == 0 { m.write_audio(0.05, &huge[..len]) } else { m.write_video(2.0 / 30.0, &huge[..len], false) };
                            if r.is_ok() {
                                log.push("a call that must be rejected was accepted".into());
                            }
                            len /= 2;
                        }
                    }
                }
            }
            log.push(format!("{:?}", m.finish_in_place_with_stats().map_err(|e| format!("{}", e))));
            (log, sink.bytes())
        })
    };
    let a = run(true);
    let b = run(false);
    match (a, b) {
        (Ok((la, oa)), Ok((lb, ob))) => {
            if la != lb {
                let k = la.iter().zip(lb.iter()).position(|(x, y)| x != y).unwrap_or(la.len().min(lb.len()));
                o.fail(
                    "decisions",
                    format!("decisions.after_rejected_volume.family{}", c.family),
                    format!("after {} rejected calls offering {} MiB each, step {} returns {:?} but {:?} without them", c.times, c.mib, k, la.get(k), lb.get(k)),
                );
            } else if oa != ob {
                o.fail("bytes", format!("bytes.after_rejected_volume.family{}", c.family), format!("output differs after {} rejected calls offering {} MiB each", c.times, c.mib));
            }
        }
        (Err(p), _) | (_, Err(p)) => o.aborted_by_panic = Some(p),
    }
    o
}

pub fn def() -> PropertyDef {
    PropertyDef {
        fuzz_targets: &["c04_history"],
        id: "C05",
        level: "exploration",
        rule: "C04-style histories (every rejection reason at every position, all codecs, convenience forms) are executed twice: as generated, and with \
               the calls that were rejected removed; later decisions, statistics and every output byte must agree. Same for the fragmented muxer \
               (decreasing-DTS writes among flush/query ops). Non-trivial = a rejected call later followed by an accepted call of the same track",
        assumptions: &["the relation is purely differential (implementation vs itself on H and H'), no model of the contract is needed"],
        subs: vec![
            Box::new(PSub { name: "progressive", quick: 40000, thorough: 1200000, strat, eval }),
            Box::new(PSub { name: "fragmented", quick: 20000, thorough: 600000, strat: strat_frag, eval: eval_frag }),
            Box::new(LSub { name: "bursts_and_long", cases: burst_cases, eval, note: BURST_NOTE }),
            Box::new(LSub {
                name: "rejected_volume",
                cases: volume_cases,
                eval: eval_volume,
                note: "fixed list: one shared 32 / 64 MiB buffer offered 136 / 70 times in rejected calls (invalid audio payload, non-increasing video timestamp, decreasing fragmented DTS): more than 2^32 rejected bytes on one muxer, compared with the same history without them",
            }),
        ],
    }
}
