//! C18 — title, creation date and language are stored faithfully and touch nothing else.

use crate::engine::*;
use crate::exec::{run_history, CCfg, COp, FinishKind};
use crate::gen::*;
use crate::model::iso8601;
use crate::mp4check::*;
use crate::props::c08::describe;
use crate::reader::{parse_movie, Movie};
use crate::scenario::*;
use proptest::prelude::*;
use serde::{Deserialize, Serialize};
use serde_json::Value;

fn tiny_ops(audio: bool) -> Vec<COp> {
    let key = AnnexBFrame {
        nals: vec![
            NalGene { typ: 7, len: 6, fill: 0, sc4: true, aux: 3 },
            NalGene { typ: 8, len: 3, fill: 0, sc4: true, aux: 3 },
            NalGene { typ: 5, len: 20, fill: 0, sc4: true, aux: 3 },
        ],
        lead_zeros: 0,
        trail_zeros: 0,
    }
    .build(false, 1)
    .0;
    let mut ops = vec![COp::Video { pts: 0.0, data: key, key: true }];
    if audio {
        let a = AdtsGene { protection_absent: true, profile: 1, sfi: 3, chan: 1, payload_len: 10, extra: 0, fill: 0, corrupt: 0 , misc: 0}.build(7).0;
        ops.push(COp::Audio { pts: 0.0, data: a });
    }
    ops.push(COp::Finish(FinishKind::InPlace));
    ops
}

fn mux(cfg: &CCfg, ops: &[COp]) -> Result<(Vec<u8>, Movie), Option<String>> {
    let run = run_history(cfg, ops);
    if let Some(p) = run.panic {
        return Err(Some(p));
    }
    if run.finished_at.is_none() {
        return Err(None);
    }
    match parse_movie(&run.out) {
        Ok((_, m)) => Ok((run.out, m)),
        Err(_) => Err(None),
    }
}

fn item<'a>(m: &'a Movie, key: &[u8; 4]) -> Vec<&'a crate::reader::UdtaItem> {
    m.udta_items.iter().filter(|i| &i.key == key).collect()
}

fn check_title(o: &mut Outcome, m: &Movie, title: &str) {
    let items = item(m, b"\xa9nam");
    if items.len() != 1 || items[0].n_data != 1 {
        o.fail("title", format!("title.items={}", items.len()), format!("{} '(c)nam' items (data atoms: {:?}) for a configured title", items.len(), items.iter().map(|i| i.n_data).collect::<Vec<_>>()));
        return;
    }
    let it = items[0];
    if it.data_type != 1 || it.locale != 0 {
        o.fail("title", "title.type_locale", format!("(c)nam data atom type {} locale {} (expected 1, 0)", it.data_type, it.locale));
    }
    if it.value != title.as_bytes() {
        let kind = if title.is_ascii() { "ascii" } else { "multibyte" };
        o.fail("title", format!("title.bytes.{}", kind), format!("(c)nam value {} but the title is {} ({} bytes)", hex(&it.value, 40), hex(title.as_bytes(), 40), title.len()));
    }
    if m.meta_hdlr != Some(*b"mdir") {
        o.fail("title", "title.meta_hdlr", format!("meta handler {:?}, expected mdir", m.meta_hdlr));
    }
}

fn check_date(o: &mut Outcome, m: &Movie, t: u64) {
    let items = item(m, b"\xa9day");
    if items.len() != 1 || items[0].n_data != 1 {
        o.fail("date", format!("date.items={}", items.len()), "expected exactly one '(c)day' item");
        return;
    }
    let want = iso8601(t);
    if items[0].value != want.as_bytes() || items[0].data_type != 1 {
        let y = want[..4].parse::<u32>().unwrap_or(0);
        let era = if y >= 2100 { "ge2100" } else { "lt2100" };
        o.fail(
            "date",
            format!("date.value.{}", era),
            format!("(c)day = {:?} for Unix time {} but the ISO-8601 UTC date-time is {}", String::from_utf8_lossy(&items[0].value), t, want),
        );
    }
}

fn check_lang(o: &mut Outcome, m: &Movie, want: &[u8; 3], ctx: &str) {
    for (i, t) in m.tracks.iter().enumerate() {
        if t.mdhd.pad != 0 {
            o.fail("lang", "lang.pad", format!("track {} mdhd pad bit set", i));
        }
        if &t.mdhd.lang != want {
            o.fail(
                "lang",
                format!("lang.{}.track{}", ctx, if t.is_video { "video" } else { "audio" }),
                format!("track {} mdhd language {:?} (raw {:#06x}) but configured {:?}", i, String::from_utf8_lossy(&t.mdhd.lang), t.mdhd.lang_raw, String::from_utf8_lossy(want)),
            );
            return;
        }
    }
}

// ---- titles + isolation on generated histories

#[derive(Clone, Debug, Serialize, Deserialize, PartialEq, Eq, Hash)]
pub struct MetaCase {
    pub base: ValidCase,
    pub title: Option<String>,
    pub ctime: Option<u64>,
    pub lang: Option<String>,
}

pub fn eval_meta(c: &MetaCase) -> Outcome {
    let mut o = Outcome::default();
    let mut with = c.base.clone();
    with.cfg.title = c.title.clone();
    with.cfg.ctime = c.ctime;
    with.cfg.lang = c.lang.clone();
    let mut without = c.base.clone();
    without.cfg.title = None;
    without.cfg.ctime = None;
    without.cfg.lang = None;
    let lw = lower(&with);
    let lo = lower(&without);
    let rw = run_history(&lw.cfg, &lw.ops);
    let ro = run_history(&lo.cfg, &lo.ops);
    if let Some(p) = rw.panic.as_ref().or(ro.panic.as_ref()) {
        o.aborted_by_panic = Some(p.clone());
        if rw.panic.is_some() && ro.panic.is_none() && ro.finished_at.is_some() {
            // a panic as such is C12's finding; that the very same history is muxed fine WITHOUT the metadata makes it an
            // isolation failure as well: the metadata decided whether a file is produced at all
            o.fail("isolation", "isolation.panic_only_with_metadata", format!("the history is muxed without metadata, but panics with title {:?} / creation time {:?} / language {:?}: {}", c.title, c.ctime, c.lang, p));
        }
        return o;
    }
    if rw.finished_at.is_none() || ro.finished_at.is_none() {
        if rw.finished_at.is_some() != ro.finished_at.is_some() && rw.results.iter().map(|r| r.is_ok()).ne(ro.results.iter().map(|r| r.is_ok())) {
            o.fail("isolation", "isolation.decisions", "accept / reject decisions differ between the runs with and without metadata");
        }
        o.class("finish_not_ok");
        return o;
    }
    let (pw, po) = match (parse(&rw.out), parse(&ro.out)) {
        (Ok(a), Ok(b)) => (a, b),
        _ => {
            o.class("unparseable_not_judged(C02)");
            return o;
        }
    };
    if let Some(t) = &c.title {
        check_title(&mut o, &pw.movie, t);
    } else if !item(&pw.movie, b"\xa9nam").is_empty() {
        o.fail("title", "title.unexpected", "(c)nam present although no title was configured");
    }
    if let Some(t) = c.ctime {
        if t < 253_402_300_800 {
            check_date(&mut o, &pw.movie, t);
        } else {
            // beyond year 9999 the four-digit calendar form does not exist; the isolation clause below still applies
            o.unconstrained.push("creation_time_beyond_year_9999".into());
        }
    } else if !item(&pw.movie, b"\xa9day").is_empty() {
        o.fail("date", "date.unexpected", "(c)day present although no creation time was configured");
    }
    let extra: Vec<_> = pw.movie.udta_items.iter().filter(|i| &i.key != b"\xa9nam" && &i.key != b"\xa9day").collect();
    if !extra.is_empty() {
        o.fail("title", "udta.extra_items", format!("unexpected udta items {:?}", extra.iter().map(|i| crate::reader::fourcc(&i.key)).collect::<Vec<_>>()));
    }
    // no_udta
    let want_udta = c.title.is_some() || c.ctime.is_some();
    if pw.movie.udta_present != want_udta {
        o.fail(
            "no_udta",
            format!("no_udta.present={}", pw.movie.udta_present),
            format!("udta present = {} with title {:?} ctime {:?} language {:?}", pw.movie.udta_present, c.title.is_some(), c.ctime.is_some(), c.lang),
        );
    }
    if po.movie.udta_present {
        o.fail("no_udta", "no_udta.without_metadata", "udta emitted without any metadata");
    }
    // language
    let wl: Option<[u8; 3]> = c.lang.as_ref().and_then(|l| {
        let b = l.as_bytes();
        if b.len() == 3 && b.iter().all(|x| x.is_ascii_lowercase()) {
            Some([b[0], b[1], b[2]])
        } else {
            None
        }
    });
    match (&c.lang, wl) {
        (None, _) => check_lang(&mut o, &pw.movie, b"und", "default"),
        (Some(_), Some(w)) => check_lang(&mut o, &pw.movie, &w, "code"),
        (Some(_), None) => o.unconstrained.push("malformed_language_code(only well-formedness required)".into()),
    }
    check_lang(&mut o, &po.movie, b"und", "no_metadata");
    // isolation: identical description except udta and mdhd language; resolution still succeeds in both
    let (vw, aw) = accepted(&lw, &rw);
    let (vo, ao) = accepted(&lo, &ro);
    let mut o1 = Outcome::default();
    check_samples(&mut o1, &rw.out, &pw, &vw, &aw, &lw.cfg, "");
    let mut o2 = Outcome::default();
    check_samples(&mut o2, &ro.out, &po, &vo, &ao, &lo.cfg, "");
    if o1.violations.len() != o2.violations.len() {
        for v in o1.violations {
            o.fail("isolation", format!("isolation.resolve.{}", v.sig), v.detail);
        }
    }
    let strip = |d: Vec<(String, String)>| -> Vec<(String, String)> {
        d.into_iter()
            .filter(|(k, _)| !k.starts_with("udta") && k != "meta_hdlr")
            .map(|(k, v)| {
                if k.ends_with(".mdhd") {
                    // blank out the language fields
                    let v2 = match (v.find("lang: ["), v.find("predefined")) {
                        (Some(a), Some(b)) if a < b => format!("{}{}", &v[..a], &v[b..]),
                        _ => v,
                    };
                    (k, v2)
                } else {
                    (k, v)
                }
            })
            .collect()
    };
    let dw = strip(describe(&pw.movie, &rw.out));
    let dn = strip(describe(&po.movie, &ro.out));
    if dw != dn {
        let mut diff = String::from("lengths differ");
        let mut key = String::from("len");
        for (a, b) in dw.iter().zip(dn.iter()) {
            if a != b {
                key = a.0.split('.').last().unwrap_or("").trim_end_matches(char::is_numeric).to_string();
                diff = format!("{}: with metadata {} / without {}", a.0, clip(&a.1, 160), clip(&b.1, 160));
                break;
            }
        }
        o.fail("isolation", format!("isolation.{}", key), diff);
    }
    let combo = (c.title.is_some() as u8) | ((c.ctime.is_some() as u8) << 1) | ((c.lang.is_some() as u8) << 2);
    o.class(&format!("presence_combo_{}", combo));
    let multibyte = c.title.as_ref().map(|t| !t.is_ascii()).unwrap_or(false);
    o.nontrivial = multibyte || c.ctime.is_some() || wl.map(|w| &w != b"und" && &w != b"eng").unwrap_or(false);
    if multibyte {
        o.class("multibyte_title");
    }
    if c.title.as_ref().map(|t| t.is_empty()).unwrap_or(false) {
        o.class("empty_title");
    }
    if c.title.as_ref().map(|t| t.len() > 1000).unwrap_or(false) {
        o.class("long_title");
    }
    if c.lang.is_some() && wl.is_none() {
        o.class("malformed_language");
    }
    if lw.cfg.has_audio() {
        o.class("audio");
    }
    o
}

pub fn meta_strategy(t: Tier) -> BoxedStrategy<MetaCase> {
    let (mv, ma) = if t == Tier::Quick { (6, 6) } else { (20, 20) };
    (
        valid_case_strategy(mv, ma),
        proptest::option::weighted(0.6, prop_oneof![3 => "\\PC{0,40}", 2 => "[ -~]{0,60}", 1 => Just(String::new()), 1 => "\\PC{300,1500}", 1 => any::<String>(), 3 => crate::scenario::title_strategy(),
            1 => (proptest::sample::select(vec![240usize, 247, 248, 254, 255, 256, 257, 65_511, 65_519, 65_520, 65_527, 65_535, 65_536, 70_000]), proptest::sample::select(vec!['a', 'é', '€', '😀'])).prop_map(|(n, ch)| std::iter::repeat(ch).take(n / ch.len_utf8() + 1).collect::<String>())]),
        proptest::option::weighted(0.5, prop_oneof![6 => 0u64..4_102_444_800, 4 => 0u64..253_402_300_800, 1 => Just(0u64), 1 => Just(86_399u64), 1 => 253_402_300_800u64..=u64::MAX, 1 => 253_402_300_800u64..400_000_000_000]),
        proptest::option::weighted(0.6, prop_oneof![5 => "[a-z]{3}", 1 => "[A-Z]{3}", 1 => "[a-z]{0,2}", 1 => "[a-z0-9]{4,6}", 1 => "\\PC{1,4}"]),
    )
        .prop_map(|(base, mut title, ctime, lang)| {
            // one case in ten with both: the title contains the ISO-8601 rendering of its own creation time ("Front door 2024-05-17T09:30:00Z")
            if let (Some(t), Some(ct)) = (title.as_mut(), ctime) {
                if ct % 10 == 3 && ct < 253_402_300_800 {
                    if ct % 20 == 3 {
                        *t = iso8601(ct);
                    } else {
                        t.push(' ');
                        t.push_str(&iso8601(ct));
                    }
                }
            }
            MetaCase { base, title, ctime, lang }
        })
        .boxed()
}

// ---- dates (enumerated)

pub fn eval_date(t: &u64) -> Outcome {
    let mut o = Outcome::default();
    let mut cfg = CCfg::basic(0);
    cfg.ctime = Some(*t);
    // one instant in four is configured twice (another instant first), through the Metadata setter or the builder alias
    cfg.reconfig = [0, 0, 0, 1, 0, 0, 0, 4][(*t % 8) as usize] | (((*t / 8) % 6) as u8) << 4;
    if *t % 5 == 0 {
        cfg.title = Some("t".into());
        cfg.lang = Some("deu".into());
    }
    match mux(&cfg, &tiny_ops(false)) {
        Ok((_, m)) => check_date(&mut o, &m, *t),
        Err(Some(p)) => o.aborted_by_panic = Some(p),
        Err(None) => o.class("finish_not_ok"),
    }
    let s = iso8601(*t);
    let md = &s[5..10];
    o.nontrivial = matches!(md, "02-28" | "02-29" | "03-01" | "12-31" | "01-01");
    if md == "02-29" {
        o.class("leap_day");
    }
    if s[..4].parse::<u32>().map(|y| y % 100 == 0).unwrap_or(false) {
        o.class("century_year");
    }
    o
}

fn days_from_civil(y: i64, m: u32, d: u32) -> i64 {
    let y = if m <= 2 { y - 1 } else { y };
    let era = if y >= 0 { y } else { y - 399 } / 400;
    let yoe = (y - era * 400) as i64;
    let mp = if m > 2 { m - 3 } else { m + 9 } as i64;
    let doy = (153 * mp + 2) / 5 + d as i64 - 1;
    let doe = yoe * 365 + yoe / 4 - yoe / 100 + doy;
    era * 146_097 + doe - 719_468
}

fn run_dates(ctx: &Ctx) -> SubReport {
    let thorough = ctx.tier == Tier::Thorough;
    let seed = ctx.seed;
    let mk = move |shard: usize, shards: usize| {
        let mut v: Vec<u64> = Vec::new();
        // every day 1970-01-01 .. 9999-12-31; seconds of the day: a boundary value in rotation and a pseudo-random one
        // (thorough: first, last and a pseudo-random second of every day)
        const EDGE: [u64; 8] = [0, 86_399, 43_200, 3_599, 3_600, 59, 60, 86_340];
        let last = days_from_civil(9999, 12, 31);
        for d in 0..=last {
            if d as usize % shards == shard {
                let d = d as u64;
                let sec = d.wrapping_mul(0x9E3779B97F4A7C15).wrapping_add(seed) % 86400;
                v.push(d * 86400 + sec);
                if thorough {
                    v.push(d * 86400);
                    v.push(d * 86400 + 86_399);
                } else {
                    v.push(d * 86400 + EDGE[(d % 8) as usize]);
                }
            }
        }
        // every second of a few whole days (every hh:mm:ss rendering)
        let mut whole = vec![days_from_civil(2000, 2, 29)];
        if thorough {
            whole.extend([days_from_civil(1970, 1, 1), days_from_civil(2038, 1, 19), days_from_civil(9999, 12, 31), days_from_civil(2100, 3, 1)]);
        }
        for d in whole {
            for sec in 0..86_400u64 {
                if sec as usize % shards == shard {
                    v.push(d as u64 * 86400 + sec);
                }
            }
        }
        v.into_iter()
    };
    let mut r = run_enumerated(ctx, "dates", &mk, &eval_date);
    r.notes.push(if thorough {
        "every day 1970-01-01..9999-12-31 at its first, last and one pseudo-random second; every second of 5 whole days".into()
    } else {
        "every day 1970-01-01..9999-12-31 at one boundary second (rotating 00:00:00, 23:59:59, 12:00:00, 00:59:59, 01:00:00, 00:00:59, 00:01:00, 23:59:00) and one pseudo-random second; every second of 2000-02-29".into()
    });
    r
}

fn replay_date(v: &Value) -> Result<Outcome, String> {
    let t: u64 = serde_json::from_value(v.clone()).map_err(|e| e.to_string())?;
    Ok(eval_date(&t))
}

fn random_date_strategy(_t: Tier) -> BoxedStrategy<u64> {
    prop_oneof![3 => 0u64..4_102_444_800, 3 => 0u64..253_402_300_800].boxed()
}

// ---- termination for the full u64 range

pub fn eval_termination(t: &u64) -> Outcome {
    let mut o = Outcome::default();
    let t = *t;
    let (tx, rx) = std::sync::mpsc::channel();
    std::thread::spawn(move || {
        let mut cfg = CCfg::basic(0);
        cfg.ctime = Some(t);
        let r = run_history(&cfg, &tiny_ops(false));
        let _ = tx.send(r.panic.clone());
    });
    match rx.recv_timeout(std::time::Duration::from_secs(10)) {
        Ok(Some(p)) => o.aborted_by_panic = Some(p),
        Ok(None) => {}
        Err(_) => {
            o.fail(
                "termination",
                "termination.creation_time",
                format!("finish() with creation_time {} did not return within 10 s (a file with an ordinary date takes microseconds)", t),
            );
        }
    }
    o.nontrivial = t >= 253_402_300_800;
    o
}

fn run_termination(ctx: &Ctx) -> SubReport {
    let mk = |shard: usize, shards: usize| {
        let all: Vec<u64> = vec![1u64 << 33, 1 << 36, 1 << 40, 253_402_300_800, 1 << 45, 1 << 50, 1 << 56, 1 << 63, u64::MAX - 1, u64::MAX];
        all.into_iter().enumerate().filter(move |(i, _)| i % shards == shard).map(|(_, v)| v)
    };
    run_enumerated(ctx, "termination", &mk, &eval_termination)
}

fn replay_termination(v: &Value) -> Result<Outcome, String> {
    let t: u64 = serde_json::from_value(v.clone()).map_err(|e| e.to_string())?;
    Ok(eval_termination(&t))
}

// ---- languages (exhaustive)

pub fn eval_lang(c: &(u16, bool)) -> Outcome {
    let mut o = Outcome::default();
    let (idx, audio) = *c;
    let code = [b'a' + (idx / 676) as u8 % 26, b'a' + ((idx / 26) % 26) as u8, b'a' + (idx % 26) as u8];
    let mut cfg = CCfg::basic(0);
    if audio {
        cfg.audio = 1;
    }
    cfg.lang = Some(String::from_utf8_lossy(&code).to_string());
    cfg.reconfig = [0, 0, 1, 0, 4, 0, 2, 0][(idx % 8) as usize] | (((idx / 8) % 6) as u8) << 4;
    if idx % 5 == 0 {
        cfg.title = Some("t".into());
        cfg.ctime = Some(86_400 * 365);
    }
    match mux(&cfg, &tiny_ops(audio)) {
        Ok((_, m)) => {
            check_lang(&mut o, &m, &code, "code");
            if m.udta_present && cfg.title.is_none() && cfg.ctime.is_none() {
                o.fail("no_udta", "no_udta.language_only", "a language alone created a udta box");
            }
            if let Some(t) = cfg.ctime {
                check_date(&mut o, &m, t);
            }
            if audio && m.tracks.len() != 2 {
                o.class("missing_audio_track(C02)");
            }
        }
        Err(Some(p)) => o.aborted_by_panic = Some(p),
        Err(None) => o.class("finish_not_ok"),
    }
    o.nontrivial = &code != b"und" && &code != b"eng";
    o
}

fn run_langs(ctx: &Ctx) -> SubReport {
    let mk = |shard: usize, shards: usize| (0u32..17576 * 2).filter(move |i| *i as usize % shards == shard).map(|i| ((i / 2) as u16, i % 2 == 1));
    let mut r = run_enumerated(ctx, "languages", &mk, &eval_lang);
    r.notes.push("all 26^3 lower-case codes on video-only and on A/V files".into());
    r
}

fn replay_lang(v: &Value) -> Result<Outcome, String> {
    let c: (u16, bool) = serde_json::from_value(v.clone()).map_err(|e| e.to_string())?;
    Ok(eval_lang(&c))
}

// ---- creation time taken from the system clock (Metadata::with_current_time) in every position of the with_* chain

pub fn now_cases(_t: Tier) -> Vec<(u8, bool)> {
    (0..6u8).flat_map(|p| [(p, false), (p, true)]).collect()
}

pub fn eval_now(c: &(u8, bool)) -> Outcome {
    let mut o = Outcome::default();
    o.nontrivial = true;
    let (perm, audio) = *c;
    let mut cfg = CCfg::basic(if audio { 1 } else { 0 });
    if audio {
        cfg.audio = 7;
    }
    cfg.title = Some("clock \u{e9}".into());
    cfg.lang = Some("deu".into());
    cfg.ctime = Some(crate::exec::CTIME_NOW);
    cfg.reconfig = perm << 4;
    let before = std::time::SystemTime::now().duration_since(std::time::UNIX_EPOCH).map(|d| d.as_secs()).unwrap_or(0);
    let mut ops = tiny_ops(audio);
    if cfg.codec == 1 {
        // tiny_ops builds an H.264 keyframe; for H.265 take a contract-model keyframe
        ops = vec![COp::Video { pts: 0.0, data: crate::contract::vframe(1, &crate::contract::VF { kind: crate::contract::VKind::KeyCfg, size: 12, shape: 0 }, 1).0, key: true }, COp::Finish(FinishKind::InPlace)];
    }
    match mux(&cfg, &ops) {
        Ok((_, m)) => {
            check_title(&mut o, &m, "clock \u{e9}");
            check_lang(&mut o, &m, b"deu", "with_current_time");
            let items = item(&m, b"\xa9day");
            if items.len() != 1 {
                o.fail("date", format!("date.items={}", items.len()), "expected exactly one '(c)day' item when with_current_time() was used");
            } else {
                // the rendered instant must lie between the start of this evaluation and now (+- 2 s): compare as ISO strings
                let after = std::time::SystemTime::now().duration_since(std::time::UNIX_EPOCH).map(|d| d.as_secs()).unwrap_or(u64::MAX);
                let got = String::from_utf8_lossy(&items[0].value).to_string();
                let ok = (before.saturating_sub(2)..=after.saturating_add(2)).any(|t| iso8601(t) == got);
                if !ok {
                    o.fail("date", "date.current_time", format!("(c)day = {:?} but the system clock read {} .. {} during the call", got, iso8601(before), iso8601(after)));
                }
            }
        }
        Err(Some(p)) => o.aborted_by_panic = Some(p),
        Err(None) => o.class("finish_not_ok"),
    }
    o
}

// ---- metadata configured through the command-line tool

#[derive(Clone, Debug, Serialize, Deserialize, PartialEq, Eq, Hash)]
pub struct CliMeta {
    pub title: Option<String>,
    pub lang: Option<String>,
    pub audio: bool,
}

fn cli_cases(_t: Tier) -> Vec<CliMeta> {
    let titles: Vec<&str> = vec![
        "plain",
        "My Holiday",
        "\"My Holiday\"",
        "'single quoted'",
        "\"",
        "\"\"",
        "''",
        "\"open only",
        "close only'",
        " leading and trailing ",
        "tab\there",
        "caf\u{e9} \u{65e5}\u{672c}\u{8a9e} \u{1f600}",
        "a=b",
        "C:\\videos\\clip",
        "50% $HOME `x` ~",
        "",
        "\u{feff}bom",
        "line\nbreak",
        "Recording 12\n",
        "Recording 13\r\n",
        "Recording 14\r",
        "\nleading newline",
        "trailing tab\t",
        "trailing nbsp\u{a0}",
        "ends with backslash\\",
        "ends with dot.",
        "file.mp4",
        "#hashtag; rm -rf",
        // values that name a file which exists in the tool's working directory (an "@file" / response-file convention
        // must not apply to a title)
        "@video.hex",
        "@./video.hex",
        "file:video.hex",
        "<video.hex",
        "video.hex",
    ];
    let mut v = Vec::new();
    for (i, t) in titles.iter().enumerate() {
        v.push(CliMeta { title: Some(t.to_string()), lang: if i % 3 == 0 { Some(["deu", "zxx", "qaa", "eng"][i / 3 % 4].to_string()) } else { None }, audio: i % 4 == 1 });
    }
    // ISO 639-2 codes that have a bibliographic and a terminologic spelling (both are three lower-case letters: each must be
    // stored as given), macro / special codes
    for l in [
        "eng", "und", "fra", "zzz", "aaa", "ger", "deu", "fre", "dut", "nld", "cze", "ces", "gre", "ell", "chi", "zho", "per", "fas", "rum", "ron", "slo", "slk", "wel", "cym", "baq", "eus", "arm", "hye", "geo",
        "kat", "ice", "isl", "mac", "mkd", "mao", "mri", "may", "msa", "tib", "bod", "alb", "sqi", "bur", "mya", "mul", "mis", "zxx", "qaa", "qtz", "scc", "scr", "mol", "iw ", "heb",
    ]
    .into_iter()
    .filter(|l| l.bytes().all(|b| b.is_ascii_lowercase()))
    {
        v.push(CliMeta { title: None, lang: Some(l.to_string()), audio: l == "fra" });
    }
    v.push(CliMeta { title: None, lang: None, audio: true });
    v
}

pub fn eval_cli(c: &CliMeta) -> Outcome {
    use crate::props::c20::{case_dir, ensure_built, hex_text, run_cli};
    let mut o = Outcome::default();
    if let Err(e) = ensure_built() {
        eprintln!("INFRA: {}", e);
        std::process::exit(2);
    }
    let dir = case_dir();
    let (vdata, _, _) = crate::contract::vframe(0, &crate::contract::VF { kind: crate::contract::VKind::KeyCfg, size: 40, shape: 0 }, 1);
    let _ = std::fs::write(dir.join("video.hex"), hex_text(&vdata, 0));
    let out = dir.join("out.mp4");
    let mut args: Vec<String> = vec!["mux".into(), "--video".into(), dir.join("video.hex").to_string_lossy().to_string(), "--output".into(), out.to_string_lossy().to_string()];
    for (k, v) in [("--width", "640"), ("--height", "480"), ("--fps", "30")] {
        args.push(k.into());
        args.push(v.into());
    }
    if c.audio {
        let a = AdtsGene { protection_absent: true, profile: 1, sfi: 3, chan: 2, payload_len: 14, extra: 0, fill: 0, corrupt: 0, misc: 0 }.build(2).0;
        let _ = std::fs::write(dir.join("audio.hex"), hex_text(&a, 0));
        args.extend(["--audio".to_string(), dir.join("audio.hex").to_string_lossy().to_string(), "--sample-rate".into(), "48000".into(), "--channels".into(), "2".into()]);
    }
    if let Some(t) = &c.title {
        args.push("--title".into());
        args.push(t.clone());
    }
    if let Some(l) = &c.lang {
        args.push("--language".into());
        args.push(l.clone());
    }
    let p = match run_cli(&args, &dir) {
        Ok(p) => p,
        Err(e) => {
            eprintln!("INFRA: {}", e);
            std::process::exit(2);
        }
    };
    let bytes = std::fs::read(&out).unwrap_or_default();
    let _ = std::fs::remove_dir_all(&dir);
    if p.code != Some(0) {
        // whether the tool accepts the invocation is C20's statement
        o.class("cli_did_not_succeed_not_judged(C20)");
        return o;
    }
    let m = match parse_movie(&bytes) {
        Ok((_, m)) => m,
        Err(_) => {
            o.class("unparseable_not_judged(C02)");
            return o;
        }
    };
    match &c.title {
        Some(t) => check_title(&mut o, &m, t),
        None => {
            if m.udta_present {
                o.fail("no_udta", "no_udta.cli", "udta emitted although neither --title nor a creation time was given");
            }
        }
    }
    let want: [u8; 3] = c.lang.as_ref().map(|l| [l.as_bytes()[0], l.as_bytes()[1], l.as_bytes()[2]]).unwrap_or(*b"und");
    check_lang(&mut o, &m, &want, "cli");
    for v in o.violations.iter_mut() {
        v.sig = format!("{}:cli", v.sig);
    }
    o.nontrivial = c.title.as_ref().map(|t| !t.chars().all(|ch| ch.is_ascii_alphanumeric())).unwrap_or(false) || c.lang.as_ref().map(|l| l != "eng" && l != "und").unwrap_or(false);
    if c.title.as_ref().map(|t| t.starts_with('"') || t.starts_with('\'')).unwrap_or(false) {
        o.class("title_starts_with_a_quote");
    }
    o
}

pub fn def() -> PropertyDef {
    PropertyDef {
        fuzz_targets: &[],
        id: "C18",
        level: "exploration",
        rule: "titles: any String (empty, multi-byte, long, arbitrary Unicode) on generated histories, with the 8 presence combinations of \
               title/creation time/language and a differential run without metadata (isolation); dates: EXHAUSTIVE over the days 1970-01-01..9999-12-31 (two instants per day in the quick tier, three in the thorough tier) plus every second of whole days \
               plus random instants, against an independent civil-from-days calendar; \
               languages: EXHAUSTIVE over all 26^3 codes on video-only and A/V files; termination for u64 extremes with a 10 s deadline. \
               Non-trivial = multi-byte title, leap-day / year-boundary date, code other than und/eng",
        assumptions: &["ISO-8601 string correctness is claimed up to year 9999; beyond only termination", "malformed language codes only require a well-formed file"],
        subs: vec![
            Box::new(LSub {
                name: "current_time",
                cases: now_cases,
                eval: eval_now,
                note: "with_current_time() in each of the six positions of the Metadata with_* chain, with and without audio: title and language must survive, the date must be the system clock's reading during the call (+- 2 s)",
            }),
            Box::new(LSub {
                name: "command_line",
                cases: cli_cases,
                eval: eval_cli,
                note: "--title / --language given to the command-line tool (quoted, padded, multi-byte, empty, shell-looking titles): the (c)nam item must hold the argument's exact bytes and every mdhd the code",
            }),
            Box::new(PSub { name: "titles_and_isolation", quick: 8000, thorough: 250000, strat: meta_strategy, eval: eval_meta }),
            Box::new(ESub { name: "dates", run: run_dates, replay: replay_date }),
            Box::new(PSub { name: "random_instants", quick: 20000, thorough: 600000, strat: random_date_strategy, eval: eval_date }),
            Box::new(ESub { name: "languages", run: run_langs, replay: replay_lang }),
            Box::new(ESub { name: "termination", run: run_termination, replay: replay_termination }),
        ],
    }
}
