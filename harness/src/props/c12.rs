//! C12 — no public entry point panics, overflows or hangs on any input.
//! The harness is built with overflow checks and debug assertions on.

use crate::contract::{vframe, VKind, VF};
use crate::engine::*;
use crate::exec::*;
use crate::frag::*;
use crate::gen::*;
use muxide::api::{AudioCodec, MuxerConfig, VideoCodec};
use muxide::codec;
use muxide::validation;
use proptest::collection::vec;
use proptest::prelude::*;
use serde::{Deserialize, Serialize};
use std::time::Duration;

/// Run `f` on a worker thread with a deadline; a candidate hang is confirmed by one re-run with a 60 s deadline.
pub fn with_deadline<C: Clone + Send + 'static>(c: &C, f: fn(&C) -> Outcome, what: &str) -> Outcome {
    for (attempt, secs) in [(0, 10u64), (1, 60u64)] {
        let (tx, rx) = std::sync::mpsc::channel();
        let cc = c.clone();
        std::thread::spawn(move || {
            let _ = tx.send(f(&cc));
        });
        match rx.recv_timeout(Duration::from_secs(secs)) {
            Ok(o) => return o,
            Err(_) => {
                if attempt == 1 {
                    let mut o = Outcome::default();
                    o.fail("prompt", format!("prompt.{}", what), "the calls of this case did not return within 10 s and again not within 60 s (normal cost: microseconds)".to_string());
                    return o;
                }
            }
        }
    }
    unreachable!()
}

fn note_panic(o: &mut Outcome, entry: &str, r: Result<(), String>) {
    if let Err(p) = r {
        if !o.violations.iter().any(|v| v.sig.ends_with(&p) && v.sig.contains(entry)) {
            o.fail("no_panic", format!("no_panic:{}:{}", entry, p), format!("{} panicked: {}", entry, p));
        }
    }
}

// ------------------------------------------------------------------------------------------
// (a) bytes -> every public parser

#[derive(Clone, Debug, Serialize, Deserialize, PartialEq, Eq, Hash)]
pub struct ParserCase {
    pub data: Vec<u8>,
    pub from: usize,
    pub flag: bool,
    pub num: u32,
}

pub fn eval_parsers_inner(c: &ParserCase) -> Outcome {
    let mut o = Outcome::default();
    let d = &c.data[..];
    let mut reached = false;
    macro_rules! call {
        ($name:expr, $e:expr) => {
            note_panic(&mut o, $name, guarded(|| {
                let _ = $e;
            }))
        };
    }
    call!("common::find_start_code", codec::common::find_start_code(d, c.from));
    call!("common::find_start_code(from=len)", codec::common::find_start_code(d, d.len()));
    call!("common::AnnexBNalIter", codec::common::AnnexBNalIter::new(d).map(|n| n.len()).sum::<usize>());
    call!("h264::extract_avc_config", {
        if let Some(cfg) = codec::h264::extract_avc_config(d) {
            reached = true;
            let _ = (cfg.profile_idc(), cfg.profile_compatibility(), cfg.level_idc());
        }
    });
    call!("h264::annexb_to_avcc", codec::h264::annexb_to_avcc(d));
    call!("h264::is_h264_keyframe", reached |= codec::h264::is_h264_keyframe(d));
    call!("h264::AvcConfig", {
        let cfg = codec::h264::AvcConfig::new(d.to_vec(), d.to_vec());
        let _ = (cfg.profile_idc(), cfg.profile_compatibility(), cfg.level_idc());
        let _ = codec::h264::default_avc_config();
    });
    call!("h265::hevc_nal_type", codec::h265::hevc_nal_type(d));
    call!("h265::is_hevc_keyframe_nal_type", codec::h265::is_hevc_keyframe_nal_type(c.num as u8));
    call!("h265::extract_hevc_config", {
        if let Some(cfg) = codec::h265::extract_hevc_config(d) {
            reached = true;
            let _ = (cfg.general_profile_space(), cfg.general_tier_flag(), cfg.general_profile_idc(), cfg.general_level_idc());
        }
    });
    call!("h265::HevcConfig", {
        let cfg = codec::h265::HevcConfig::new(d.to_vec(), d.to_vec(), d.to_vec());
        let _ = (cfg.general_profile_space(), cfg.general_tier_flag(), cfg.general_profile_idc(), cfg.general_level_idc());
    });
    call!("h265::hevc_annexb_to_hvcc", codec::h265::hevc_annexb_to_hvcc(d));
    call!("h265::is_hevc_keyframe", reached |= codec::h265::is_hevc_keyframe(d));
    call!("av1::obu_flags", {
        let b = d.first().copied().unwrap_or(c.num as u8);
        let _ = (codec::av1::obu_type(b), codec::av1::obu_has_extension(b), codec::av1::obu_has_size(b));
    });
    call!("av1::read_leb128", codec::av1::read_leb128(d));
    call!("av1::parse_obu_header", codec::av1::parse_obu_header(d));
    call!("av1::ObuIter", codec::av1::ObuIter::new(d).map(|(i, b)| i.total_size + b.len()).sum::<usize>());
    call!("av1::extract_av1_config", reached |= codec::av1::extract_av1_config(d).is_some());
    call!("av1::is_av1_keyframe", reached |= codec::av1::is_av1_keyframe(d));
    call!("vp9::is_vp9_keyframe", {
        match codec::vp9::is_vp9_keyframe(d) {
            Ok(k) => reached |= k,
            Err(e) => {
                let _ = format!("{} {:?}", e, e);
            }
        }
    });
    call!("vp9::extract_vp9_config", reached |= codec::vp9::extract_vp9_config(d).is_some());
    call!("vp9::is_valid_vp9_frame", codec::vp9::is_valid_vp9_frame(d));
    call!("opus::opus_frame_duration_from_toc", {
        if let Some(x) = codec::opus::opus_frame_duration_from_toc(c.num as u8) {
            let _ = (x.samples(), x.seconds());
        }
    });
    call!("api::codec_names_from_str", {
        // the FromStr impls of the codec enums (also behind the CLI's --video-codec / --audio-codec): any text, in particular
        // names whose multi-byte characters straddle the positions a prefix test would slice at
        let s = String::from_utf8_lossy(d);
        let tail: String = s.chars().take(6).collect();
        let _ = s.parse::<AudioCodec>().map_err(|e| format!("{}", e));
        let _ = s.parse::<VideoCodec>().map_err(|e| format!("{}", e));
        for pre in ["", "a", "aa", "aac", "aac-", "AAC-h", "op", "opus", "h", "h26", "h264", "av", "vp", "none"] {
            let t = format!("{}{}", pre, tail);
            let _ = t.parse::<AudioCodec>().map_err(|e| format!("{}", e));
            let _ = t.parse::<VideoCodec>().map_err(|e| format!("{}", e));
        }
        for ch in ['\u{e9}', '\u{2013}', '\u{65e5}', '\u{1f600}', '\u{ff0d}'] {
            for pre in ["", "a", "aa", "aac", "aac-", "aac-h", "h2", "vp9", "opu"] {
                let t = format!("{}{}{}", pre, ch, tail);
                let _ = t.parse::<AudioCodec>().map_err(|e| format!("{}", e));
                let _ = t.parse::<VideoCodec>().map_err(|e| format!("{}", e));
            }
        }
    });
    call!("api::display_with_format_specs", {
        // Display / Debug of the codec enums under every kind of format specification (width below, at and above the name's
        // length; fill and alignment; precision; sign-aware zero padding; alternate form)
        use muxide::api::AacProfile;
        let profiles = [AacProfile::Lc, AacProfile::Main, AacProfile::Ssr, AacProfile::Ltp, AacProfile::He, AacProfile::Hev2];
        let w = (c.num % 14) as usize;
        let pr = (c.from % 9) as usize;
        let mut all: Vec<String> = Vec::new();
        let mut show = |x: &dyn std::fmt::Display, dbg: &dyn std::fmt::Debug| {
            for w in [0usize, 1, 2, 3, 4, 5, 6, 7, 8, 9, 12, w] {
                all.push(format!("{:w$}|{:<w$}|{:>w$}|{:^w$}|{:*<w$}|{:#>w$.pr$}|{:0w$}|{:.pr$}|{:w$?}|{:#?}", x, x, x, x, x, x, x, x, dbg, dbg, w = w, pr = pr));
            }
        };
        for v in [VideoCodec::H264, VideoCodec::H265, VideoCodec::Av1, VideoCodec::Vp9] {
            show(&v, &v);
        }
        for p in profiles {
            show(&p, &p);
            let a = AudioCodec::Aac(p);
            show(&a, &a);
        }
        for a in [AudioCodec::Opus, AudioCodec::None] {
            show(&a, &a);
        }
    });
    call!("opus::opus_frame_count", codec::opus::opus_frame_count(d));
    call!("opus::opus_packet_samples", codec::opus::opus_packet_samples(d));
    call!("opus::is_valid_opus_packet", reached |= codec::opus::is_valid_opus_packet(d));
    call!("opus::OpusConfig", {
        let _ = codec::opus::OpusConfig::mono();
        let _ = codec::opus::OpusConfig::stereo().with_pre_skip(c.num as u16).with_channels(c.num as u8);
    });
    for (i, vc) in [VideoCodec::H264, VideoCodec::H265, VideoCodec::Av1, VideoCodec::Vp9].into_iter().enumerate() {
        let name = ["validation::validate_video_frame(h264)", "validation::validate_video_frame(h265)", "validation::validate_video_frame(av1)", "validation::validate_video_frame(vp9)"][i];
        call!(name, {
            let r = validation::validate_video_frame(vc, d, c.flag);
            let _ = format!("{:?}", r);
        });
    }
    for (i, ac) in [AudioCodec::Aac(muxide::api::AacProfile::Lc), AudioCodec::Opus, AudioCodec::None].into_iter().enumerate() {
        let name = ["validation::validate_audio_frame(aac)", "validation::validate_audio_frame(opus)", "validation::validate_audio_frame(none)"][i];
        call!(name, validation::validate_audio_frame(ac, d));
    }
    call!("validation::validate_video_config", validation::validate_video_config(vcodec(c.num as u8), c.num, c.from as u32, f64::from_bits(((c.num as u64) << 32) | c.from as u64)));
    call!("validation::validate_audio_config", validation::validate_audio_config(acodec((c.num % 9) as u8), c.num, c.from as u8));
    call!("validation::validate_muxing_config", {
        let v = validation::VideoValidationConfig {
            codec: if c.flag { Some(vcodec(c.num as u8)) } else { None },
            width: Some(c.num),
            height: if c.num % 3 == 0 { None } else { Some(c.from as u32) },
            framerate: Some(c.num as f64 / 7.0),
            sample_frame: Some((d.to_vec(), c.flag)),
        };
        let a = validation::AudioValidationConfig {
            codec: Some(acodec((c.num % 9) as u8)),
            sample_rate: if c.num % 5 == 0 { None } else { Some(c.num) },
            channels: Some(c.from as u8),
            sample_frame: Some(d.to_vec()),
        };
        let r = validation::validate_muxing_config(v, a);
        let _ = validation::ValidationResult::valid().with_message("m".into()).with_error("e".into());
        let _ = validation::ValidationResult::invalid(r.errors.clone());
    });
    call!("invariant_ppt::log", {
        muxide::invariant_ppt::clear_invariant_log();
        let _ = muxide::invariant_ppt::get_logged_invariants();
    });
    call!("api::FromStr/Display", {
        let s = String::from_utf8_lossy(d).to_string();
        let _ = s.parse::<VideoCodec>().map(|v| format!("{} {:?}", v, v));
        let _ = s.parse::<AudioCodec>().map(|v| format!("{} {:?}", v, v));
        for k in 0..9u8 {
            let _ = format!("{} {}", acodec(k), vcodec(k));
        }
        let m = MuxerConfig::new(c.num, c.from as u32, c.num as f64).with_audio(acodec((c.num % 9) as u8), c.num, c.from as u16).with_fast_start(c.flag);
        let _ = format!("{:?}", m.with_metadata(muxide::api::Metadata::new().with_title(s).with_current_time()));
    });
    o.nontrivial = reached;
    o
}

pub fn eval_parsers(c: &ParserCase) -> Outcome {
    with_deadline(c, eval_parsers_inner, "parsers")
}

fn valid_frame_bytes() -> impl Strategy<Value = Vec<u8>> {
    // valid frames of every codec from the C04 builders, the AV1 header writer and the audio builders
    prop_oneof![
        4 => (0u8..4, prop_oneof![Just(VKind::KeyCfg), Just(VKind::KeyNoCfg), Just(VKind::Delta)], 1u16..80, any::<u8>())
            .prop_map(|(codec, kind, size, shape)| vframe(codec, &VF { kind, size, shape }, 1).0),
        3 => crate::scenario::av1_seq_strategy().prop_map(|s| {
            let mut v = obu(2, false, 0, true, 0, &[]);
            v.extend_from_slice(&obu(1, false, 0, true, 0, &s.payload()));
            v.extend_from_slice(&obu(6, false, 0, true, 0, &[0x10, 0x20, 0x30]));
            v
        }),
        2 => crate::scenario::vp9_key_strategy().prop_map(|k| k.build(3).0),
        2 => (any::<bool>(), 0u8..4, 0u8..13, 0u8..8, 0u16..60, 0u8..10).prop_map(|(pa, profile, sfi, chan, len, corrupt)| {
            AdtsGene { protection_absent: pa, profile, sfi, chan, payload_len: len, extra: 0, fill: corrupt, corrupt, misc: 0 }.build(5).0
        }),
        1 => (any::<u8>(), any::<bool>(), 0u8..4, any::<u8>(), 0u16..40, 0u8..4)
            .prop_map(|(config, stereo, code, count_byte, len, corrupt)| OpusGene { config, stereo, code, count_byte, len, corrupt }.build(9).0),
    ]
}

fn parser_strategy(t: Tier) -> BoxedStrategy<ParserCase> {
    let max = if t == Tier::Quick { 300 } else { 4096 };
    let data = prop_oneof![
        3 => vec(any::<u8>(), 0..max),
        3 => vec(prop_oneof![5 => Just(0u8), 2 => Just(1u8), 1 => Just(3u8), 2 => any::<u8>()], 0..max),
        3 => valid_frame_bytes(),
        // truncations and bit flips of valid frames
        5 => (valid_frame_bytes(), any::<u16>(), any::<u16>(), 0u8..3).prop_map(|(mut v, cut, flip, mode)| {
            if !v.is_empty() {
                match mode {
                    0 => v.truncate((cut as usize) % (v.len() + 1)),
                    1 => {
                        let i = (flip as usize) % (v.len() * 8);
                        v[i / 8] ^= 1 << (i % 8);
                    }
                    _ => {
                        let i = (flip as usize) % (v.len() * 8);
                        v[i / 8] ^= 1 << (i % 8);
                        v.truncate((cut as usize) % (v.len() + 1));
                    }
                }
            }
            v
        }),
        // a valid AV1 temporal unit whose sequence header starts with an arbitrary byte (seq_profile 0..7 etc.)
        1 => (any::<u8>(), vec(any::<u8>(), 0..12)).prop_map(|(b, rest)| {
            let mut p = vec![b];
            p.extend_from_slice(&rest);
            obu(1, false, 0, true, 0, &p)
        }),
        // inputs beyond 64 KiB (16-bit counters, many units)
        1 => (any::<u64>(), 65_000usize..70_000, 0u8..3).prop_map(|(seed, n, mode)| {
            // expanded from a seed (generating 65 000 elements one by one through proptest is slow)
            let mut x = seed | 1;
            (0..n)
                .map(|_| {
                    x ^= x << 13;
                    x ^= x >> 7;
                    x ^= x << 17;
                    let r = (x >> 32) as u8;
                    match mode {
                        0 => r,
                        1 => [0, 0, 0, 0, 0, 1, 1, 3, r, r][(x >> 40) as usize % 10],
                        _ => [0, 0, 1, r][(x >> 40) as usize % 4],
                    }
                })
                .collect::<Vec<u8>>()
        }),
        // leb128 / length fields at their extremes behind every OBU type: 0xFF.. runs of 1..10 bytes, then a terminator
        1 => (0u8..16, any::<bool>(), 1usize..11, prop_oneof![Just(0x7fu8), Just(0x01u8), Just(0x00u8), Just(0x80u8)], vec(any::<u8>(), 0..40)).prop_map(|(typ, ext, n, term, rest)| {
            let mut v = vec![(typ << 3) | ((ext as u8) << 2) | 2];
            if ext {
                v.push(0x28);
            }
            v.extend(std::iter::repeat(0xffu8).take(n));
            v.push(term);
            v.extend_from_slice(&rest);
            v
        }),
    ];
    (data, prop_oneof![0usize..10, any::<usize>()], any::<bool>(), any::<u32>()).prop_map(|(data, from, flag, num)| ParserCase { data, from, flag, num }).boxed()
}

pub fn parser_case_strategy_for_seeds() -> BoxedStrategy<ParserCase> {
    parser_strategy(Tier::Quick)
}

// ------------------------------------------------------------------------------------------
// (b) progressive API with raw values

#[derive(Clone, Debug, Serialize, Deserialize, PartialEq, Eq, Hash)]
pub enum XData {
    Valid(VF),
    Bytes(Vec<u8>),
    Audio(u8, u16, u8),
}

#[derive(Clone, Debug, Serialize, Deserialize, PartialEq, Eq, Hash)]
pub struct XOp {
    pub kind: u8,
    pub a_bits: u64,
    pub b_bits: u64,
    pub data: XData,
    pub flag: bool,
    pub num: u32,
}

#[derive(Clone, Debug, Serialize, Deserialize, PartialEq, Eq, Hash)]
pub struct ApiCase {
    pub codec: u8,
    pub video: bool,
    pub width: u32,
    pub height: u32,
    pub fps_bits: u64,
    pub audio: u8,
    pub rate: u32,
    pub channels: u16,
    pub fast_start: Option<bool>,
    pub title: Option<String>,
    pub ctime: Option<u64>,
    pub lang: Option<String>,
    pub alias: bool,
    pub ops: Vec<XOp>,
}

fn ts_from_bits(bits: u64, prev: f64, i: usize) -> f64 {
    // half of the time a plausible increasing timestamp, otherwise the raw bit pattern
    match bits % 4 {
        0 => f64::from_bits(bits),
        1 => prev + (bits >> 8) as f64 / 1e9,
        2 => i as f64 / 30.0,
        _ => (bits >> 2) as f64 / 90000.0,
    }
}

pub fn eval_api_inner(c: &ApiCase) -> Outcome {
    let mut o = Outcome::default();
    let cfg = CCfg {
        codec: c.codec % 4,
        video: c.video,
        audio: c.audio % 9,
        sample_rate: c.rate,
        channels: c.channels,
        width: c.width,
        height: c.height,
        fps: f64::from_bits(c.fps_bits),
        fast_start: c.fast_start,
        title: c.title.clone(),
        ctime: c.ctime,
        lang: c.lang.clone(),
        empty_metadata: c.alias,
        alias_builder: c.alias,
        reconfig: 0,
        misalign: 0,
    };
    let mut ops = Vec::new();
    let mut prev = 0.0f64;
    for (i, x) in c.ops.iter().enumerate() {
        let data = match &x.data {
            XData::Valid(vf) => vframe(cfg.codec, vf, i as u64).0,
            XData::Bytes(b) => b.clone(),
            XData::Audio(shape, size, corrupt) => {
                if cfg.audio == 7 {
                    OpusGene { config: shape >> 3, stereo: shape & 4 != 0, code: shape & 3, count_byte: *corrupt, len: *size, corrupt: corrupt % 4 }.build(i as u64).0
                } else {
                    AdtsGene { protection_absent: shape & 1 != 0, profile: (shape >> 1) & 3, sfi: shape >> 4, chan: shape >> 5, payload_len: *size, extra: corrupt & 3, fill: *corrupt, corrupt: corrupt % 11 , misc: 0}
                        .build(i as u64)
                        .0
                }
            }
        };
        let a = ts_from_bits(x.a_bits, prev, i);
        let b = ts_from_bits(x.b_bits, prev, i);
        if a.is_finite() && a >= 0.0 && a < 1e12 {
            prev = prev.max(a);
        }
        ops.push(match x.kind % 9 {
            0 | 1 => COp::Video { pts: a, data, key: x.flag },
            2 => COp::VideoDts { pts: a, dts: b, data, key: x.flag },
            3 | 4 => COp::Audio { pts: a, data },
            5 => COp::EncVideo { data, ms: x.num },
            6 => COp::EncAudio { data, samples: x.num },
            _ => COp::Finish(FinishKind::from_idx(x.num as u8)),
        });
    }
    ops.push(COp::Finish(FinishKind::InPlaceStats));
    let run = run_history(&cfg, &ops);
    if let CallResult::Panic(p) = &run.build {
        o.fail("no_panic", format!("no_panic:build:{}", p), format!("MuxerBuilder::build panicked: {}", p));
        return o;
    }
    for (i, r) in run.results.iter().enumerate() {
        if let CallResult::Panic(p) = r {
            let ep = match &ops[i] {
                COp::Video { .. } => "write_video",
                COp::VideoDts { .. } => "write_video_with_dts",
                COp::Audio { .. } => "write_audio",
                COp::EncVideo { .. } => "encode_video",
                COp::EncAudio { .. } => "encode_audio",
                COp::Finish(_) => "finish",
            };
            o.fail("no_panic", format!("no_panic:{}:{}", ep, p), format!("call {} ({}) panicked: {}", i, ep, p));
            break;
        }
    }
    if o.violations.is_empty() {
        if let Some(p) = &run.panic {
            o.fail("no_panic", format!("no_panic:drop:{}", p), format!("panic outside a call: {}", p));
        }
    }
    let oks = run.results.iter().filter(|r| r.is_ok()).count();
    o.nontrivial = oks >= 2;
    if run.finished_at.is_some() {
        o.class("finished_ok");
    }
    o
}

pub fn eval_api(c: &ApiCase) -> Outcome {
    with_deadline(c, eval_api_inner, "progressive_api")
}

fn xop_strategy() -> impl Strategy<Value = XOp> {
    (
        0u8..9,
        prop_oneof![3 => any::<u64>(), 1 => Just(f64::NAN.to_bits()), 1 => Just(f64::INFINITY.to_bits()), 1 => Just((-0.0f64).to_bits()), 1 => Just(f64::MAX.to_bits()), 1 => Just(1e300f64.to_bits()), 1 => Just(5e-324f64.to_bits())],
        any::<u64>(),
        prop_oneof![
            6 => (prop_oneof![Just(VKind::Empty), Just(VKind::KeyCfg), Just(VKind::KeyCfg), Just(VKind::KeyNoCfg), Just(VKind::Delta), Just(VKind::Garbage)], 0u16..100, any::<u8>())
                .prop_map(|(kind, size, shape)| XData::Valid(VF { kind, size, shape })),
            3 => vec(prop_oneof![3 => Just(0u8), 1 => Just(1u8), 3 => any::<u8>()], 0..60).prop_map(XData::Bytes),
            4 => (any::<u8>(), 0u16..100, any::<u8>()).prop_map(|(a, b, c)| XData::Audio(a, b, c)),
        ],
        any::<bool>(),
        prop_oneof![3 => 0u32..5000, 1 => any::<u32>()],
    )
        .prop_map(|(kind, a_bits, b_bits, data, flag, num)| XOp { kind, a_bits, b_bits, data, flag, num })
}

fn api_strategy(t: Tier) -> BoxedStrategy<ApiCase> {
    let n = if t == Tier::Quick { 16 } else { 40 };
    (
        (0u8..4, prop::bool::weighted(0.95), prop_oneof![3 => 1u32..5000, 1 => any::<u32>(), 1 => 65530u32..65540], prop_oneof![3 => 1u32..3000, 1 => any::<u32>(), 1 => 65530u32..65540], any::<u64>()),
        (0u8..9, prop_oneof![3 => Just(48000u32), 1 => Just(0u32), 2 => any::<u32>()], prop_oneof![3 => 1u16..9, 1 => any::<u16>()]),
        proptest::option::of(any::<bool>()),
        proptest::option::weighted(0.3, any::<String>()),
        proptest::option::weighted(0.3, prop_oneof![1 => any::<u64>(), 1 => Just(u64::MAX), 1 => 0u64..4_000_000_000]),
        proptest::option::weighted(0.3, any::<String>()),
        any::<bool>(),
        vec(xop_strategy(), 0..n),
        any::<bool>(),
    )
        .prop_map(|((codec, video, width, height, fps_bits), (audio, rate, channels), fast_start, title, ctime, lang, alias, mut ops, lead)| {
            if lead {
                ops.insert(0, XOp { kind: 0, a_bits: 2, b_bits: 2, data: XData::Valid(VF { kind: VKind::KeyCfg, size: 20, shape: 1 }), flag: true, num: 33 });
            }
            ApiCase { codec, video, width, height, fps_bits, audio, rate, channels, fast_start, title, ctime, lang, alias, ops }
        })
        .boxed()
}

// ------------------------------------------------------------------------------------------
// (c) fragmented API with raw values

#[derive(Clone, Debug, Serialize, Deserialize, PartialEq, Eq, Hash)]
pub struct FragRaw {
    pub codec: u8,
    pub width: u32,
    pub height: u32,
    pub timescale: u32,
    pub frag_ms: u32,
    pub sps: Vec<u8>,
    pub pps: Vec<u8>,
    pub vps: Option<Vec<u8>>,
    pub av1: Option<Vec<u8>>,
    pub vp9: Option<Vp9Lite>,
    pub via_builder: bool,
    /// (kind, pts, dts, size, sync)
    pub ops: Vec<(u8, u64, u64, u16, bool)>,
}

pub fn eval_frag_inner(c: &FragRaw) -> Outcome {
    use muxide::fragmented::{FragmentConfig, FragmentedMuxer};
    let mut o = Outcome::default();
    let built = guarded(|| {
        if c.via_builder {
            let f = FCfg {
                codec: c.codec % 4,
                width: c.width,
                height: c.height,
                sps: c.sps.clone(),
                pps: c.pps.clone(),
                vps: c.vps.clone().unwrap_or_default(),
                av1: c.av1.clone().unwrap_or_default(),
                vp9: c.vp9.clone().unwrap_or(Vp9Lite { width: 0, height: 0, profile: 0, bit_depth: 0, color_space: 0, transfer_function: 0, matrix_coefficients: 0, level: 0, full_range_flag: 0 }),
                via_builder: true,
                timescale: 90000,
                frag_ms: 2000,
                stray: (c.frag_ms % 16) as u8,
            };
            match build_frag(&f) {
                Ok(Ok(m)) => Some(m),
                Ok(Err(_)) => None,
                Err(p) => std::panic::panic_any(p),
            }
        } else {
            let _ = format!("{:?}", FragmentConfig::default());
            Some(FragmentedMuxer::new(FragmentConfig {
                width: c.width,
                height: c.height,
                timescale: c.timescale,
                fragment_duration_ms: c.frag_ms,
                sps: c.sps.clone(),
                pps: c.pps.clone(),
                vps: c.vps.clone(),
                av1_sequence_header: c.av1.clone(),
                vp9_config: c.vp9.as_ref().map(|v| v.to_cfg()),
            }))
        }
    });
    let mut m = match built {
        Ok(Some(m)) => m,
        Ok(None) => return o,
        Err(p) => {
            o.fail("no_panic", format!("no_panic:fragmented::new:{}", p), format!("constructing the fragmented muxer panicked: {}", p));
            return o;
        }
    };
    let mut oks = 0;
    for (i, (kind, pts, dts, size, sync)) in c.ops.iter().enumerate() {
        let (name, r): (&str, Result<(), String>) = match kind % 6 {
            0 | 1 => {
                let data = filler(*size as usize, i as u64, 0);
                (
                    "fragmented::write_video",
                    guarded(|| {
                        if let Err(e) = m.write_video(*pts, *dts, &data, *sync) {
                            let _ = format!("{} {:?}", e, e);
                        }
                    }),
                )
            }
            2 => (
                "fragmented::flush_segment",
                guarded(|| {
                    let _ = m.flush_segment();
                }),
            ),
            3 => (
                "fragmented::ready_to_flush",
                guarded(|| {
                    let _ = m.ready_to_flush();
                }),
            ),
            4 => (
                "fragmented::current_fragment_duration_ms",
                guarded(|| {
                    let _ = m.current_fragment_duration_ms();
                }),
            ),
            _ => (
                "fragmented::init_segment",
                guarded(|| {
                    let _ = m.init_segment();
                }),
            ),
        };
        match r {
            Ok(()) => oks += 1,
            Err(p) => {
                o.fail("no_panic", format!("no_panic:{}:{}", name, p), format!("op {} ({}) panicked: {}", i, name, p));
                break;
            }
        }
    }
    if o.violations.is_empty() {
        note_panic(&mut o, "fragmented::debug/drop", guarded(|| {
            let _ = format!("{:?}", m).len();
            drop(m);
        }));
    }
    o.nontrivial = oks >= 3;
    o
}

pub fn eval_frag(c: &FragRaw) -> Outcome {
    with_deadline(c, eval_frag_inner, "fragmented_api")
}

fn u64_extreme() -> impl Strategy<Value = u64> {
    prop_oneof![
        4 => 0u64..1_000_000,
        2 => any::<u64>(),
        1 => Just(u64::MAX),
        1 => Just(u64::MAX - 1),
        1 => Just(1u64 << 63),
        1 => (1u64 << 32) - 2..(1u64 << 32) + 2,
        1 => Just(u64::MAX / 1000 + 1),
    ]
}

fn frag_strategy(t: Tier) -> BoxedStrategy<FragRaw> {
    let n = if t == Tier::Quick { 20 } else { 60 };
    let bytes = || prop_oneof![3 => vec(any::<u8>(), 0..20), 1 => Just(vec![])];
    (
        (0u8..4, prop_oneof![3 => 1u32..5000, 1 => any::<u32>()], prop_oneof![3 => 1u32..3000, 1 => any::<u32>()]),
        prop_oneof![3 => Just(90000u32), 1 => Just(0u32), 1 => Just(1u32), 1 => any::<u32>()],
        prop_oneof![3 => Just(2000u32), 1 => Just(0u32), 1 => any::<u32>()],
        bytes(),
        bytes(),
        proptest::option::weighted(0.3, bytes()),
        proptest::option::weighted(0.3, prop_oneof![1 => bytes(), 1 => crate::scenario::av1_seq_strategy().prop_map(|s| obu(1, false, 0, true, 0, &s.payload()))]),
        proptest::option::weighted(0.3, (any::<u32>(), any::<u32>(), any::<u8>(), any::<u8>(), any::<u8>(), any::<u8>()).prop_map(|(w, h, a, b, c2, d)| Vp9Lite {
            width: w,
            height: h,
            profile: a,
            bit_depth: b,
            color_space: c2,
            transfer_function: d,
            matrix_coefficients: a ^ b,
            level: c2 ^ d,
            full_range_flag: a.wrapping_add(d),
        })),
        any::<bool>(),
        vec((0u8..6, u64_extreme(), u64_extreme(), 0u16..50, any::<bool>()), 0..n),
    )
        .prop_map(|((codec, width, height), timescale, frag_ms, sps, pps, vps, av1, vp9, via_builder, mut ops)| {
            // most sequences should make progress: sort the dts of half of the cases
            if codec % 2 == 0 {
                let mut d: Vec<u64> = ops.iter().map(|o| o.2).collect();
                d.sort();
                for (o, x) in ops.iter_mut().zip(d) {
                    o.2 = x;
                }
            }
            FragRaw { codec, width, height, timescale, frag_ms, sps, pps, vps, av1, vp9, via_builder, ops }
        })
        .boxed()
}

// ------------------------------------------------------------------------------------------
// (d) the boundary-directed generators of the other properties, judged for panics only

fn panics_only(prop: &str, inner: Outcome) -> Outcome {
    let mut o = Outcome::default();
    o.nontrivial = inner.nontrivial;
    o.sub_evals = inner.sub_evals;
    if let Some(p) = inner.aborted_by_panic {
        o.fail("no_panic", format!("no_panic:via_{}:{}", prop, p), format!("a public entry point panicked on a case of {}'s generator: {}", prop, p));
    }
    o
}
fn ev_c16_fields(c: &crate::props::c16::FieldCase) -> Outcome {
    panics_only("C16.fields", crate::props::c16::eval_fields(c))
}
fn ev_c16_fragnum(c: &crate::props::c16::FragNum) -> Outcome {
    panics_only("C16.fragmented", crate::props::c16::eval_fragnum(c))
}
fn ev_c16_timeline(c: &crate::scenario::ValidCase) -> Outcome {
    panics_only("C16.timeline", crate::props::c16::eval_timeline(c))
}
fn ev_c07_key(c: &crate::props::c07::KeyCase) -> Outcome {
    panics_only("C07.key", crate::props::c07::eval_key(c))
}
fn ev_c07_init(c: &crate::props::c07::InitCase) -> Outcome {
    panics_only("C07.init", crate::props::c07::eval_init(c))
}
fn ev_c18_meta(c: &crate::props::c18::MetaCase) -> Outcome {
    panics_only("C18.metadata", crate::props::c18::eval_meta(c))
}
fn ev_c04_contract(c: &crate::contract::RawCase) -> Outcome {
    panics_only("C04.contract", crate::props::c04::eval(c))
}
fn s_c04_contract(t: Tier) -> BoxedStrategy<crate::contract::RawCase> {
    use proptest::strategy::Strategy;
    crate::contract::raw_case_strategy(if t == Tier::Quick { 30 } else { 40 }, 1).boxed()
}
fn ev_after_failure(c: &crate::scenario::ValidCase) -> Outcome {
    // a muxer with a healthy sink must not panic because ANOTHER muxer's sink failed or panicked earlier on the thread
    panics_only("C17.after_a_failed_muxer", crate::props::c17::eval_after_failure(c))
}
fn ev_long(c: &crate::scenario::ValidCase) -> Outcome {
    panics_only("long_recordings", crate::props::c01::eval(c))
}
fn ev_limit(c: &crate::props::c16::LimitCase) -> Outcome {
    panics_only("C16.four_gib_limit", crate::props::c16::eval_limit(c))
}
fn limit_cases(t: Tier) -> Vec<crate::props::c16::LimitCase> {
    // the quick tier takes the fast-start case only (one ~9 GiB history); audio configured, offsets crossing 2^32
    let mut v: Vec<_> = crate::props::c16::limit_cases(t).into_iter().filter(|c| t == Tier::Thorough || c.fast_start).collect();
    // audio configured but never written, payload a few hundred bytes below the limit
    v.push(crate::props::c16::LimitCase { fast_start: true, audio: true, below: 700, small_tail: false });
    v
}
fn s_key_any(t: Tier) -> BoxedStrategy<crate::props::c07::KeyCase> {
    prop_oneof![crate::props::c07::s_h264(t), crate::props::c07::s_h265(t), crate::props::c07::s_av1(t), crate::props::c07::s_vp9(t)].boxed()
}

pub fn def() -> PropertyDef {
    PropertyDef {
        fuzz_targets: &["c12_bytes", "c12_api", "c12_frag"],
        id: "C12",
        level: "exploration",
        rule: "built with overflow checks and debug assertions; every call runs under a panic hook on a worker thread with a 10 s deadline (confirmed by a \
               60 s re-run). (a) byte strings (random, 00/01-biased, valid frames of all codecs from the generators, their truncations and bit flips, AV1 \
               sequence headers with arbitrary first bytes) -> every public function of codec::{common,h264,h265,av1,vp9,opus}, validation::*, FromStr/Display; \
               (b) progressive API histories with raw u32/u16 dims, rates, channels, arbitrary f64 bit patterns for fps and timestamps, arbitrary metadata \
               strings / u64 times, arbitrary and valid frame bytes, every finish form, every error formatted with Display/Debug/to_json; (c) fragmented API \
               with raw FragmentConfig fields (timescale 0, empty sets) and u64 extremes for pts/dts. Non-trivial = some call got past the first validation \
               (parser returned Some/true; >= 2 accepted API calls; >= 3 fragmented ops)",
        assumptions: &[
            "invariant_ppt::contract_test and the assert_invariant! macro are documented to panic and are not counted as entry points",
            "a release build with overflow checks behaves like the user's build apart from those checks",
        ],
        subs: vec![
            Box::new(PSub { name: "parsers", quick: 40000, thorough: 1500000, strat: parser_strategy, eval: eval_parsers }),
            Box::new(PSub { name: "progressive_api", quick: 12000, thorough: 600000, strat: api_strategy, eval: eval_api }),
            Box::new(PSub { name: "fragmented_api", quick: 12000, thorough: 600000, strat: frag_strategy, eval: eval_frag }),
            // boundary-directed generators borrowed from C16 / C07 (values straddling 2^8 / 2^16 / 2^31 / 2^32, parameter sets up to
            // 65 535 bytes, every AV1 header branch) and the long / large recordings: judged here for panics and overflow only
            Box::new(PSub { name: "borrowed_c16_fields", quick: 6000, thorough: 150000, strat: crate::props::c16::fields_strategy, eval: ev_c16_fields }),
            Box::new(PSub { name: "borrowed_c16_fragmented", quick: 6000, thorough: 150000, strat: crate::props::c16::fragnum_strategy, eval: ev_c16_fragnum }),
            Box::new(PSub { name: "borrowed_c16_timeline", quick: 6000, thorough: 150000, strat: crate::props::c16::timeline_strategy, eval: ev_c16_timeline }),
            Box::new(PSub { name: "borrowed_c07_keyframes", quick: 12000, thorough: 400000, strat: s_key_any, eval: ev_c07_key }),
            Box::new(PSub { name: "borrowed_c07_init", quick: 6000, thorough: 150000, strat: crate::props::c07::s_init, eval: ev_c07_init }),
            Box::new(PSub { name: "borrowed_c18_metadata", quick: 6000, thorough: 150000, strat: crate::props::c18::meta_strategy, eval: ev_c18_meta }),
            Box::new(PSub { name: "borrowed_c04_contract", quick: 40000, thorough: 1000000, strat: s_c04_contract, eval: ev_c04_contract }),
            Box::new(LSub { name: "borrowed_c17_after_failure", cases: crate::props::c17::after_failure_cases, eval: ev_after_failure, note: "C17's after_a_failed_muxer cases (sink failing or panicking at every write call, then further recordings on the thread), judged for panics of the later, healthy muxers only" }),
            Box::new(LSub { name: "long_recordings", cases: crate::scenario::long_cases_all, eval: ev_long, note: crate::scenario::LONG_NOTE }),
            Box::new(LSub { name: "four_gib_limit", cases: limit_cases, eval: ev_limit, note: "C16's four_gib_limit cases (payload ending just below 2^32 bytes), judged for panics and overflow only" }),
        ],
    }
}
