//! C11 — fragmented segments carry a consistent timeline and a stable init segment.

use crate::engine::*;
use crate::fragcase::*;
use proptest::strategy::Strategy;

pub fn eval(c: &FragCase) -> Outcome {
    let mut o = Outcome::default();
    // C11 quantifies over non-decreasing DTS sequences: drop the deliberate decreases
    let mut c = c.clone();
    for g in c.ops.iter_mut() {
        if let FGene::Write { back, .. } = g {
            *back = None;
        }
    }
    let l = lower(&c);
    let mut scratch = Outcome::default();
    let t = run_and_check(&mut scratch, &l, false);
    if let Some(p) = &t.panic {
        o.aborted_by_panic = Some(p.clone());
        return o;
    }
    let mut prev: Option<(u64, u64, Vec<u64>)> = None; // (tfdt, sum of first n-1 durations, dts list) of the previous segment
    let mut origins: Vec<i128> = Vec::new();
    let mut all_ge2 = true;
    for (k, e) in t.emitted.iter().enumerate() {
        let s = match &e.parsed {
            Ok(s) => s,
            Err(err) if ["trun", "tfdt", "tfhd"].iter().any(|b| err.contains(b)) => {
                // the boxes that carry the timeline cannot be decoded: no decode-time deltas, offsets or flags for this segment
                let which = ["trun", "tfdt", "tfhd"].iter().find(|b| err.contains(**b)).unwrap();
                o.fail("readable", format!("readable.{}", which), format!("segment {}: {} (the segment carries no usable timeline)", k, err));
                return o;
            }
            Err(_) => {
                o.class("unparseable_not_judged(C02)");
                return o;
            }
        };
        if s.samples.len() != e.expect.len() {
            // C10's finding as well; for the timeline it means that some submitted decode-time difference / composition offset /
            // sync flag has no entry in the segment (or an entry belongs to no submitted sample)
            o.class("count_mismatch(also C10)");
            o.fail("in_seg_delta", "in_seg_delta.sample_count", format!("segment {} describes {} samples, {} were submitted for it: their decode-time differences cannot all be in the run", k, s.samples.len(), e.expect.len()));
            return o;
        }
        let n = s.samples.len();
        if n < 2 {
            all_ge2 = false;
        }
        for i in 0..n {
            if i + 1 < n {
                let want = e.expect[i + 1].dts - e.expect[i].dts;
                if want <= u32::MAX as u64 && s.samples[i].duration as u64 != want {
                    o.fail(
                        "in_seg_delta",
                        "in_seg_delta",
                        format!("segment {} sample {}: duration {} but submitted decode times differ by {}", k, i, s.samples[i].duration, want),
                    );
                    return o;
                }
            }
            let want_cts = e.expect[i].pts as i128 - e.expect[i].dts as i128;
            if want_cts >= i32::MIN as i128 && want_cts <= i32::MAX as i128 && s.samples[i].cts as i128 != want_cts {
                o.fail(
                    "cts",
                    format!("cts{}", if want_cts < 0 { ".negative" } else { "" }),
                    format!("segment {} sample {}: composition offset {} (trun v{}) but pts-dts = {}", k, i, s.samples[i].cts, s.trun_version, want_cts),
                );
                return o;
            }
            let non_sync = s.samples[i].flags & 0x0001_0000 != 0;
            if non_sync == e.expect[i].sync {
                o.fail("nonsync", "nonsync", format!("segment {} sample {}: non-sync flag {} with submitted sync {}", k, i, non_sync, e.expect[i].sync));
                return o;
            }
        }
        let first_dts = e.expect[0].dts;
        let partial: u64 = s.samples.iter().take(n.saturating_sub(1)).map(|x| x.duration as u64).sum();
        if let Some((ptfdt, ppartial, _)) = &prev {
            if s.base_decode_time < *ptfdt {
                o.fail(
                    "monotone_base",
                    "monotone_base",
                    format!("segment {}: base decode time {} is lower than the previous segment's {}", k, s.base_decode_time, ptfdt),
                );
            } else if s.base_decode_time < ptfdt + ppartial {
                o.fail(
                    "no_overlap",
                    "no_overlap",
                    format!(
                        "segment {}: base decode time {} is earlier than the decode time {} of the previous segment's last sample",
                        k,
                        s.base_decode_time,
                        ptfdt + ppartial
                    ),
                );
            }
        }
        origins.push(first_dts as i128 - s.base_decode_time as i128);
        prev = Some((s.base_decode_time, partial, e.expect.iter().map(|x| x.dts).collect()));
    }
    // constant origin: claimed for constant-interval input when every segment holds >= 2 samples
    let constant_input = c.const_interval.is_some();
    if constant_input && all_ge2 && origins.len() >= 2 {
        if origins.iter().any(|x| *x != origins[0]) {
            let first_nonzero = t.emitted[0].expect[0].dts != 0;
            o.fail(
                "constant_origin",
                format!("constant_origin{}", if first_nonzero { ".nonzero_start" } else { "" }),
                format!("first-sample DTS minus base decode time per segment: {:?} (must be one constant)", &origins[..origins.len().min(6)]),
            );
        }
    }
    // init stability
    if t.inits.len() >= 2 && t.inits.iter().any(|x| x != &t.inits[0]) {
        o.fail("init_stable", "init_stable", "init_segment() returned different bytes at different times");
    }
    // ... also across muxers: one that is asked before anything is written, one that is asked only at the very end
    if o.violations.is_empty() {
        let mut early = c.clone();
        early.ops.insert(0, FGene::Init);
        let mut late = c.clone();
        late.ops.retain(|g| !matches!(g, FGene::Init));
        late.ops.push(FGene::Init);
        let mut s1 = Outcome::default();
        let mut s2 = Outcome::default();
        let te = run_and_check(&mut s1, &lower(&early), false);
        let tl = run_and_check(&mut s2, &lower(&late), false);
        o.sub_evals += 2;
        if te.panic.is_none() && tl.panic.is_none() {
            if let (Some(a), Some(b)) = (te.inits.first(), tl.inits.last()) {
                if a != b {
                    o.fail("init_stable", "init_stable.early_vs_late_request", "a muxer asked for its init segment before the first write and one asked only after the last write return different bytes for the same configuration and history");
                }
            }
        }
    }
    let irregular = !constant_input;
    let start_nz = t.emitted.first().map(|e| e.expect[0].dts != 0).unwrap_or(false);
    o.nontrivial = t.emitted.len() >= 3 && (start_nz || irregular);
    if constant_input && all_ge2 && t.emitted.len() >= 2 {
        o.class("constant_origin_judged");
    }
    if start_nz {
        o.class("start_nonzero");
    }
    if irregular {
        o.class("irregular_spacing");
    }
    if t.emitted.iter().any(|e| e.expect.len() == 1) {
        o.class("single_sample_segment");
    }
    if t.emitted.iter().any(|e| e.expect.iter().any(|s| s.pts < s.dts)) {
        o.class("negative_cts");
    }
    if t.emitted.iter().any(|e| e.expect.windows(2).any(|w| w[0].dts == w[1].dts)) {
        o.class("equal_dts");
    }
    if t.inits.len() >= 2 {
        o.class("init_requested_repeatedly");
    }
    o
}

fn strat(t: Tier) -> proptest::strategy::BoxedStrategy<FragCase> {
    match t {
        Tier::Quick => frag_case_strategy(40).boxed(),
        Tier::Thorough => proptest::prop_oneof![9 => frag_case_strategy(60), 1 => frag_case_strategy(600)].boxed(),
    }
}

fn run_long_frag(ctx: &Ctx) -> SubReport {
    let mk = |shard: usize, shards: usize| crate::fragcase::long_cases().into_iter().enumerate().filter(move |(i, _)| i % shards.min(6) == shard && shard < 6).map(|(_, c)| c);
    let mut r = run_enumerated(ctx, "long_sequences", &mk, &eval);
    r.exhaustive = false;
    r.notes.push("fixed list: 70 000- and 140 000-sample segments, 400 two-sample segments with empty flushes, a 66 MiB fragment between ordinary ones, 8 MiB+1 / 3 MiB / 1 MiB+1 / empty samples, 255/256/257/65 536 samples per segment".into());
    r
}
fn replay_long_frag(v: &serde_json::Value) -> Result<Outcome, String> {
    let c: crate::fragcase::FragCase = serde_json::from_value(v.clone()).map_err(|e| e.to_string())?;
    Ok(eval(&c))
}

pub fn def() -> PropertyDef {
    PropertyDef {
        fuzz_targets: &["c10_frag"],
        id: "C11",
        level: "exploration",
        rule: "non-decreasing DTS sequences (constant and variable spacing, non-zero start, equal DTS), PTS = DTS + signed offsets, random flush \
               points including single-sample segments, init_segment requested at random times; tfdt/trun of every segment are compared with the \
               submitted timeline (in-segment deltas, signed composition offsets, non-sync flags, base decode time monotone / non-overlapping, \
               constant origin for constant-interval input with >=2 samples per segment, init byte-stability); non-trivial = >=3 segments and \
               (first DTS != 0 or irregular spacing)",
        assumptions: &["gaps below 2^31 ticks and |pts-dts| below 2^31 (beyond: C16)"],
        subs: vec![
            Box::new(PSub { name: "timeline", quick: 40000, thorough: 1200000, strat, eval } ),
            Box::new(ESub { name: "long_sequences", run: run_long_frag, replay: replay_long_frag }),
        ],
    }
}
