//! C13 — sink failures and partial writes never corrupt, duplicate or hide data (fault enumeration).

use crate::engine::*;
use crate::exec::{run_history, run_history_on, COp, CallResult, FinishKind, SinkState};
use crate::faultsink::*;
use crate::scenario::*;
use proptest::collection::vec;
use proptest::prelude::*;
use serde::{Deserialize, Serialize};

#[derive(Clone, Debug, Serialize, Deserialize, PartialEq, Eq, Hash)]
pub struct FaultCase {
    pub base: ValidCase,
    /// random short-write / Interrupted schedules (finitely many interruptions each), optional terminal failure
    pub schedules: Vec<(Vec<u8>, Option<(u16, u8)>)>,
    /// Some(script): run only this script (used by replays of shrunk failures)
    pub only: Option<Script>,
    /// enumerate every call index and byte offset
    pub exhaustive: bool,
    /// enumerate every write call (all failure kinds, sticky and transient), no byte offsets: for files too large for
    /// `exhaustive` whose interesting points are call boundaries
    #[serde(default)]
    pub every_call: bool,
}

struct Ref {
    out: Vec<u8>,
    n_calls: usize,
    bytes_written: Option<u64>,
}

fn judge(o: &mut Outcome, l: &Lowered, ops: &[COp], fin: usize, script: &Script, r: &Ref) -> bool {
    let sink = FaultSink::new(script.clone());
    let st = sink.st.clone();
    let st2 = st.clone();
    let run = run_history_on(&l.cfg, ops, sink, move || {
        let s = st2.lock().unwrap();
        SinkState { bytes: s.accepted.clone(), writes: s.calls_by_api.iter().map(|&(a, n)| (a, n, 0)).collect(), flushes: vec![], current_call: s.current_call }
    });
    let s = st.lock().unwrap();
    let tag = match script {
        Script::FailAtCall { kind: 6, .. } | Script::FailAtByte { kind: 6, .. } => "write_zero",
        Script::FailAtCall { .. } => "fail_at_call",
        Script::FailOnceAtCall { .. } => "fail_once_at_call",
        Script::FailAtByte { .. } => "fail_at_byte",
        Script::Schedule { terminal: Some(_), .. } => "schedule_with_terminal",
        Script::Schedule { .. } => "benign_schedule",
        Script::PanicAtCall { .. } => "sink_panics",
    };
    if let Some(p) = &run.panic {
        o.fail("no_panic", format!("no_panic.{}", tag), format!("panic under {:?}: {}", script, p));
        return false;
    }
    let fr = &run.results[fin];
    let failed = s.terminal_hit;
    // err_iff
    if failed && fr.is_ok() {
        o.fail("err_iff", format!("err_iff.ok_despite_failure.{}", tag), format!("finish returned Ok although the sink failed terminally ({:?})", script));
        return false;
    }
    if !failed && !fr.is_ok() {
        o.fail("err_iff", format!("err_iff.err_without_failure.{}", tag), format!("finish returned {} although no write failed ({:?})", fr.short(), script));
        return false;
    }
    // prefix
    let acc = &s.accepted;
    if acc.len() > r.out.len() || acc[..] != r.out[..acc.len()] {
        let pos = acc.iter().zip(r.out.iter()).position(|(a, b)| a != b).unwrap_or(r.out.len());
        o.fail(
            "prefix",
            format!("prefix.{}.{}", tag, if acc.len() > r.out.len() { "longer_than_reference" } else { "content" }),
            format!("accepted bytes ({}) are not a prefix of the fault-free file ({}); first difference at {} under {:?}", acc.len(), r.out.len(), pos, script),
        );
        return false;
    }
    if !failed {
        if acc.len() != r.out.len() {
            o.fail("benign", format!("benign.truncated.{}", tag), format!("finish returned Ok but only {} of {} bytes were delivered under {:?}", acc.len(), r.out.len(), script));
            return false;
        }
        if let (CallResult::OkStats(st_), Some(want)) = (fr, r.bytes_written) {
            if st_.bytes_written != want {
                o.fail("benign", format!("benign.bytes_written.{}", tag), format!("bytes_written {} differs from the fault-free run's {} under {:?}", st_.bytes_written, want, script));
                return false;
            }
        }
    }
    // no write call may reach the sink once it has reported a hard failure (not even within the same finish)
    if s.writes_after_failure > 0 {
        o.fail(
            "silent_after",
            format!("silent_after.write_after_sink_failure.{}", tag),
            format!("{} write call(s) reached the sink after it had returned a hard error under {:?}", s.writes_after_failure, script),
        );
        return false;
    }
    // silent_after: later calls fail and reach the sink no more
    for (i, res) in run.results.iter().enumerate().skip(fin + 1) {
        if matches!(res, CallResult::Skipped) {
            break;
        }
        if res.is_ok() {
            o.fail("silent_after", format!("silent_after.later_call_ok.{}", tag), format!("call {} after the {} finish returned Ok under {:?}", i, if failed { "failed" } else { "successful" }, script));
            return false;
        }
    }
    if let Some(&(api, n)) = s.calls_by_api.iter().find(|(api, _)| *api != fin) {
        o.fail(
            "silent_after",
            format!("silent_after.sink_written.{}", tag),
            format!("the sink received a write of {} bytes during API call {} (finish is call {}) under {:?}", n, api, fin, script),
        );
        return false;
    }
    true
}

pub fn eval(c: &FaultCase) -> Outcome {
    let mut o = Outcome::default();
    let l = lower(&c.base);
    // history: the valid scenario with an in-place finish (so that later calls can be made), then retries
    let mut ops: Vec<COp> = l.ops.clone();
    let fin = ops.len() - 1;
    ops[fin] = COp::Finish(FinishKind::InPlaceStats);
    ops.push(COp::Finish(FinishKind::InPlace));
    if let Some(v) = l.ops.iter().find(|op| op.is_video()) {
        ops.push(v.clone());
    }
    ops.push(COp::Finish(FinishKind::InPlaceStats));
    let reference = run_history(&l.cfg, &ops);
    if reference.panic.is_some() || reference.finished_at != Some(fin) {
        o.class("reference_run_unusable");
        return o;
    }
    let r = Ref { out: reference.out.clone(), n_calls: reference.sink.writes.len(), bytes_written: reference.stats.map(|s| s.bytes_written) };
    let n = r.out.len();
    let nsamples = l.vexp.len() + l.aexp.len();
    let hist_hash = hash_debug(&c.base);
    let run_one = |o: &mut Outcome, script: Script, nontrivial: bool| -> bool {
        o.sub_evals += 1;
        if nontrivial {
            o.sub_nontrivial.push(hash_of(&(hist_hash, hash_debug(&script))));
        }
        judge(o, &l, &ops, fin, &script, &r)
    };
    if let Some(s) = &c.only {
        run_one(&mut o, s.clone(), true);
        return o;
    }
    let mut n_scripts = 0u64;
    if c.exhaustive {
        'outer: for call in 0..r.n_calls {
            for kind in 0..N_KINDS {
                n_scripts += 1;
                if !run_one(&mut o, Script::FailAtCall { call, kind }, nsamples >= 2 && call > 0) {
                    break 'outer;
                }
            }
            n_scripts += 1;
            for kind in [[0u8, 1, 2, 3, 4, 5, 7][call % 7], 8 + (call % 12) as u8] {
                n_scripts += 1;
                if !run_one(&mut o, Script::FailOnceAtCall { call, kind }, nsamples >= 2 && call > 0) {
                    break 'outer;
                }
            }
        }
        if o.violations.is_empty() {
            for offset in 0..n {
                n_scripts += 1;
                let kind = (offset % N_KINDS as usize) as u8;
                if !run_one(&mut o, Script::FailAtByte { offset, kind }, nsamples >= 2 && offset > 0) {
                    break;
                }
            }
        }
    } else if c.every_call {
        'calls: for call in 0..r.n_calls {
            for kind in [0u8, 5, 6, 7, 8, 11] {
                n_scripts += 1;
                if !run_one(&mut o, Script::FailAtCall { call, kind }, nsamples >= 2 && call > 0) {
                    break 'calls;
                }
            }
            for kind in [0u8, 7, 8, 11] {
                n_scripts += 1;
                if !run_one(&mut o, Script::FailOnceAtCall { call, kind }, nsamples >= 2 && call > 0) {
                    break 'calls;
                }
            }
        }
        // and a fault after exactly 2^k accepted bytes
        for k in 10..=17u32 {
            let offset = 1usize << k;
            if offset < n {
                n_scripts += 1;
                if !run_one(&mut o, Script::FailAtByte { offset, kind: (k % 8) as u8 }, nsamples >= 2) {
                    break;
                }
            }
        }
    } else {
        // sampled fault points for long histories
        for k in 0..40usize {
            let offset = (k * 7919 + 13) % n.max(1);
            n_scripts += 1;
            if !run_one(&mut o, Script::FailAtByte { offset, kind: (k % N_KINDS as usize) as u8 }, nsamples >= 2 && offset > 0) {
                break;
            }
            let call = (k * 31 + 1) % r.n_calls.max(1);
            n_scripts += 1;
            if !run_one(&mut o, Script::FailOnceAtCall { call, kind: [0u8, 1, 2, 3, 4, 5, 7, 8, 11, 12, 13, 14][k % 12] }, nsamples >= 2 && call > 0) {
                break;
            }
        }
    }
    if o.violations.is_empty() {
        for (pattern, terminal) in &c.schedules {
            let terminal = terminal.map(|(off, k)| ((off as usize) % n.max(1), k % N_KINDS));
            n_scripts += 1;
            if !run_one(&mut o, Script::Schedule { pattern: pattern.clone(), terminal }, nsamples >= 2) {
                break;
            }
        }
    }
    o.class_counts.push(("faulted_runs".into(), n_scripts));
    o.nontrivial = nsamples >= 2;
    if l.cfg.has_audio() {
        o.class("audio");
    }
    if l.reordered {
        o.class("reordered");
    }
    o.class(if l.cfg.fast_start_effective() { "fast_start" } else { "standard_layout" });
    if l.cfg.title.is_some() {
        o.class("metadata");
    }
    // if something failed, narrow the case to the failing script so that the replay is minimal
    o
}

fn sched_strategy() -> impl Strategy<Value = (Vec<u8>, Option<(u16, u8)>)> {
    (
        vec(prop_oneof![4 => Just(0u8), 4 => 1u8..=200, 2 => Just(255u8), 2 => Just(1u8)], 0..60),
        proptest::option::weighted(0.4, (any::<u16>(), 0u8..7)),
    )
}

fn small_case(maxv: usize, maxa: usize) -> impl Strategy<Value = ValidCase> {
    valid_case_strategy(maxv, maxa).prop_map(|mut c| {
        // keep files small so that every byte offset can be enumerated
        for v in c.video.iter_mut() {
            v.size = v.size % 40 + 1;
            v.big = 0;
        }
        for a in c.audio.iter_mut() {
            a.size = a.size % 30 + 1;
        }
        if let Some(t) = c.cfg.title.as_mut() {
            t.truncate(t.char_indices().nth(12).map(|x| x.0).unwrap_or(t.len()));
        }
        c.cfg.av1 = None;
        c
    })
}

fn strat(t: Tier) -> BoxedStrategy<FaultCase> {
    let (maxv, maxa) = match t {
        Tier::Quick => (4, 4),
        Tier::Thorough => (6, 6),
    };
    (small_case(maxv, maxa), vec(sched_strategy(), 4..12))
        .prop_map(|(base, schedules)| FaultCase { base, schedules, only: None, exhaustive: true, every_call: false })
        .boxed()
}

fn strat_sampled(_t: Tier) -> BoxedStrategy<FaultCase> {
    (valid_case_strategy(30, 40), vec(sched_strategy(), 4..12))
        .prop_map(|(base, schedules)| FaultCase { base, schedules, only: None, exhaustive: false, every_call: false })
        .boxed()
}

fn aimed_fault_cases(t: Tier) -> Vec<FaultCase> {
    crate::scenario::aimed_cases(t).into_iter().map(|base| FaultCase { base, schedules: vec![(vec![0, 255, 100, 0, 200], None)], only: None, exhaustive: false, every_call: true }).collect()
}

fn long_fault_cases(_t: Tier) -> Vec<FaultCase> {
    // long / large recordings under sampled fault points, transient failures and short-write / Interrupted schedules
    let scheds: Vec<(Vec<u8>, Option<(u16, u8)>)> = vec![
        (vec![1], None),
        (vec![0, 1, 0, 200, 255, 3], None),
        (vec![255, 255, 0, 0, 7, 100], None),
        (vec![200; 40], None),
        (vec![0, 5, 0, 5], Some((40_000, 2))),
        (vec![1, 1, 1, 255], Some((7, 6))),
    ];
    long_cases(false)
        .into_iter()
        .filter(|c| c.expand.as_ref().map(|e| e.nv + e.na <= 40_000).unwrap_or(true))
        .map(|base| FaultCase { base, schedules: scheds.clone(), only: None, exhaustive: false, every_call: false })
        .collect()
}

pub fn def() -> PropertyDef {
    PropertyDef {
        fuzz_targets: &[],
        id: "C13",
        level: "fault_enumeration",
        rule: "for each generated small history (video-only, A/V, reordered, fast start on/off, metadata) a fault-free reference run records its K sink \
               write calls and N bytes; then EVERY write-call index x 9 failure modes (7 sticky ErrorKinds incl. TimedOut and WouldBlock, Ok(0), one transient hard error) and EVERY byte offset in 0..N is injected, \
               plus generated schedules of short writes and finitely many Interrupted results with/without a terminal failure; a second sub-check samples \
               fault points on larger histories. Clauses: no panic, finish errs iff a write ultimately failed, accepted bytes are a prefix of the \
               reference (equal when Ok, bytes_written equal), no sink write and no successful call after the finish. Non-trivial = fault strictly inside \
               the file of a history with >= 2 samples; distinct = (history, fault script)",
        assumptions: &[
            "std::io::Write::write_all semantics (retries Interrupted, Ok(0) => WriteZero)",
            "unbounded runs of Interrupted are not generated: write_all would never return, which is the sink's doing",
        ],
        subs: vec![
            Box::new(PSub { name: "every_fault_point", quick: 600, thorough: 12000, strat, eval }),
            Box::new(PSub { name: "sampled_fault_points", quick: 1500, thorough: 60000, strat: strat_sampled, eval }),
            Box::new(LSub { name: "long_recordings", cases: long_fault_cases, eval, note: LONG_NOTE }),
            Box::new(LSub {
                name: "aimed_offsets",
                cases: aimed_fault_cases,
                eval,
                note: "recordings built in two passes so that one sample ends exactly at file offset 4 KiB .. 128 KiB (powers of two), both layouts, all codecs; every write call fails (sticky and once, four kinds each), plus faults after exactly 2^k accepted bytes",
            }),
        ],
    }
}
