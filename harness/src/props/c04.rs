//! C04 — calls succeed iff the documented input contract holds; errors name the violation.

use crate::contract::*;
use crate::engine::*;
use crate::exec::{run_history, CCfg, CallResult, Run};
use proptest::strategy::Strategy;
use std::collections::BTreeMap;

/// Interpret + execute, resolving unconstrained ("Either") calls with what the implementation actually did
/// so that the model stays in step for the calls that follow.
pub fn run_resolved(c: &RawCase) -> (CCfg, Verdict, Vec<Step>, Run) {
    let mut decisions: BTreeMap<usize, bool> = BTreeMap::new();
    loop {
        let (cfg, bv, steps) = interpret(c, &decisions);
        let ops: Vec<_> = steps.iter().map(|s| s.op.clone()).collect();
        let run = run_history(&cfg, &ops);
        let pending = steps.iter().enumerate().find(|(i, s)| {
            matches!(&s.verdict, Verdict::Either(r) if r != "after_unconstrained_call") && !decisions.contains_key(i)
        });
        match pending {
            Some((i, _)) if decisions.len() < 64 => match run.results.get(i) {
                Some(r) if r.is_ok() || r.is_err() => {
                    decisions.insert(i, r.is_ok());
                }
                _ => return (cfg, bv, steps, run),
            },
            _ => return (cfg, bv, steps, run),
        }
    }
}

fn entry(op: &crate::exec::COp) -> &'static str {
    use crate::exec::COp::*;
    match op {
        Video { .. } => "write_video",
        VideoDts { .. } => "write_video_with_dts",
        Audio { .. } => "write_audio",
        EncVideo { .. } => "encode_video",
        EncAudio { .. } => "encode_audio",
        Finish(_) => "finish",
    }
}

pub fn eval(c: &RawCase) -> Outcome {
    let mut o = Outcome::default();
    let (cfg, bv, steps, run) = run_resolved(c);
    if std::env::var("VERIF_TRACE").is_ok() {
        for (i, (s, r)) in steps.iter().zip(run.results.iter()).enumerate() {
            let t = match &s.op {
                crate::exec::COp::Video { pts, .. } => format!("video pts={:?}", pts),
                crate::exec::COp::VideoDts { pts, dts, .. } => format!("video pts={:?} dts={:?}", pts, dts),
                crate::exec::COp::Audio { pts, .. } => format!("audio pts={:?}", pts),
                other => format!("{:?}", other).chars().take(40).collect(),
            };
            eprintln!("TRACE {} {} verdict={:?} result={}", i, t, s.verdict, r.short());
        }
    }
    // build
    match (&bv, &run.build) {
        (Verdict::MustAccept, CallResult::Ok) => {}
        (Verdict::MustReject(v), CallResult::Err { class, variant, .. }) => {
            if !v.contains(class) {
                o.fail("names", format!("names.build.{}", variant), format!("build failed with {} but the violated precondition is {:?}", variant, v));
            }
            o.class("build_rejected");
        }
        (_, CallResult::Panic(p)) => {
            o.aborted_by_panic = Some(p.clone());
            return o;
        }
        (v, r) => {
            o.fail("accept", format!("build.{}", r.short()), format!("build returned {} but the model says {:?}", r.short(), v));
            return o;
        }
    }
    let mut rejected_classes = std::collections::BTreeSet::new();
    let mut seen_reject = false;
    let mut reject_then_accept = false;
    for (i, (s, r)) in steps.iter().zip(run.results.iter()).enumerate() {
        match r {
            CallResult::Skipped => break,
            CallResult::Panic(p) => {
                o.aborted_by_panic = Some(p.clone());
                if matches!(s.verdict, Verdict::MustAccept) {
                    // a call that violates no precondition has to succeed; unwinding out of it is not success (C12 reports the panic itself)
                    let ep = entry(&s.op);
                    o.fail("accept", format!("accept.{}.panic", ep), format!("call {} ({}) violates no documented precondition but panicked: {}", i, ep, clip(p, 160)));
                    return o;
                }
                break;
            }
            _ => {}
        }
        let ep = entry(&s.op);
        o.class(&format!("{}:{}", ep, ["h264", "h265", "av1", "vp9"][cfg.codec as usize % 4]));
        match &s.verdict {
            Verdict::MustAccept => {
                if seen_reject {
                    reject_then_accept = true;
                }
                if let CallResult::Err { variant, display, .. } = r {
                    o.fail(
                        "accept",
                        format!("accept.{}.{}", ep, variant),
                        format!("call {} ({}) violates no documented precondition but was rejected: {}", i, ep, clip(&display, 160)),
                    );
                    return o;
                }
            }
            Verdict::MustReject(v) => {
                seen_reject = true;
                for k in v {
                    rejected_classes.insert(*k);
                }
                match r {
                    CallResult::Err { class, variant, display } => {
                        if !v.contains(class) {
                            o.fail(
                                "names",
                                format!("names.{}.{}", ep, variant),
                                format!("call {} ({}) was rejected with {} ({}), but the preconditions it violates are {:?}", i, ep, variant, clip(&display, 120), v),
                            );
                            return o;
                        }
                        o.class(&format!("rejected:{:?}", class));
                    }
                    _ => {
                        let names: Vec<String> = v.iter().map(|k| format!("{:?}", k)).collect();
                        o.fail(
                            "reject",
                            format!("reject.{}.{}", ep, names.join("+")),
                            format!("call {} ({}) violates {:?} but was accepted", i, ep, v),
                        );
                        return o;
                    }
                }
            }
            Verdict::Either(reason) => {
                o.unconstrained.push(reason.clone());
            }
        }
    }
    o.nontrivial = reject_then_accept && rejected_classes.len() >= 2;
    o
}

fn strat(t: Tier) -> proptest::strategy::BoxedStrategy<RawCase> {
    match t {
        Tier::Quick => raw_case_strategy(30, 1).boxed(),
        Tier::Thorough => proptest::prop_oneof![9 => raw_case_strategy(40, 1), 1 => raw_case_strategy(300, 1)].boxed(),
    }
}

pub fn def() -> PropertyDef {
    PropertyDef {
        fuzz_targets: &["c04_history"],
        id: "C04",
        level: "exploration",
        rule: "call histories over build / write_video / write_video_with_dts / write_audio / encode_video / encode_audio / finish (5 forms) with \
               timestamps from {NaN, +-inf, -0.0, negative, absolute, relative to the previous / first accepted value incl. equal, lower, sub-tick, \
               gap 2^32-2..2^32, >= 2^53 ticks} and frames from {empty, keyframe with config, keyframe without config, delta, garbage, each ADTS/Opus \
               corruption}; every call is judged against a 3-valued executable model of docs/contract.md (must accept / must reject with class set / \
               unconstrained); non-trivial = a rejection later followed by an acceptance and >= 2 distinct rejection classes",
        assumptions: &[
            "unconstrained (documentation silent or contradictory): same tick with larger f64, write_video PTS rule after a reordered frame, \
             MPEG-2 ADTS / channel configuration 0, RFC-invalid Opus counts, half-tick ties, timestamps >= 2^53 ticks, garbage as non-first frame",
            "after an unconstrained call the model adopts the implementation's decision and keeps judging",
        ],
        subs: vec![Box::new(PSub { name: "contract_model", quick: 60000, thorough: 2000000, strat, eval }), Box::new(LSub { name: "bursts_and_long", cases: burst_cases, eval, note: BURST_NOTE })],
    }
}
