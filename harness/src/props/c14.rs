//! C14 — re-framing (Annex B to length-prefixed NALs, ADTS to raw AAC) is exact.

use crate::engine::*;
use crate::exec::{guarded, run_history, CCfg, COp, FinishKind};
use crate::gen::*;
use crate::mp4check::*;
use crate::reader::parse_movie;
use muxide::codec::common::AnnexBNalIter;
use muxide::codec::h264::annexb_to_avcc;
use muxide::codec::h265::hevc_annexb_to_hvcc;
use proptest::collection::vec;
use proptest::prelude::*;
use serde::{Deserialize, Serialize};
use serde_json::Value;

/// Reference: all occurrences of the 3-byte pattern 00 00 01 (they cannot overlap). A unit starts right after each
/// occurrence and ends at the next occurrence, minus one byte when that byte is a zero belonging to a 4-byte start code.
/// Empty units are dropped; with no unit at all the whole (non-empty) input is one unit.
pub fn reference_units(d: &[u8]) -> (Vec<&[u8]>, bool) {
    let mut matches = Vec::new();
    let mut i = 0;
    while i + 3 <= d.len() {
        if d[i] == 0 && d[i + 1] == 0 && d[i + 2] == 1 {
            matches.push(i);
            i += 3;
        } else {
            i += 1;
        }
    }
    let mut units = Vec::new();
    for (k, &p) in matches.iter().enumerate() {
        let begin = p + 3;
        let end = if k + 1 < matches.len() {
            let q = matches[k + 1];
            if q > begin && d[q - 1] == 0 {
                q - 1
            } else {
                q
            }
        } else {
            d.len()
        };
        if end > begin {
            units.push(&d[begin..end]);
        }
    }
    let fallback = units.is_empty() && !d.is_empty();
    if fallback {
        units.push(d);
    }
    (units, fallback)
}

fn framed(units: &[&[u8]]) -> Vec<u8> {
    let mut out = Vec::new();
    for u in units {
        out.extend_from_slice(&(u.len() as u32).to_be_bytes());
        out.extend_from_slice(u);
    }
    out
}

pub fn check_bytes(o: &mut Outcome, d: &[u8]) {
    let (units, fallback) = reference_units(d);
    let want = framed(&units);
    let n_codes = {
        let mut n = 0;
        let mut i = 0;
        while i + 3 <= d.len() {
            if d[i] == 0 && d[i + 1] == 0 && d[i + 2] == 1 {
                n += 1;
                i += 3;
            } else {
                i += 1;
            }
        }
        n
    };
    // the same bytes are also presented as a sub-slice that starts at another memory alignment (offset 1..7 inside a fresh
    // buffer): the result must not depend on where the input sits in memory
    let k = 1 + (d.len() * 7 + d.iter().take(16).map(|b| *b as usize).sum::<usize>()) % 7;
    let mut shifted = vec![0xa5u8; k];
    shifted.extend_from_slice(d);
    for (name, f) in [("avcc", annexb_to_avcc as fn(&[u8]) -> Vec<u8>), ("hvcc", hevc_annexb_to_hvcc as fn(&[u8]) -> Vec<u8>)] {
        if let Ok(got) = guarded(|| f(&shifted[k..])) {
            if got != want {
                o.fail("annexb", format!("annexb.{}.alignment", name), format!("{}({}) differs when the input starts at address = {} (mod 8)", name, hex(d, 40), k));
                return;
            }
        }
        match guarded(|| f(d)) {
            Err(p) => {
                o.aborted_by_panic = Some(p);
                return;
            }
            Ok(got) => {
                if got != want {
                    // does it at least parse to its end?
                    let mut pos = 0usize;
                    let mut parses = true;
                    while pos < got.len() {
                        if pos + 4 > got.len() {
                            parses = false;
                            break;
                        }
                        let l = u32::from_be_bytes([got[pos], got[pos + 1], got[pos + 2], got[pos + 3]]) as usize;
                        pos += 4;
                        if pos + l > got.len() {
                            parses = false;
                            break;
                        }
                        pos += l;
                    }
                    o.fail(
                        "annexb",
                        format!("annexb.{}.{}", name, if !parses { "does_not_parse" } else if fallback { "fallback" } else { "units" }),
                        format!("{}({}) = {} but the units after each start code are {:?}", name, hex(d, 40), hex(&got, 60), units.iter().map(|u| hex(u, 12)).collect::<Vec<_>>()),
                    );
                    return;
                }
            }
        }
    }
    match guarded(|| AnnexBNalIter::new(d).filter(|n| !n.is_empty()).map(|n| n.to_vec()).collect::<Vec<_>>()) {
        Err(p) => {
            o.aborted_by_panic = Some(p);
        }
        Ok(items) => {
            let want_items: Vec<Vec<u8>> = if fallback { vec![] } else { units.iter().map(|u| u.to_vec()).collect() };
            if items != want_items {
                o.fail("annexb", "annexb.iter", format!("AnnexBNalIter({}) yields {:?}, expected {:?}", hex(d, 40), items.iter().map(|u| hex(u, 12)).collect::<Vec<_>>(), want_items.iter().map(|u| hex(u, 12)).collect::<Vec<_>>()));
            }
        }
    }
    let overlap = d.windows(5).any(|w| w == [0, 0, 0, 0, 1]) || d.windows(6).any(|w| w == [0, 0, 1, 0, 0, 1]) || d.ends_with(&[0, 0, 1]);
    o.nontrivial = n_codes >= 2 || overlap;
    if overlap {
        o.class("overlapping_pattern");
    }
    if fallback {
        o.class("whole_input_fallback");
    }
    if n_codes >= 2 {
        o.class("ge_2_start_codes");
    }
}

// ---- (a) exhaustive strings over {00, 01, 03, AB}

const ALPHA: [u8; 4] = [0x00, 0x01, 0x03, 0xAB];

fn nth_string(mut idx: u64, len: usize) -> Vec<u8> {
    let mut v = vec![0u8; len];
    for b in v.iter_mut().rev() {
        *b = ALPHA[(idx & 3) as usize];
        idx >>= 2;
    }
    v
}

fn run_exhaustive(ctx: &Ctx) -> SubReport {
    let max_len = if ctx.tier == Tier::Quick { 10 } else { 13 };
    let mk = move |shard: usize, shards: usize| {
        (0..=max_len).flat_map(move |len| {
            let total = 1u64 << (2 * len);
            (0..total).filter(move |i| (*i as usize) % shards == shard).map(move |i| nth_string(i, len))
        })
    };
    let eval = |d: &Vec<u8>| {
        let mut o = Outcome::default();
        check_bytes(&mut o, d);
        o
    };
    let mut r = run_enumerated(ctx, "exhaustive_small_alphabet", &mk, &eval);
    r.notes.push(format!("all strings over {{00,01,03,AB}} up to length {}", max_len));
    r
}

fn replay_bytes(v: &Value) -> Result<Outcome, String> {
    let d: Vec<u8> = serde_json::from_value(v.clone()).map_err(|e| e.to_string())?;
    let mut o = Outcome::default();
    check_bytes(&mut o, &d);
    Ok(o)
}

// ---- (a2) large inputs: long units, many units, long zero runs (compact descriptions)

#[derive(Clone, Debug, Serialize, Deserialize, PartialEq, Eq, Hash)]
pub struct LargeSpec {
    pub count: u32,
    pub len: u32,
    /// zero bytes in front of every start code (they trail the previous unit, or lead the input)
    pub zeros: u32,
    pub sc4: bool,
    pub trail: u32,
    /// 0: no zero bytes inside units; 1: `00 00 03 xx` sequences inside; 2: single zeros and 0x01 bytes inside
    pub fill: u8,
}

fn large_bytes(c: &LargeSpec) -> Vec<u8> {
    let mut d = Vec::with_capacity((c.count as usize) * (c.len as usize + c.zeros as usize + 4) + c.trail as usize);
    for i in 0..c.count {
        d.extend(std::iter::repeat(0u8).take(c.zeros as usize));
        if c.sc4 {
            d.push(0);
        }
        d.extend_from_slice(&[0, 0, 1]);
        let mut x = (i as u64).wrapping_mul(0x9E37_79B9_7F4A_7C15) | 1;
        for j in 0..c.len {
            x ^= x << 13;
            x ^= x >> 7;
            x ^= x << 17;
            let b = ((x >> 24) as u8) | 0x10;
            d.push(match c.fill {
                0 => b,
                1 => match j % 9 {
                    3 | 4 => 0,
                    5 => 3,
                    _ => b,
                },
                _ => match j % 7 {
                    2 => 0,
                    4 => 1,
                    _ => b,
                },
            });
        }
    }
    d.extend(std::iter::repeat(0u8).take(c.trail as usize));
    d
}

fn large_cases(t: Tier) -> Vec<LargeSpec> {
    let mut v = Vec::new();
    let lens: &[u32] = &[65_531, 65_532, 65_535, 65_536, 65_537, 1 << 20, (1 << 20) + 1, 3_000_001];
    for (k, &len) in lens.iter().enumerate() {
        v.push(LargeSpec { count: 1 + (k as u32 % 3), len, zeros: k as u32 % 3, sc4: k % 2 == 0, trail: k as u32 % 4, fill: (k % 3) as u8 });
    }
    if t == Tier::Thorough {
        v.push(LargeSpec { count: 2, len: (1 << 24) + 1, zeros: 0, sc4: false, trail: 0, fill: 0 });
    }
    for (k, &count) in [255u32, 256, 257, 1000, 4096, 65_535, 65_536, 65_537, 70_000].iter().enumerate() {
        v.push(LargeSpec { count, len: 1 + (k as u32 % 4), zeros: (k as u32 / 2) % 2, sc4: k % 2 == 1, trail: 0, fill: (k % 3) as u8 });
    }
    // every unit count from 1 to 520 (a small-vector, ring or table that switches representation at some count)
    for count in 1u32..=520 {
        v.push(LargeSpec { count, len: 1 + (count % 5), zeros: count % 2, sc4: count % 3 == 0, trail: count % 4, fill: (count % 3) as u8 });
    }
    for (k, &zeros) in [5u32, 100, 255, 256, 257, 1000, 65_535, 65_536, 70_000, 1 << 20].iter().enumerate() {
        v.push(LargeSpec { count: 3, len: 5, zeros, sc4: k % 2 == 0, trail: if k % 2 == 0 { zeros } else { 0 }, fill: 0 });
    }
    v
}

fn eval_large(c: &LargeSpec) -> Outcome {
    let mut o = Outcome::default();
    check_bytes(&mut o, &large_bytes(c));
    o.nontrivial = true;
    o
}

// ---- (b) constructive NAL lists

#[derive(Clone, Debug, Serialize, Deserialize, PartialEq, Eq, Hash)]
pub struct Constructive {
    pub hevc: bool,
    pub garbage: Vec<u8>,
    pub nals: Vec<NalGene>,
    pub trail_zeros: u8,
}

pub fn eval_constructive(c: &Constructive) -> Outcome {
    let mut o = Outcome::default();
    // leading garbage must not contain a start code: map zeros away
    let mut d: Vec<u8> = c.garbage.iter().map(|&b| if b == 0 { 0x55 } else { b }).collect();
    let fr = AnnexBFrame { nals: c.nals.clone(), lead_zeros: 0, trail_zeros: c.trail_zeros % 4 };
    let (bytes, units) = fr.build(c.hevc, 0x4242);
    d.extend_from_slice(&bytes);
    let want = length_prefixed(&units);
    let got = match guarded(|| if c.hevc { hevc_annexb_to_hvcc(&d) } else { annexb_to_avcc(&d) }) {
        Ok(g) => g,
        Err(p) => {
            o.aborted_by_panic = Some(p);
            return o;
        }
    };
    if units.is_empty() {
        return o;
    }
    if got != want {
        o.fail(
            "annexb",
            format!("annexb.constructive.{}", if c.hevc { "hvcc" } else { "avcc" }),
            format!("units do not come out as constructed: got {} want {}", hex(&got, 60), hex(&want, 60)),
        );
    }
    // and the general oracle on the same bytes
    check_bytes(&mut o, &d);
    o.nontrivial = units.len() >= 2;
    if c.trail_zeros % 4 > 0 {
        o.class("trailing_zeros");
    }
    if !c.garbage.is_empty() {
        o.class("leading_garbage");
    }
    if units.iter().any(|u| u.len() == 1) {
        o.class("one_byte_unit");
    }
    o
}

fn constructive_strategy(_t: Tier) -> BoxedStrategy<Constructive> {
    (
        any::<bool>(),
        vec(any::<u8>(), 0..6),
        vec(
            (0u8..64, prop_oneof![4 => 0u16..6, 4 => 6u16..80, 1 => 80u16..3000], 0u8..4, any::<bool>(), any::<u8>())
                .prop_map(|(typ, len, fill, sc4, aux)| NalGene { typ: typ.max(1), len, fill, sc4, aux }),
            0..8,
        ),
        0u8..4,
    )
        .prop_map(|(hevc, garbage, nals, trail_zeros)| Constructive { hevc, garbage, nals, trail_zeros })
        .boxed()
}

// ---- (c) random byte strings with 00/01 bias

fn random_strategy(t: Tier) -> BoxedStrategy<Vec<u8>> {
    let max = if t == Tier::Quick { 200 } else { 4096 };
    vec(prop_oneof![5 => Just(0u8), 2 => Just(1u8), 1 => Just(3u8), 2 => any::<u8>()], 0..max).boxed()
}
fn eval_random(d: &Vec<u8>) -> Outcome {
    let mut o = Outcome::default();
    check_bytes(&mut o, d);
    o
}

// ---- (d) ADTS: exhaustive over frame_length x protection x buffer relation

#[derive(Clone, Debug, Serialize, Deserialize, PartialEq, Eq, Hash)]
pub struct AdtsBatch {
    pub protection_absent: bool,
    /// buffer length minus declared length: -1, 0, +3; 100: declared length followed by a second complete valid frame
    pub rel: i8,
    pub first_len: u16,
    pub count: u16,
    pub fields: u8,
    /// remaining header bits: private/original/home/copyright bits, buffer fullness, number_of_raw_data_blocks_in_frame
    #[serde(default)]
    pub misc: u16,
}

/// Independent structural validity: what the stored sample must be, if accepted.
fn adts_expect(buf: &[u8]) -> Option<&[u8]> {
    if buf.len() < 7 {
        return None;
    }
    if buf[0] != 0xff || buf[1] & 0xf0 != 0xf0 {
        return None;
    }
    let id = (buf[1] >> 3) & 1;
    let layer = (buf[1] >> 1) & 3;
    let pa = buf[1] & 1 == 1;
    let hdr = if pa { 7 } else { 9 };
    let sfi = (buf[2] >> 2) & 15;
    let chan = ((buf[2] & 1) << 2) | (buf[3] >> 6);
    let flen = (((buf[3] & 3) as usize) << 11) | ((buf[4] as usize) << 3) | ((buf[5] >> 5) as usize);
    if id != 0 || layer != 0 || sfi > 12 || chan == 0 || buf.len() < hdr || flen < hdr || flen > buf.len() {
        return None;
    }
    Some(&buf[hdr..flen])
}

pub fn eval_adts(b: &AdtsBatch) -> Outcome {
    let mut o = Outcome::default();
    let mut cfg = CCfg::basic(0);
    cfg.audio = 1;
    cfg.fast_start = Some(false);
    let key = AnnexBFrame {
        nals: vec![
            NalGene { typ: 7, len: 6, fill: 0, sc4: true, aux: 3 },
            NalGene { typ: 8, len: 3, fill: 0, sc4: true, aux: 3 },
            NalGene { typ: 5, len: 20, fill: 0, sc4: true, aux: 3 },
        ],
        lead_zeros: 0,
        trail_zeros: 0,
    }
    .build(false, 1)
    .0;
    let mut ops = vec![COp::Video { pts: 0.0, data: key, key: true }];
    let mut frames: Vec<Vec<u8>> = Vec::new();
    let hdr = if b.protection_absent { 7usize } else { 9 };
    for k in 0..b.count {
        let declared = (b.first_len as usize + k as usize).min(8191);
        // rel == 100: exactly the declared length, followed by a second complete, valid ADTS frame (a PES-style buffer)
        let buf_len = (declared as i64 + if b.rel == 100 { 0 } else { b.rel as i64 }).max(0) as usize;
        let mut f = vec![0u8; hdr.min(buf_len.max(7))];
        f.resize(buf_len.max(0), 0);
        if f.len() >= 7 {
            f[0] = 0xff;
            f[1] = 0xf0 | (b.protection_absent as u8);
            let sfi = b.fields % 13;
            let chan = 1 + (b.fields >> 4) % 7;
            let m = b.misc;
            f[2] = (((b.fields >> 2) & 3) << 6) | (sfi << 2) | (((m & 1) as u8) << 1) | (chan >> 2);
            f[3] = ((chan & 3) << 6) | ((((m >> 1) & 0xf) as u8) << 2) | ((declared >> 11) as u8 & 3);
            f[4] = (declared >> 3) as u8;
            f[5] = (((declared & 7) as u8) << 5) | ((m >> 5) as u8 & 0x1f);
            f[6] = (((m >> 8) as u8 & 0x3f) << 2) | ((m >> 14) as u8 & 3);
            let body = filler(f.len().saturating_sub(7), (declared as u64) << 8 | k as u64, 0);
            for (i, x) in body.iter().enumerate() {
                f[7 + i] = *x;
            }
        }
        if b.rel == 100 && f.len() >= 7 {
            let second = AdtsGene { protection_absent: k % 2 == 0, profile: 1, sfi: b.fields % 13, chan: 1 + (b.fields >> 4) % 7, payload_len: 5 + (k % 9), extra: 0, fill: 0, corrupt: 0, misc: 0 }.build(0x77).0;
            f.extend_from_slice(&second);
        }
        frames.push(f.clone());
        ops.push(COp::Audio { pts: k as f64 * 0.02, data: f });
    }
    ops.push(COp::Finish(FinishKind::InPlace));
    let run = run_history(&cfg, &ops);
    if let Some(p) = &run.panic {
        o.aborted_by_panic = Some(p.clone());
        return o;
    }
    if run.finished_at.is_none() {
        o.class("finish_not_ok");
        return o;
    }
    let m = match parse_movie(&run.out) {
        Ok((_, m)) => m,
        Err(_) => {
            o.class("unparseable_not_judged(C02)");
            return o;
        }
    };
    let at = match audio_track(&m) {
        Some(t) => t,
        None => return o,
    };
    let mut si = 0usize;
    let mut n_judged = 0u64;
    for (k, f) in frames.iter().enumerate() {
        let accepted = run.results[1 + k].is_ok();
        let want = adts_expect(f);
        if !accepted {
            if let Some(w) = want {
                if !w.is_empty() {
                    o.fail("adts", "adts.valid_frame_rejected", format!("structurally valid ADTS frame rejected: header {} buffer {} bytes", hex(f, 9), f.len()));
                    return o;
                }
            }
            continue;
        }
        // "for every byte string accepted as an ADTS frame, the stored sample is exactly header..declared length"
        let s = match at.samples.get(si) {
            Some(s) => s,
            None => {
                o.fail("adts", "adts.sample_missing", format!("accepted frame {} has no sample in the file", k));
                return o;
            }
        };
        si += 1;
        let got = &run.out[s.offset as usize..s.offset as usize + s.size as usize];
        let pa = f.len() > 1 && f[1] & 1 == 1;
        let h = if pa { 7 } else { 9 };
        let flen = (((f[3] & 3) as usize) << 11) | ((f[4] as usize) << 3) | ((f[5] >> 5) as usize);
        if flen < h || flen > f.len() {
            o.fail("adts", "adts.accepted_with_impossible_length", format!("accepted a frame whose declared length {} does not fit header {} / buffer {}", flen, h, f.len()));
            return o;
        }
        if got != &f[h..flen] {
            o.fail(
                "adts",
                format!("adts.payload.{}{}", if pa { "unprotected" } else { "crc_protected" }, if flen >= 4096 { ".len_ge_4096" } else { "" }),
                format!("declared length {}, header {}: stored sample has {} bytes ({}), expected {} bytes ({})", flen, h, got.len(), hex(got, 12), flen - h, hex(&f[h..flen], 12)),
            );
            return o;
        }
        n_judged += 1;
    }
    o.sub_evals = frames.len() as u64;
    o.nontrivial = n_judged > 0;
    o.class_counts.push(("adts_frames_accepted_and_compared".into(), n_judged));
    o
}

fn run_adts(ctx: &Ctx) -> SubReport {
    // (field byte, misc bits): the misc values cover all four raw-data-block counts and both extremes of the other bits
    let fields: Vec<(u8, u16)> = if ctx.tier == Tier::Quick {
        vec![(0x13, 0x0000), (0x13, 0x7fe1), (0x6c, 0xbffe), (0xf7, 0xffff), (0x13, 0x4000), (0x6c, 0x8000)]
    } else {
        let mut v = Vec::new();
        for (i, f) in [0x13u8, 0x00, 0x6c, 0xf7].into_iter().enumerate() {
            for k in 0..4u16 {
                v.push((f, (k << 14) | (0x1555u16.rotate_left(i as u32 * 3) & 0x3ffc) | ((i as u16 + k) & 3)));
            }
        }
        v.push((0x13, 0));
        v.push((0xf7, 0xffff));
        v
    };
    let mk = move |shard: usize, shards: usize| {
        let fields = fields.clone();
        let mut all = Vec::new();
        let mut idx = 0usize;
        for pa in [true, false] {
            for rel in [-1i8, 0, 3, 100] {
                for &(fl, misc) in &fields {
                    let mut start = 0u16;
                    while start < 8192 {
                        let count = 64u16.min(8192 - start);
                        if idx % shards == shard {
                            all.push(AdtsBatch { protection_absent: pa, rel, first_len: start, count, fields: fl, misc });
                        }
                        idx += 1;
                        start += count;
                    }
                }
            }
        }
        all.into_iter()
    };
    let mut r = run_enumerated(ctx, "adts_exhaustive", &mk, &eval_adts);
    r.notes.push("all 13-bit declared lengths x protection flag x buffer length in {declared-1, declared, declared+3}".into());
    r
}

fn replay_adts(v: &Value) -> Result<Outcome, String> {
    let b: AdtsBatch = serde_json::from_value(v.clone()).map_err(|e| e.to_string())?;
    Ok(eval_adts(&b))
}

/// Re-framing as the muxer performs it over a whole recording (state carried from frame to frame must not change it): the
/// long / large recordings, judged with C01's reader for the stored sample bytes only.
fn eval_long_reframing(c: &crate::scenario::ValidCase) -> Outcome {
    let inner = crate::props::c01::eval(c);
    let mut o = Outcome::default();
    o.nontrivial = inner.nontrivial;
    o.aborted_by_panic = inner.aborted_by_panic;
    for mut v in inner.violations {
        if v.clause == "bytes" {
            v.clause = "stored".into();
            v.sig = format!("stored.{}", v.sig);
            o.violations.push(v);
        }
    }
    o
}

fn s_scenarios(_t: Tier) -> BoxedStrategy<crate::scenario::ValidCase> {
    crate::scenario::valid_case_strategy(12, 12).boxed()
}

pub fn def() -> PropertyDef {
    PropertyDef {
        fuzz_targets: &["c14_annexb"],
        id: "C14",
        level: "exploration",
        rule: "(a) EXHAUSTIVE: every string over {00,01,03,AB} up to length 10 (quick, 1 398 101 strings) / 13 (thorough, 89.5 M) through annexb_to_avcc, \
               hevc_annexb_to_hvcc and AnnexBNalIter against an independent splitter (occurrences of 00 00 01 with an optional preceding zero); \
               (b) constructive NAL lists with leading garbage, 3/4-byte codes, trailing zeros; (c) random 00/01-biased strings; (d) EXHAUSTIVE ADTS: all \
               8192 declared lengths x protection flag x buffer length in {len-1,len,len+3}, muxed and read back through the independent reader. \
               Non-trivial = >=2 start codes or an overlapping pattern; ADTS: at least one accepted frame compared",
        assumptions: &[
            "a zero-payload ADTS frame (declared length == header length) may be rejected or stored as an empty sample; both satisfy the statement",
            "the alphabet {00,01,03,AB} contains every start-code-relevant byte class plus two distinguishable other bytes",
        ],
        subs: vec![
            Box::new(ESub { name: "exhaustive_small_alphabet", run: run_exhaustive, replay: replay_bytes }),
            Box::new(PSub { name: "constructive", quick: 20000, thorough: 800000, strat: constructive_strategy, eval: eval_constructive }),
            Box::new(PSub { name: "random_bytes", quick: 60000, thorough: 600000, strat: random_strategy, eval: eval_random }),
            Box::new(ESub { name: "adts_exhaustive", run: run_adts, replay: replay_adts }),
            Box::new(LSub { name: "long_recordings", cases: crate::scenario::long_cases_all, eval: eval_long_reframing, note: crate::scenario::LONG_NOTE }),
            Box::new(PSub { name: "muxer_reframing", quick: 10000, thorough: 300000, strat: s_scenarios, eval: eval_long_reframing }),
            Box::new(LSub {
                name: "large_inputs",
                cases: large_cases,
                eval: eval_large,
                note: "fixed list: units of 65 531 .. 3 000 001 bytes (2^24 + 1 in the thorough tier), 255 .. 70 000 units per input, runs of 5 .. 2^20 zero bytes before start codes and at the end",
            }),
        ],
    }
}
