//! C10 — fragmented muxing conserves samples across any write/flush interleaving.

use crate::engine::*;
use crate::frag::*;
use crate::fragcase::*;
use proptest::strategy::Strategy;

pub fn eval(c: &FragCase) -> Outcome {
    let mut o = Outcome::default();
    let l = lower(c);
    let t = run_and_check(&mut o, &l, true);
    if let Some(p) = &t.panic {
        o.aborted_by_panic = Some(p.clone());
        return o;
    }
    // final: concatenation over all segments plus a closing flush equals the accepted writes (follows from the
    // per-flush comparison against the model queue; what is still queued at the end is obtained by a closing flush)
    let mut ops2 = l.ops.clone();
    ops2.push(FOp::Flush);
    let l2 = LoweredFrag { cfg: l.cfg.clone(), ops: ops2 };
    let mut o2 = Outcome::default();
    let t2 = run_and_check(&mut o2, &l2, true);
    if t2.panic.is_none() {
        for v in o2.violations {
            if !o.violations.iter().any(|x| x.sig == v.sig) {
                o.violations.push(v);
            }
        }
        let emitted: usize = t2.emitted.iter().map(|e| e.expect.len()).sum();
        if emitted != t2.accepted_writes {
            o.fail("final", "final.count", format!("{} samples emitted in total, {} writes were accepted", emitted, t2.accepted_writes));
        }
    }
    // pure: queries removed => identical write results and segments
    if t.queries > 0 {
        let ops3: Vec<FOp> = l.ops.iter().filter(|op| !matches!(op, FOp::Ready | FOp::DurMs | FOp::Init)).cloned().collect();
        let r_full = run_frag(&l.cfg, &l.ops);
        let r_pure = run_frag(&l.cfg, &ops3);
        let essential = |ops: &[FOp], rs: &[FRes]| -> Vec<FRes> {
            ops.iter().zip(rs.iter()).filter(|(op, _)| matches!(op, FOp::Write { .. } | FOp::Flush)).map(|(_, r)| r.clone()).collect()
        };
        if essential(&l.ops, &r_full.results) != essential(&ops3, &r_pure.results) {
            o.fail("pure", "pure.queries_change_output", "removing ready_to_flush / current_fragment_duration_ms / init_segment calls changes a later write result or segment");
        }
    }
    let nonempty_flushes = t.emitted.len();
    let mut sizes: Vec<usize> = t.emitted.iter().flat_map(|e| e.expect.iter().map(|s| s.data.len())).collect();
    sizes.sort();
    sizes.dedup();
    o.nontrivial = nonempty_flushes >= 2 && sizes.len() >= 2;
    if t.empty_flushes > 0 {
        o.class("empty_flush");
    }
    if t.rejected_writes > 0 {
        o.class("rejected_write");
    }
    if t.queries > 0 {
        o.class("queries_interleaved");
    }
    if sizes.first() == Some(&0) {
        o.class("empty_sample");
    }
    if t.rejected_writes > 0 && t.emitted.iter().any(|e| !e.expect.is_empty()) {
        o.class("rejected_write_then_segment");
    }
    o.class(["h264", "h265", "av1", "vp9"][(c.codec % 4) as usize]);
    o
}

/// Several fragmented muxers alive at once on one thread, fed alternately (C17's pool generator): every one of them must
/// conserve its own samples.
fn eval_pool(c: &crate::props::c17::FragPool) -> Outcome {
    let mut o = Outcome::default();
    if c.pool.is_empty() {
        return o;
    }
    let lowered: Vec<LoweredFrag> = c.pool.iter().map(lower).collect();
    let mut runs: Vec<(&FCfg, &[FOp])> = lowered.iter().map(|l| (&l.cfg, &l.ops[..])).collect();
    runs.push((&lowered[0].cfg, &lowered[0].ops[..]));
    let got = run_frag_lockstep(&runs, &c.schedule);
    let mut segs = 0;
    for (i, run) in got.into_iter().enumerate() {
        let l = &lowered[if i < lowered.len() { i } else { 0 }];
        if let Some(p) = &run.panic {
            o.aborted_by_panic = Some(p.clone());
            // alone the history does not panic (checked by the main sub-check): losing the samples to a panic is a loss
            let alone = run_frag(&l.cfg, &l.ops);
            if alone.panic.is_none() {
                o.fail("conserve", "conserve.panic_with_other_muxers_alive", format!("muxer {} of {} panics when the muxers are fed alternately, not alone: {}", i, runs.len(), p));
            }
            return o;
        }
        let mut oi = Outcome::default();
        let t = check_run(&mut oi, l, true, run);
        segs += t.emitted.len();
        for mut v in oi.violations {
            v.sig = format!("{}:several_muxers", v.sig);
            o.violations.push(v);
        }
        if !o.violations.is_empty() {
            return o;
        }
    }
    // each muxer moved to another thread in the middle of its history (samples queued on one thread, flushed on another)
    for (i, l) in lowered.iter().enumerate() {
        if l.ops.is_empty() {
            continue;
        }
        let cut = (c.schedule.get(i).copied().unwrap_or(3) as usize) % l.ops.len();
        let run = run_frag_moved(&l.cfg, &l.ops, cut);
        if let Some(p) = &run.panic {
            o.aborted_by_panic = Some(p.clone());
            o.fail("conserve", "conserve.panic_after_a_thread_change", format!("muxer {} panics when it is moved to another thread after {} of {} calls: {}", i, cut, l.ops.len(), p));
            return o;
        }
        let mut oi = Outcome::default();
        let _ = check_run(&mut oi, l, true, run);
        if let Some(mut v) = oi.violations.into_iter().next() {
            v.sig = format!("{}:moved_between_threads", v.sig);
            o.violations.push(v);
            return o;
        }
    }
    o.nontrivial = c.pool.len() >= 2 && c.schedule.len() >= 4 && segs >= 2;
    o
}

fn strat(t: Tier) -> proptest::strategy::BoxedStrategy<FragCase> {
    match t {
        Tier::Quick => frag_case_strategy(40).boxed(),
        Tier::Thorough => proptest::prop_oneof![9 => frag_case_strategy(60), 1 => frag_case_strategy(600)].boxed(),
    }
}

fn run_long_frag(ctx: &Ctx) -> SubReport {
    let mk = |shard: usize, shards: usize| crate::fragcase::long_cases().into_iter().enumerate().filter(move |(i, _)| i % shards.min(6) == shard && shard < 6).map(|(_, c)| c);
    let mut r = run_enumerated(ctx, "long_sequences", &mk, &eval);
    r.exhaustive = false;
    r.notes.push("fixed list: 70 000- and 140 000-sample segments, 400 two-sample segments with empty flushes, a 66 MiB fragment between ordinary ones, 8 MiB+1 / 3 MiB / 1 MiB+1 / empty samples, 255/256/257/65 536 samples per segment".into());
    r
}
fn replay_long_frag(v: &serde_json::Value) -> Result<Outcome, String> {
    let c: crate::fragcase::FragCase = serde_json::from_value(v.clone()).map_err(|e| e.to_string())?;
    Ok(eval(&c))
}

pub fn def() -> PropertyDef {
    PropertyDef {
        fuzz_targets: &["c10_frag"],
        id: "C10",
        level: "exploration",
        rule: "op sequences over {write_video(pts,dts,bytes,sync) with sizes 0..2000 and deliberately decreasing/equal DTS, flush_segment, \
               ready_to_flush, current_fragment_duration_ms, init_segment} for 4 codecs (builder and direct config) are interpreted against a \
               queue model after every step; every segment is parsed and each sample located through tfhd/trun data_offset; a differential run \
               without the queries checks purity; non-trivial = >=2 non-empty flushes and >=2 distinct sample sizes",
        assumptions: &["DTS below 2^41 and gaps below 2^31 ticks (field-width boundaries belong to C16, panics to C12)"],
        subs: vec![
            Box::new(PSub { name: "queue_model", quick: 40000, thorough: 1200000, strat, eval } ),
            Box::new(PSub { name: "several_muxers", quick: 3000, thorough: 100000, strat: crate::props::c17::frag_pool_strategy, eval: eval_pool }),
            Box::new(ESub { name: "long_sequences", run: run_long_frag, replay: replay_long_frag }),
        ],
    }
}
