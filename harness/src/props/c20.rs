//! C20 — the CLI writes what the library writes and fails loudly otherwise (subprocess vs in-process differential).

use crate::contract::{vframe, VKind, VF};
use crate::engine::*;
use crate::exec::*;
use crate::gen::*;
use crate::reader::top_level;
use crate::scenario::valid_case_strategy;
use proptest::prelude::*;
use serde::{Deserialize, Serialize};
use std::path::{Path, PathBuf};
use std::process::{Command, Stdio};
use std::sync::atomic::{AtomicU64, Ordering};
use std::time::{Duration, Instant};

static COUNTER: AtomicU64 = AtomicU64::new(0);

fn root() -> PathBuf {
    PathBuf::from(std::env::var("VERIF_ROOT").unwrap_or_else(|_| "/verif".into()))
}

pub fn cli_path() -> PathBuf {
    root().join("harness/target/cli/debug/muxide")
}

/// Build the CLI from /repo's current working tree (never into /repo/target).
pub fn build_cli() -> Result<(), String> {
    let out = Command::new("cargo")
        .args(["build", "--offline", "--quiet", "--manifest-path", "/repo/Cargo.toml", "--bin", "muxide", "--target-dir"])
        .arg(root().join("harness/target/cli"))
        .env("CARGO_NET_OFFLINE", "true")
        .output()
        .map_err(|e| format!("cannot run cargo: {}", e))?;
    if !out.status.success() {
        return Err(format!("the CLI does not build: {}", String::from_utf8_lossy(&out.stderr)));
    }
    Ok(())
}

pub fn case_dir() -> PathBuf {
    let n = COUNTER.fetch_add(1, Ordering::Relaxed);
    let d = root().join("harness/target/scratch").join(format!("{}", std::process::id())).join(format!("c20-{}", n));
    let _ = std::fs::create_dir_all(&d);
    d
}

pub struct Proc {
    pub code: Option<i32>,
    pub stdout: String,
    pub stderr: String,
    pub timed_out: bool,
}

pub fn run_cli<S: AsRef<std::ffi::OsStr>>(args: &[S], cwd: &Path) -> Result<Proc, String> {
    run_cli_stdin(args, cwd, None)
}

/// `stdin`: bytes piped to the child's standard input (then closed); None: /dev/null
pub fn run_cli_stdin<S: AsRef<std::ffi::OsStr>>(args: &[S], cwd: &Path, stdin: Option<Vec<u8>>) -> Result<Proc, String> {
    let mut child = Command::new(cli_path())
        .args(args)
        .current_dir(cwd)
        .stdin(if stdin.is_some() { Stdio::piped() } else { Stdio::null() })
        .stdout(Stdio::piped())
        .stderr(Stdio::piped())
        .env("NO_COLOR", "1")
        .spawn()
        .map_err(|e| format!("cannot spawn the CLI: {}", e))?;
    if let Some(data) = stdin {
        if let Some(mut pipe) = child.stdin.take() {
            std::thread::spawn(move || {
                use std::io::Write;
                let _ = pipe.write_all(&data);
            });
        }
    }
    let t0 = Instant::now();
    let mut timed_out = false;
    loop {
        match child.try_wait() {
            Ok(Some(_)) => break,
            Ok(None) => {
                if t0.elapsed() > Duration::from_secs(20) {
                    let _ = child.kill();
                    timed_out = true;
                    break;
                }
                std::thread::sleep(Duration::from_millis(1));
            }
            Err(e) => return Err(format!("wait: {}", e)),
        }
    }
    let out = child.wait_with_output().map_err(|e| format!("output: {}", e))?;
    Ok(Proc { code: out.status.code(), stdout: String::from_utf8_lossy(&out.stdout).to_string(), stderr: String::from_utf8_lossy(&out.stderr).to_string(), timed_out })
}

pub fn hex_text(bytes: &[u8], style: u8) -> String {
    if (style >> 1) & 7 >= 6 {
        // whitespace may fall anywhere, also between the two digits of a byte
        let plain: String = bytes.iter().map(|b| format!("{:02x}", b)).collect();
        let mut s = String::new();
        for (i, ch) in plain.chars().enumerate() {
            s.push(ch);
            if (style >> 1) & 7 == 6 {
                if i % 15 == 14 {
                    s.push('\n'); // dump wrapped at an odd column
                }
            } else {
                s.push(' '); // one nibble per token
            }
        }
        return s;
    }
    let mut s = String::new();
    for (i, b) in bytes.iter().enumerate() {
        if style & 1 != 0 {
            s.push_str(&format!("{:02X}", b));
        } else {
            s.push_str(&format!("{:02x}", b));
        }
        match (style >> 1) & 3 {
            1 => s.push(' '),
            2 => {
                if i % 16 == 15 {
                    s.push('\n')
                }
            }
            3 => {
                if i % 3 == 0 {
                    s.push_str("\r\n\t ")
                }
            }
            _ => {}
        }
    }
    if style & 8 != 0 {
        s.push('\n');
    }
    s
}

const VNAMES: [&[&str]; 4] = [&["h264", "h.264", "avc", "H264", "AVC", "H.264", "Avc"], &["h265", "h.265", "hevc", "HEVC", "H265", "Hevc"], &["av1", "AV1", "Av1"], &["vp9", "VP9", "Vp9"]];
const ANAMES: [&[&str]; 8] = [&["none"], &["aac", "aac-lc", "AAC", "AAC-LC", "Aac"], &["aac-main", "AAC-MAIN"], &["aac-ssr", "Aac-Ssr"], &["aac-ltp"], &["aac-he", "AAC-HE"], &["aac-hev2", "AAC-HEV2"], &["opus", "OPUS", "Opus"]];

#[derive(Clone, Debug, Serialize, Deserialize, PartialEq, Eq, Hash)]
pub struct MuxCase {
    pub codec: u8,
    pub codec_name: u8,
    pub codec_given: bool,
    pub width: u32,
    pub height: u32,
    pub fps_milli: u32,
    pub audio: u8, // 0 no audio input; 1..=7 codec
    pub audio_name: u8,
    pub audio_codec_given: bool,
    pub rate: u32,
    pub channels: u8,
    pub title: Option<String>,
    pub language: Option<String>,
    pub json: bool,
    pub verbose: bool,
    pub no_progress: bool,
    pub hex_style: u8,
    pub frame_size: u16,
    /// 0 = valid; otherwise an invalid variant (see `eval_mux`)
    pub invalid: u8,
}

fn library_bytes(c: &MuxCase, vdata: &[u8], adata: Option<&[u8]>) -> Result<(Vec<u8>, u64, u64), String> {
    let codec = if c.codec_given { c.codec % 4 } else { 0 };
    let mut cfg = CCfg::basic(codec);
    cfg.width = c.width;
    cfg.height = c.height;
    cfg.fps = c.fps_milli as f64 / 1000.0;
    cfg.fast_start = None;
    if adata.is_some() {
        cfg.audio = if c.audio_codec_given { c.audio % 8 } else { 1 };
        cfg.sample_rate = c.rate;
        cfg.channels = c.channels as u16;
    }
    cfg.title = c.title.clone();
    cfg.lang = c.language.clone();
    // the CLI applies --title through with_metadata and --language through set_language: same Metadata in the end
    let mut ops = vec![COp::Video { pts: 0.0, data: vdata.to_vec(), key: true }];
    if let Some(a) = adata {
        ops.push(COp::Audio { pts: 0.0, data: a.to_vec() });
    }
    ops.push(COp::Finish(FinishKind::InPlaceStats));
    let run = run_history(&cfg, &ops);
    if let Some(p) = run.panic {
        return Err(format!("panic: {}", p));
    }
    if !run.build.is_ok() || run.results.iter().any(|r| !r.is_ok()) {
        return Err(format!("library rejects: build {} calls {:?}", run.build.short(), run.results.iter().map(|r| r.short()).collect::<Vec<_>>()));
    }
    let st = run.stats.unwrap();
    Ok((run.out, st.video_frames, st.audio_frames))
}

fn completion_reported(p: &Proc) -> bool {
    p.stdout.contains("Muxing complete") || p.stdout.contains("\"video_frames\"")
}

pub fn eval_mux(c: &MuxCase) -> Outcome {
    let mut o = Outcome::default();
    let dir = case_dir();
    let codec = if c.codec_given { c.codec % 4 } else { 0 };
    let (vdata, _, _) = vframe(codec, &VF { kind: VKind::KeyCfg, size: c.frame_size.max(1), shape: c.hex_style }, 1);
    let audio_kind = if c.audio == 0 { None } else { Some(if c.audio_codec_given { c.audio % 8 } else { 1 }) };
    let adata: Option<Vec<u8>> = audio_kind.map(|k| {
        if k == 7 {
            OpusGene { config: 4, stereo: false, code: 0, count_byte: 0, len: 12, corrupt: 0 }.build(2).0
        } else {
            AdtsGene { protection_absent: true, profile: 1, sfi: 3, chan: 1, payload_len: 14, extra: 0, fill: 0, corrupt: 0 , misc: 0}.build(2).0
        }
    });
    let vpath = dir.join("video.hex");
    let apath = dir.join("audio.hex");
    let opath = dir.join("out.mp4");
    let mut vtext = hex_text(&vdata, c.hex_style);
    let mut atext = adata.as_ref().map(|a| hex_text(a, c.hex_style >> 2));
    let mut args: Vec<String> = Vec::new();
    if c.json {
        args.push("--json".into());
    }
    if c.verbose {
        args.push("--verbose".into());
    }
    if c.no_progress {
        args.push("--no-progress".into());
    }
    args.push(if c.hex_style & 16 != 0 { "m".into() } else { "mux".into() });
    let mut video_arg = Some(vpath.to_string_lossy().to_string());
    let mut out_arg = opath.to_string_lossy().to_string();
    let mut width = Some(c.width.to_string());
    let mut height = Some(c.height.to_string());
    let mut fps = Some(format!("{}", c.fps_milli as f64 / 1000.0));
    let mut vcodec_name = if c.codec_given { Some(VNAMES[codec as usize][c.codec_name as usize % VNAMES[codec as usize].len()].to_string()) } else { None };
    let mut extra: Vec<String> = Vec::new();
    let mut write_video_file = true;
    let mut acodec_override: Option<String> = None;
    let mut expect_fail_reason = "";
    match c.invalid {
        0 => {}
        1 => {
            write_video_file = false;
            expect_fail_reason = "missing video file";
        }
        2 => {
            write_video_file = false;
            let _ = std::fs::create_dir_all(&vpath);
            expect_fail_reason = "video path is a directory";
        }
        3 => {
            vtext = String::new();
            expect_fail_reason = "empty video file";
        }
        4 => {
            vtext.push('a');
            if vtext.chars().filter(|ch| !ch.is_whitespace()).count() % 2 == 0 {
                vtext.push('b');
            }
            expect_fail_reason = "odd-length hex";
        }
        5 => {
            vtext = format!("zz{}", vtext);
            expect_fail_reason = "non-hex characters";
        }
        6 => {
            expect_fail_reason = "binary (non UTF-8) video file";
        }
        7 => {
            // frame invalid for the codec: slice without configuration
            let (bad, _, _) = vframe(codec, &VF { kind: VKind::KeyNoCfg, size: 10, shape: 0 }, 1);
            vtext = hex_text(&bad, c.hex_style);
            expect_fail_reason = "first frame without codec configuration";
        }
        8 => {
            width = Some(["0", "319", "4097", "70000", "-5", "abc"][(c.hex_style % 6) as usize].to_string());
            expect_fail_reason = "width out of range";
        }
        9 => {
            height = Some(["0", "239", "2161", "99999", "x"][(c.hex_style % 5) as usize].to_string());
            expect_fail_reason = "height out of range";
        }
        10 => {
            fps = Some(["0", "-1", "120.5", "1000", "nan", "inf", "fast"][(c.hex_style % 7) as usize].to_string());
            expect_fail_reason = "fps out of range";
        }
        11 => {
            match c.hex_style % 3 {
                0 => width = None,
                1 => height = None,
                _ => fps = None,
            }
            expect_fail_reason = "missing video parameter";
        }
        12 if adata.is_some() && c.hex_style & 8 != 0 => {
            acodec_override = Some(["mp3", "aac\u{2013}he", "aac\u{e9}", "AAC\u{ff0d}MAIN", "\u{65e5}\u{672c}\u{8a9e}", "opus\u{1f600}"][(c.hex_style as usize / 16) % 6].to_string());
            expect_fail_reason = "unknown audio codec";
        }
        12 => {
            vcodec_name = Some(["h266", "mpeg2", "", "h264x", "h26\u{ff14}", "av\u{e9}1", "vp\u{2013}9"][(c.hex_style % 7) as usize].to_string());
            expect_fail_reason = "unknown video codec";
        }
        13 => {
            extra.push("--fragmented".into());
            expect_fail_reason = "--fragmented is not supported by the CLI";
        }
        14 => {
            out_arg = match c.hex_style % 3 {
                // a device that accepts the open but fails every write (ENOSPC): the failure surfaces only when bytes are written
                1 if std::path::Path::new("/dev/full").exists() => "/dev/full".to_string(),
                2 => dir.to_string_lossy().to_string(), // a directory
                _ => dir.join("no_such_dir").join("out.mp4").to_string_lossy().to_string(),
            };
            expect_fail_reason = "unwritable output path";
        }
        15 => {
            video_arg = None;
            if adata.is_none() {
                expect_fail_reason = "no inputs";
            } else {
                expect_fail_reason = "audio without video";
            }
        }
        16 => {
            if adata.is_some() {
                atext = Some("nothex!".into());
                expect_fail_reason = "invalid audio hex";
            } else {
                vtext = "0g".into();
                expect_fail_reason = "non-hex characters";
            }
        }
        17 => {
            if adata.is_some() {
                extra.push("--sample-rate".into());
                extra.push(["0", "192001", "abc"][(c.hex_style % 3) as usize].to_string());
                expect_fail_reason = "sample rate out of range";
            } else {
                extra.push("--bogus-flag".into());
                expect_fail_reason = "unknown flag";
            }
        }
        19 => {
            // looks like hex to a lenient parser ("+f" parses as 0x0f with from_str_radix) but is not hexadecimal text
            vtext = vdata.iter().map(|b| if *b < 16 { format!("+{:x}", b) } else { format!("{:02x}", b) }).collect();
            if !vtext.contains('+') {
                vtext.push_str("+0");
            }
            expect_fail_reason = "sign characters inside the hex text";
        }
        _ => {
            if adata.is_some() {
                extra.push("--channels".into());
                extra.push(["0", "9", "300", "two"][(c.hex_style % 4) as usize].to_string());
                expect_fail_reason = "channels out of range";
            } else {
                extra.push("--width".into());
                extra.push("12x".into());
                expect_fail_reason = "malformed number";
            }
        }
    }
    if write_video_file {
        if c.invalid == 6 {
            if c.hex_style % 2 == 0 {
                let _ = std::fs::write(&vpath, [0xffu8, 0xfe, 0x00, 0x80, 0xc3, 0x28, 0x41]);
            } else {
                // perfectly good hex lines first, then a line that is not UTF-8 (a Latin-1 note, a binary trailer)
                let mut b = vtext.clone().into_bytes();
                b.extend_from_slice(b"\n");
                b.extend_from_slice(&[b'c', b'a', b'f', 0xe9, b'\n', 0xff, 0xfe, 0x00]);
                let _ = std::fs::write(&vpath, b);
            }
        } else {
            let _ = std::fs::write(&vpath, vtext.as_bytes());
        }
    }
    if let Some(t) = &atext {
        let _ = std::fs::write(&apath, t.as_bytes());
    }
    if let Some(v) = &video_arg {
        args.push("--video".into());
        args.push(v.clone());
    }
    if adata.is_some() {
        args.push("--audio".into());
        args.push(apath.to_string_lossy().to_string());
    }
    args.push("--output".into());
    args.push(out_arg.clone());
    if let Some(n) = &vcodec_name {
        args.push("--video-codec".into());
        args.push(n.clone());
    }
    for (k, v) in [("--width", &width), ("--height", &height), ("--fps", &fps)] {
        if let Some(v) = v {
            args.push(k.into());
            args.push(v.clone());
        }
    }
    let rate_overridden = c.invalid == 17 && adata.is_some();
    let channels_overridden = c.invalid >= 20 && adata.is_some();
    if let Some(k) = audio_kind {
        if let Some(name) = &acodec_override {
            args.push("--audio-codec".into());
            args.push(name.clone());
        } else if c.audio_codec_given {
            args.push("--audio-codec".into());
            args.push(ANAMES[k as usize][c.audio_name as usize % ANAMES[k as usize].len()].to_string());
        }
        if !rate_overridden {
            args.push("--sample-rate".into());
            args.push(c.rate.to_string());
        }
        if !channels_overridden {
            args.push("--channels".into());
            args.push(c.channels.to_string());
        }
    }
    if let Some(t) = &c.title {
        args.push("--title".into());
        args.push(t.clone());
    }
    if let Some(l) = &c.language {
        args.push("--language".into());
        args.push(l.clone());
    }
    args.extend(extra);
    // a third of the valid cases write to an output path that already holds a (longer) file: it must be replaced, not patched
    if c.invalid == 0 && c.frame_size % 3 == 1 {
        let _ = std::fs::write(&opath, vec![0xeeu8; 300_000]);
        o.class("output_path_holds_an_older_longer_file");
    }
    // one valid case in nine writes to an output that exists and is not a regular file: /dev/null (exit status and counts are
    // judged) or a named pipe with a reader (the bytes that arrive must be the library's file)
    let mut fifo_rx: Option<std::sync::mpsc::Receiver<Vec<u8>>> = None;
    let mut special_output = "";
    if c.invalid == 0 && c.frame_size % 9 == 5 {
        if c.hex_style & 1 == 0 && std::path::Path::new("/dev/null").exists() {
            if let Some(i) = args.iter().position(|a| a == "--output") {
                args[i + 1] = "/dev/null".into();
                special_output = "/dev/null";
            }
        } else {
            let fifo = dir.join("out.fifo");
            let made = Command::new("mkfifo").arg(&fifo).status().map(|s| s.success()).unwrap_or(false);
            if made {
                let (tx, rx) = std::sync::mpsc::channel();
                let path = fifo.clone();
                std::thread::spawn(move || {
                    let _ = tx.send(std::fs::read(&path).unwrap_or_default());
                });
                if let Some(i) = args.iter().position(|a| a == "--output") {
                    args[i + 1] = fifo.to_string_lossy().to_string();
                    special_output = "named pipe";
                    fifo_rx = Some(rx);
                }
            }
        }
        if !special_output.is_empty() {
            o.class(&format!("output_to:{}", special_output));
        }
    }
    // path spellings: the child's working directory is the case directory, so the same files can be named relatively
    // (bare file name, ./name, through a sub-directory and back) - for the output and, independently, for the inputs
    if c.invalid == 0 && special_output.is_empty() {
        let style = (c.frame_size / 2) % 8;
        let spell = |name: &str, k: u16| -> String {
            match k {
                1 => name.to_string(),
                2 => format!("./{}", name),
                _ => {
                    let _ = std::fs::create_dir_all(dir.join("sub"));
                    format!("sub/../{}", name)
                }
            }
        };
        if (1..=3).contains(&style) || style == 7 {
            if let Some(i) = args.iter().position(|a| a == "--output") {
                args[i + 1] = spell("out.mp4", if style == 7 { 1 } else { style });
                o.class("relative_output_path");
            }
        }
        if (4..=7).contains(&style) {
            for (flag, name) in [("--video", "video.hex"), ("--audio", "audio.hex")] {
                if let Some(i) = args.iter().position(|a| a == flag) {
                    args[i + 1] = spell(name, if style == 7 { 1 } else { style - 3 });
                }
            }
            o.class("relative_input_paths");
        }
    }
    // a fifth of the valid cases read the video input from a pipe (/dev/stdin): a readable input that can be read only once
    let piped = c.invalid == 0 && c.frame_size % 5 == 3 && std::path::Path::new("/dev/stdin").exists();
    if piped {
        if let Some(i) = args.iter().position(|a| a == "--video") {
            args[i + 1] = "/dev/stdin".into();
        }
        o.class("video_input_from_pipe");
    }
    let p = match run_cli_stdin(&args, &dir, if piped { Some(vtext.as_bytes().to_vec()) } else { None }) {
        Ok(p) => p,
        Err(e) => {
            o.unconstrained.push(format!("spawn problem: {}", e));
            let _ = std::fs::remove_dir_all(&dir);
            return o;
        }
    };
    if p.timed_out {
        o.fail("terminates", "terminates.mux", "the mux command did not terminate within 20 s");
        let _ = std::fs::remove_dir_all(&dir);
        return o;
    }
    if c.invalid == 0 {
        match library_bytes(c, &vdata, adata.as_deref()) {
            Err(e) => {
                // the library itself rejects this combination: the CLI must fail as well
                if p.code == Some(0) || completion_reported(&p) {
                    o.fail("exit_fail", "exit_fail.library_rejects_but_cli_succeeds", format!("{}; CLI exit {:?}", e, p.code));
                }
                o.class("library_rejects_combination");
            }
            Ok((want, vf, af)) => {
                if p.code != Some(0) {
                    o.fail(
                        "exit_ok",
                        format!("exit_ok.code={:?}", p.code),
                        format!("valid options {:?} exit {:?}: {}", &args[..args.len().min(30)], p.code, clip(&p.stderr, 300)),
                    );
                } else {
                    let produced: std::io::Result<Vec<u8>> = if special_output == "/dev/null" {
                        Ok(want.clone()) // nothing to read back: exit status and counts are what is judged
                    } else if let Some(rx) = &fifo_rx {
                        rx.recv_timeout(Duration::from_secs(10)).map_err(|_| std::io::Error::new(std::io::ErrorKind::TimedOut, "nothing arrived on the named pipe"))
                    } else {
                        std::fs::read(&opath)
                    };
                    match produced {
                        Ok(got) => {
                            if got != want {
                                let pos = got.iter().zip(want.iter()).position(|(a, b)| a != b).unwrap_or(got.len().min(want.len()));
                                let boxname = crate::reader::parse_tree(&want).ok().and_then(|t| deepest(&t, pos)).unwrap_or_else(|| "?".into());
                                o.fail(
                                    "same_file",
                                    format!("same_file.first_diff_in.{}", boxname),
                                    format!("CLI output ({} bytes) differs from the library's file ({} bytes) at byte {} in '{}'; args {:?}", got.len(), want.len(), pos, boxname, &args[..args.len().min(30)]),
                                );
                            }
                        }
                        Err(e) => o.fail("same_file", "same_file.missing_output", format!("exit 0 but the output file cannot be read: {}", e)),
                    }
                    // counts
                    let (cv, ca) = if c.json {
                        match p.stdout.find('{').and_then(|i| serde_json::from_str::<serde_json::Value>(&p.stdout[i..]).ok()) {
                            Some(v) => (v["video_frames"].as_u64(), v["audio_frames"].as_u64()),
                            None => (None, None),
                        }
                    } else {
                        let grab = |key: &str| p.stdout.lines().find(|l| l.contains(key)).and_then(|l| l.rsplit(':').next()).and_then(|x| x.trim().parse::<u64>().ok());
                        (grab("Video frames"), grab("Audio frames"))
                    };
                    if cv != Some(vf) || ca != Some(af) {
                        o.fail("counts", format!("counts.{}", if c.json { "json" } else { "text" }), format!("CLI reports {:?}/{:?} frames, library statistics say {}/{}; stdout: {}", cv, ca, vf, af, clip(&p.stdout, 300)));
                    }
                }
            }
        }
        o.nontrivial = adata.is_some() || c.title.is_some() || c.language.is_some() || c.codec_name > 0;
        if adata.is_some() {
            o.class("with_audio");
        }
        if c.title.is_some() && c.language.is_some() {
            o.class("title_and_language");
        }
        if c.json {
            o.class("json");
        }
    } else {
        if p.code == Some(0) {
            o.fail("exit_fail", format!("exit_fail.{}", expect_fail_reason.replace(' ', "_")), format!("{}: exit code 0; args {:?}", expect_fail_reason, &args[..args.len().min(30)]));
        }
        if completion_reported(&p) {
            o.fail("no_completion", format!("no_completion.{}", expect_fail_reason.replace(' ', "_")), format!("{}: completion was reported: {}", expect_fail_reason, clip(&p.stdout, 200)));
        }
        o.nontrivial = true;
        o.class(&format!("invalid:{}", expect_fail_reason));
    }
    let _ = std::fs::remove_dir_all(&dir);
    o
}

fn deepest(nodes: &[crate::reader::Node], pos: usize) -> Option<String> {
    for n in nodes {
        if pos >= n.start && pos < n.end {
            return Some(deepest(&n.kids, pos).unwrap_or_else(|| n.name()));
        }
    }
    None
}

fn mux_strategy(invalid: bool) -> BoxedStrategy<MuxCase> {
    (
        (0u8..4, 0u8..8, prop::bool::weighted(0.85)),
        (320u32..=4096, 240u32..=2160, prop_oneof![6 => Just(30000u32), 2 => Just(29970u32), 4 => 1u32..=120_000, 1 => 1u32..1000, 1 => proptest::sample::select(vec![500u32, 200, 999, 1000, 1001, 23976, 59940, 120_000])]),
        (prop_oneof![2 => Just(0u8), 3 => 1u8..8], 0u8..8, prop::bool::weighted(0.8), prop_oneof![3 => Just(48000u32), 1 => Just(44100u32), 2 => 1u32..=192_000], 1u8..=8),
        proptest::option::weighted(
            0.4,
            prop_oneof![
                4 => "[a-zA-Z0-9 ]{0,20}",
                2 => "[^\\x00-]{0,12}".prop_filter("no leading dash", |s: &String| !s.starts_with('-')),
                // long titles of mixed character widths (a log line or a fixed-size field may cut them at a byte offset)
                2 => "[a-zA-Z ]{0,3}[^\\x00-]{20,120}".prop_filter("no leading dash", |s: &String| !s.starts_with('-')),
                // values a shell-minded wrapper might "clean up": surrounding quotes, surrounding blanks, an equals sign, a trailing backslash
                1 => proptest::sample::select(vec!["\"Heroes\"", "'single'", "\"\"", "''", " padded ", "a=b", "back\\", "\"unbalanced", "$HOME", "%s%n", "line end\n", "crlf end\r\n", "cr end\r", "tab end\t", "@video.hex", "@audio.hex", "@out.mp4", "@/etc/hostname", "file:video.hex", "<video.hex", "$(cat video.hex)"]).prop_map(|s| s.to_string()),
            ],
        ),
        proptest::option::weighted(0.4, prop_oneof![3 => "[a-z]{3}", 1 => "[a-zA-Z]{1,5}", 2 => proptest::sample::select(vec!["ger", "fre", "dut", "cze", "gre", "chi", "per", "rum", "slo", "wel", "baq", "arm", "geo", "ice", "mac", "mao", "may", "tib", "alb", "bur", "scc", "scr", "mol"]).prop_map(|s| s.to_string())]),
        (any::<bool>(), any::<bool>(), any::<bool>()),
        any::<u8>(),
        1u16..60,
        if invalid { (1u8..21).boxed() } else { Just(0u8).boxed() },
    )
        .prop_map(|((codec, codec_name, codec_given), (width, height, fps_milli), (audio, audio_name, audio_codec_given, rate, channels), title, language, (json, verbose, no_progress), hex_style, frame_size, invalid)| MuxCase {
            codec,
            codec_name,
            codec_given,
            width,
            height,
            fps_milli,
            audio,
            audio_name,
            audio_codec_given,
            rate,
            channels,
            title,
            language,
            json,
            verbose,
            no_progress,
            hex_style,
            frame_size,
            invalid,
        })
        .boxed()
}
fn s_mux_valid(_: Tier) -> BoxedStrategy<MuxCase> {
    mux_strategy(false)
}
fn s_mux_invalid(_: Tier) -> BoxedStrategy<MuxCase> {
    mux_strategy(true)
}

// ------------------------------------------------------------------------------------------
// validate

#[derive(Clone, Debug, Serialize, Deserialize, PartialEq, Eq, Hash)]
pub struct ValCase {
    /// per input (video, audio): 0 not given, 1 valid hex, 2 missing file, 3 empty, 4 whitespace only, 5 odd length, 6 non-hex char,
    /// 7 binary / invalid UTF-8, 8 directory, 9 valid upper-case with mixed ASCII whitespace, 10 single byte "00", 11 '+' sign inside,
    /// 12 hex separated by non-ASCII Unicode whitespace (either verdict, but a verdict)
    pub video: u8,
    pub audio: u8,
    pub mode: u8, // 0 text, 1 --json, 2 --output report
    pub len: u8,
}

fn write_val_input(dir: &Path, name: &str, kind: u8, len: u8) -> (Option<PathBuf>, Option<bool>) {
    let p = dir.join(name);
    let bytes = filler(len.max(1) as usize, 77, 1);
    let valid = match kind {
        0 => return (None, None),
        1 => {
            let _ = std::fs::write(&p, hex_text(&bytes, 0));
            true
        }
        2 => false,
        3 => {
            let _ = std::fs::write(&p, "");
            false
        }
        4 => {
            let _ = std::fs::write(&p, " \n\t \r\n");
            false
        }
        5 => {
            let mut t = hex_text(&bytes, 0);
            t.push('f');
            let _ = std::fs::write(&p, t);
            false
        }
        6 => {
            let mut t = hex_text(&bytes, 2);
            t.push_str("zz");
            let _ = std::fs::write(&p, t);
            false
        }
        7 => {
            let _ = std::fs::write(&p, [0x30u8, 0x30, 0xff, 0xfe, 0x80, 0x00]);
            false
        }
        8 => {
            let _ = std::fs::create_dir_all(&p);
            false
        }
        9 => {
            let _ = std::fs::write(&p, hex_text(&bytes, 1 | (3 << 1) | 8));
            true
        }
        10 => {
            let _ = std::fs::write(&p, "00");
            true
        }
        12 => {
            // hex digits separated by non-ASCII Unicode whitespace (pasted from a web page / word processor): whether that
            // counts as "hexadecimal text" is left open (either verdict is accepted), but a verdict there must be
            let ws = ['\u{a0}', '\u{3000}', '\u{2028}', '\u{85}', '\u{2003}', '\u{202f}'][(len % 6) as usize];
            let t: String = bytes.iter().map(|b| format!("{:02x}{}", b, ws)).collect();
            let _ = std::fs::write(&p, t);
            true
        }
        13 => {
            // good hex lines, then a line that is not UTF-8
            let mut b = hex_text(&bytes, 2 << 1 | 8).into_bytes();
            b.extend_from_slice(&[b'\n', b'n', b'o', b't', b'e', b':', b' ', 0xe9, 0xff, b'\n']);
            let _ = std::fs::write(&p, b);
            false
        }
        _ => {
            let _ = std::fs::write(&p, "+f+f");
            false
        }
    };
    (Some(p), Some(valid))
}

pub fn eval_validate(c: &ValCase) -> Outcome {
    let mut o = Outcome::default();
    let dir = case_dir();
    let (vp, vv) = write_val_input(&dir, "v.hex", c.video % 14, c.len);
    let (ap, av) = write_val_input(&dir, "a.hex", c.audio % 14, c.len);
    let either = c.video % 14 == 12 || c.audio % 14 == 12; // kind 11 is the '+' sign case (falls into the catch-all arm)
    let mut args: Vec<String> = Vec::new();
    if c.mode % 3 == 1 {
        args.push("--json".into());
    }
    args.push(if c.len % 2 == 0 { "validate".into() } else { "v".into() });
    if let Some(p) = &vp {
        args.push("--video".into());
        args.push(p.to_string_lossy().to_string());
    }
    if let Some(p) = &ap {
        args.push("--audio".into());
        args.push(p.to_string_lossy().to_string());
    }
    let report = dir.join("report.json");
    if c.mode % 3 == 2 {
        args.push("--output".into());
        args.push(report.to_string_lossy().to_string());
    }
    let want = match (vv, av) {
        (None, None) => false,
        (a, b) => a.unwrap_or(true) && b.unwrap_or(true),
    };
    match run_cli(&args, &dir) {
        Err(e) => o.unconstrained.push(format!("spawn problem: {}", e)),
        Ok(p) => {
            if p.timed_out {
                o.fail("terminates", "terminates.validate", "validate did not terminate within 20 s");
            } else {
                let verdict: Option<bool> = match c.mode % 3 {
                    1 => p.stdout.find('{').and_then(|i| serde_json::from_str::<serde_json::Value>(&p.stdout[i..]).ok()).and_then(|v| v["valid"].as_bool()),
                    2 => std::fs::read_to_string(&report).ok().and_then(|t| serde_json::from_str::<serde_json::Value>(&t).ok()).and_then(|v| v["valid"].as_bool()),
                    _ => {
                        if p.stdout.contains("Validation successful") {
                            Some(true)
                        } else if p.stdout.contains("Validation failed") {
                            Some(false)
                        } else {
                            None
                        }
                    }
                };
                match verdict {
                    Some(v) if v == want || either => {}
                    Some(v) => o.fail(
                        "verdict",
                        format!("verdict.got={}.want={}.video{}.audio{}", v, want, c.video % 14, c.audio % 14),
                        format!("validate says valid={} but inputs are video kind {} / audio kind {} (expected {}); mode {}", v, c.video % 14, c.audio % 14, want, c.mode % 3),
                    ),
                    None => {
                        // a crash / error exit is "not valid"; only a problem when the inputs are valid
                        if either {
                            o.fail("verdict", "verdict.none_for_unicode_whitespace", format!("no verdict (crash or abort) for hex text separated by Unicode whitespace: exit {:?} stderr {}", p.code, clip(&p.stderr, 200)));
                        } else if want {
                            o.fail("verdict", "verdict.none_for_valid_inputs", format!("no verdict for valid inputs: exit {:?} stderr {}", p.code, clip(&p.stderr, 200)));
                        }
                    }
                }
            }
        }
    }
    o.nontrivial = c.video % 14 != 0 && c.audio % 14 != 0;
    o.class(&format!("mode:{}", c.mode % 3));
    let _ = std::fs::remove_dir_all(&dir);
    o
}

fn s_validate(_: Tier) -> BoxedStrategy<ValCase> {
    (0u8..14, 0u8..14, 0u8..3, 1u8..40).prop_map(|(video, audio, mode, len)| ValCase { video, audio, mode, len }).boxed()
}

// ------------------------------------------------------------------------------------------
// info

#[derive(Clone, Debug, Serialize, Deserialize, PartialEq, Eq, Hash)]
pub enum InfoInput {
    Library(crate::scenario::ValidCase),
    Bytes(Vec<u8>),
    /// a library file with one 32-bit word overwritten
    Mutated(crate::scenario::ValidCase, u16, u32),
    /// a well-formed MP4 that the library itself would not write: the boxes of a library file re-arranged and re-headed
    /// (see `foreign_bytes`): per top-level box of the result (index into the library file's boxes or an extra box,
    /// header style 0 = 32-bit size, 1 = 64-bit largesize, 2 = size 0 "to the end of the file" when it is the last box)
    Foreign(crate::scenario::ValidCase, Vec<(u8, u8)>),
}

/// Top-level boxes of the library file `lib` re-ordered, interleaved with free / skip / wide / uuid / mdat filler boxes and
/// written with 32-bit, 64-bit or (last box only) to-end-of-file size fields: still a well-formed ISO-BMFF file, as other
/// writers produce them (ISO/IEC 14496-12 4.2).
fn foreign_bytes(lib: &[u8], plan: &[(u8, u8)]) -> Option<Vec<u8>> {
    let tops = top_level(lib).ok()?;
    if tops.is_empty() {
        return None;
    }
    // the last extra is a padding box sized so that the NEXT box header starts 1..7 bytes before a multiple of 8 KiB (a reader
    // that fetches headers through a block buffer sees that header split across two blocks)
    let extras: [(&[u8; 4], usize); 7] = [(b"free", 0), (b"skip", 5), (b"wide", 0), (b"uuid", 16), (b"mdat", 33), (b"free", 300), (b"free", usize::MAX)];
    let mut out = Vec::new();
    // ftyp stays first
    out.extend_from_slice(&lib[tops[0].start..tops[0].end]);
    let n = plan.len();
    for (k, (which, style)) in plan.iter().enumerate() {
        let w = if *which == 255 { tops.len() + extras.len() - 1 } else { *which as usize % (tops.len() + extras.len()) };
        let (typ, payload): ([u8; 4], Vec<u8>) = if w < tops.len() {
            let t = &tops[w];
            if w == 0 {
                continue;
            }
            (t.typ, lib[t.start + t.hdr..t.end].to_vec())
        } else {
            let (t, len) = extras[w - tops.len()];
            let len = if len == usize::MAX {
                let j = 1 + (k + *style as usize) % 7;
                let hdr = if style % 3 == 1 { 16 } else { 8 };
                let after = out.len() + hdr;
                let boundary = (after + j + 8191) / 8192 * 8192;
                boundary - j - after
            } else {
                len
            };
            (*t, (0..len).map(|i| (i * 7 + k) as u8).collect())
        };
        let last = k + 1 == n;
        match style % 3 {
            1 => {
                out.extend_from_slice(&1u32.to_be_bytes());
                out.extend_from_slice(&typ);
                out.extend_from_slice(&(16 + payload.len() as u64).to_be_bytes());
            }
            2 if last => {
                out.extend_from_slice(&0u32.to_be_bytes());
                out.extend_from_slice(&typ);
            }
            _ => {
                out.extend_from_slice(&(8 + payload.len() as u32).to_be_bytes());
                out.extend_from_slice(&typ);
            }
        }
        out.extend_from_slice(&payload);
    }
    Some(out)
}

pub fn eval_info(c: &InfoInput) -> Outcome {
    let mut o = Outcome::default();
    let dir = case_dir();
    let (bytes, well_formed) = match c {
        InfoInput::Library(vc) => {
            let l = crate::scenario::lower(vc);
            let r = run_history(&l.cfg, &l.ops);
            if r.panic.is_some() || r.finished_at.is_none() {
                let _ = std::fs::remove_dir_all(&dir);
                return o;
            }
            (r.out, true)
        }
        InfoInput::Bytes(b) => (b.clone(), false),
        InfoInput::Foreign(vc, plan) => {
            let l = crate::scenario::lower(vc);
            let r = run_history(&l.cfg, &l.ops);
            if r.panic.is_some() || r.finished_at.is_none() {
                let _ = std::fs::remove_dir_all(&dir);
                return o;
            }
            match foreign_bytes(&r.out, plan) {
                Some(b) => (b, true),
                None => {
                    let _ = std::fs::remove_dir_all(&dir);
                    return o;
                }
            }
        }
        InfoInput::Mutated(vc, at, word) => {
            let l = crate::scenario::lower(vc);
            let r = run_history(&l.cfg, &l.ops);
            let mut b = r.out;
            if b.len() >= 8 {
                let i = (*at as usize) % (b.len() - 3);
                b[i..i + 4].copy_from_slice(&word.to_be_bytes());
            }
            (b, false)
        }
    };
    // file names: plain ASCII, non-ASCII UTF-8, and (a legal Unix file name) bytes that are not UTF-8 at all
    use std::os::unix::ffi::OsStrExt;
    let name: &[u8] = match bytes.len() % 4 {
        0 => b"vid\xe9o-latin1.mp4",
        1 => "vid\u{e9}o \u{65e5}\u{672c}.mp4".as_bytes(),
        _ => b"in.mp4",
    };
    let mut path = dir.join(std::ffi::OsStr::from_bytes(name));
    if std::fs::write(&path, &bytes).is_err() {
        // a file system that refuses such names
        path = dir.join("in.mp4");
        let _ = std::fs::write(&path, &bytes);
    }
    let args: Vec<std::ffi::OsString> = vec!["--json".into(), "info".into(), path.clone().into_os_string()];
    match run_cli(&args, &dir) {
        Err(e) => o.unconstrained.push(format!("spawn problem: {}", e)),
        Ok(p) => {
            if p.timed_out {
                o.fail("terminates", "terminates.info", format!("info did not terminate within 20 s on a {}-byte file", bytes.len()));
            } else if p.code.is_none() {
                o.fail("terminates", "terminates.info_killed_by_signal", "info was killed by a signal");
            } else if well_formed {
                let want: Vec<(String, u64, u64)> = match top_level(&bytes) {
                    Ok(t) => t.iter().map(|n| (n.name(), n.size() as u64, n.start as u64)).collect(),
                    Err(_) => vec![],
                };
                let got: Option<Vec<(String, u64, u64)>> = p.stdout.find('{').and_then(|i| serde_json::from_str::<serde_json::Value>(&p.stdout[i..]).ok()).and_then(|v| {
                    v["boxes"].as_array().map(|a| a.iter().map(|b| (b["type"].as_str().unwrap_or("").to_string(), b["size"].as_u64().unwrap_or(0), b["offset"].as_u64().unwrap_or(0))).collect())
                });
                if p.code != Some(0) || got.as_ref() != Some(&want) {
                    let kind = match c {
                        InfoInput::Foreign(..) => {
                            // which feature of the file the listing stumbles over (for the signature): the first box that
                            // is not listed as it is
                            let n_ok = got.as_ref().map(|g| g.iter().zip(want.iter()).take_while(|(a, b)| a == b).count()).unwrap_or(0);
                            let nodes = top_level(&bytes).unwrap_or_default();
                            match nodes.get(n_ok) {
                                Some(nd) if nd.hdr == 16 => ":largesize_box",
                                Some(nd) if bytes[nd.start..nd.start + 4] == [0, 0, 0, 0] => ":box_to_end_of_file",
                                _ => ":foreign_layout",
                            }
                        }
                        _ => "",
                    };
                    o.fail("info_boxes", format!("info_boxes{}", kind), format!("info lists {:?} (exit {:?}) but the top-level boxes are {:?}", got, p.code, want));
                }
            }
        }
    }
    o.nontrivial = true;
    o.class(match c {
        InfoInput::Library(_) => "library_file",
        InfoInput::Bytes(_) => "arbitrary_bytes",
        InfoInput::Mutated(..) => "mutated_library_file",
        InfoInput::Foreign(..) => "well_formed_file_of_another_writer",
    });
    let _ = std::fs::remove_dir_all(&dir);
    o
}

fn s_info(_: Tier) -> BoxedStrategy<InfoInput> {
    prop_oneof![
        3 => valid_case_strategy(4, 4).prop_map(InfoInput::Library),
        2 => proptest::collection::vec(any::<u8>(), 0..200).prop_map(InfoInput::Bytes),
        // size fields 0..7 and huge sizes at the start of the file
        2 => (0u32..12, proptest::collection::vec(any::<u8>(), 4..40)).prop_map(|(sz, mut rest)| {
            let mut v = sz.to_be_bytes().to_vec();
            v.append(&mut rest);
            InfoInput::Bytes(v)
        }),
        3 => (valid_case_strategy(3, 3), any::<u16>(), prop_oneof![0u32..9, any::<u32>(), Just(u32::MAX)]).prop_map(|(c, a, w)| InfoInput::Mutated(c, a, w)),
        3 => (valid_case_strategy(3, 3), proptest::collection::vec((prop_oneof![3 => 0u8..13, 1 => Just(255u8)], 0u8..3), 1..7)).prop_map(|(c, plan)| InfoInput::Foreign(c, plan)),
    ]
    .boxed()
}

/// All sub-checks need the binary: build it once per process before the first evaluation.
pub fn ensure_built() -> Result<(), String> {
    use std::sync::OnceLock;
    static BUILT: OnceLock<Result<(), String>> = OnceLock::new();
    BUILT.get_or_init(build_cli).clone()
}

macro_rules! guarded_eval {
    ($name:ident, $inner:ident, $t:ty) => {
        pub fn $name(c: &$t) -> Outcome {
            if let Err(e) = ensure_built() {
                eprintln!("INFRA: {}", e);
                std::process::exit(2);
            }
            $inner(c)
        }
    };
}
guarded_eval!(g_mux, eval_mux, MuxCase);
guarded_eval!(g_validate, eval_validate, ValCase);
guarded_eval!(g_info, eval_info, InfoInput);

pub fn def() -> PropertyDef {
    PropertyDef {
        fuzz_targets: &[],
        id: "C20",
        level: "exploration",
        rule: "the muxide binary is built from /repo's working tree and run as a subprocess (20 s deadline) on generated command lines: codec names and \
               aliases in mixed case, width 320..4096, height 240..2160, fps (0,120], audio codec names, rate 1..192000, channels 1..8, title, language, \
               --json/--verbose/--no-progress, hex input files (upper/lower case, ASCII whitespace) of a valid keyframe / audio frame; the output file and \
               the reported frame counts are compared with an in-process library run of the same settings. Invalid side: 20 classes (missing / directory / \
               empty / odd / non-hex / binary input, frame invalid for the codec, out-of-range or missing parameters, unknown codec, --fragmented, \
               unwritable output, ...) must exit non-zero and never report completion. validate: 12 x 12 input classes x 3 output modes against the \
               stated verdict rule. info: library files (listed boxes = reader's top-level boxes), arbitrary bytes, size words 0..11, mutated files \
               (termination). Non-trivial: mux case with audio / metadata / alias; every invalid, validate (two inputs) and info case",
        assumptions: &["--creation-time is not among the listed options and is not generated", "ASCII whitespace only in hex files"],
        subs: vec![
            Box::new(PSub { name: "mux_valid", quick: 600, thorough: 10000, strat: s_mux_valid, eval: g_mux }),
            Box::new(PSub { name: "mux_invalid", quick: 600, thorough: 8000, strat: s_mux_invalid, eval: g_mux }),
            Box::new(PSub { name: "validate", quick: 576, thorough: 5000, strat: s_validate, eval: g_validate }),
            Box::new(PSub { name: "info", quick: 400, thorough: 5000, strat: s_info, eval: g_info }),
        ],
    }
}
