//! C16 — no numeric field is silently truncated; declared durations match the tables.

use crate::engine::*;
use crate::exec::{run_history, CCfg, COp, FinishKind};
use crate::frag::*;
use crate::gen::*;
use crate::mp4check::*;
use crate::reader::{parse_movie, parse_segment, ConfigRecord};
use crate::scenario::*;
use proptest::collection::vec;
use proptest::prelude::*;
use serde::{Deserialize, Serialize};

/// The exact numeric expectations for a progressive file produced from accepted samples.
fn check_numbers(o: &mut Outcome, l: &Lowered, run: &crate::exec::Run, tag: &str) {
    let (v, a) = accepted(l, run);
    let p = match parse(&run.out) {
        Ok(p) => p,
        Err(e) if e.starts_with("counts: stts") || e.starts_with("counts: ctts") => {
            // the timing table does not describe every sample: the declared durations cannot match the tables
            let which = &e[8..12];
            o.fail("tables", format!("tables.{}_coverage{}", which, tag), format!("{} (the durations declared in mdhd/tkhd/mvhd cannot be consistent with such a table)", e));
            return;
        }
        Err(_) => {
            o.class("unparseable_not_judged(C02)");
            return;
        }
    };
    let m = &p.movie;
    let mut track_ms: Vec<(bool, u128, u128)> = Vec::new(); // (is_video, floor ms, ceil ms)
    for (is_video, exp) in [(true, &v), (false, &a)] {
        let t = match if is_video { video_track(m) } else { audio_track(m) } {
            Some(t) => t,
            None => continue,
        };
        let name = if is_video { "video" } else { "audio" };
        if t.samples.len() != exp.len() {
            o.class("count_mismatch_not_judged(C01)");
            return;
        }
        let n = exp.len();
        let mut total: u128 = 0;
        let any_tie = exp.iter().any(|e| e.tie);
        for i in 0..n {
            let want_d: u128 = if i + 1 < n {
                (exp[i + 1].dts - exp[i].dts) as u128
            } else if n >= 2 {
                (exp[i].dts - exp[i - 1].dts) as u128
            } else {
                t.samples[i].duration as u128 // lone sample: unknowable, take the file's
            };
            if any_tie {
                o.unconstrained.push("half_tick_tie".into());
                return;
            }
            if t.samples[i].duration as u128 != want_d {
                o.fail("stts", format!("stts.delta.{}.{}", name, tag), format!("{} sample {} duration {} but exact value {}", name, i, t.samples[i].duration, want_d));
                return;
            }
            total += want_d;
            let want_c = exp[i].pts as i128 - exp[i].dts as i128;
            if t.samples[i].cts as i128 != want_c {
                o.fail(
                    "ctts",
                    format!("ctts.offset.{}{}", if want_c.unsigned_abs() > i32::MAX as u128 { "beyond_i32" } else { "within_i32" }, tag),
                    format!("{} sample {} composition offset {} in the file but pts-dts = {} exactly", name, i, t.samples[i].cts, want_c),
                );
                return;
            }
            if t.samples[i].size as usize != exp[i].bytes.len() {
                o.fail("stsz", format!("stsz.size.{}", tag), format!("{} sample {} size {} but {} bytes stored", name, i, t.samples[i].size, exp[i].bytes.len()));
                return;
            }
            // chunk offsets: the position derived from stco/stsc/stsz must be where the sample's bytes are
            let off = t.samples[i].offset as usize;
            if off.checked_add(exp[i].bytes.len()).map(|e| e > run.out.len()).unwrap_or(true) || run.out[off..off + exp[i].bytes.len()] != exp[i].bytes[..] {
                o.fail("stco", format!("stco.offset.{}{}", name, tag), format!("{} sample {}: chunk offset tables give position {} but its bytes are not there", name, i, off));
                return;
            }
        }
        if t.mdhd.duration as u128 != total {
            o.fail(
                "mdhd_duration",
                format!("mdhd_duration.{}.{}{}", name, if total > u32::MAX as u128 { "beyond_u32" } else { "within_u32" }, tag),
                format!("{} mdhd duration {} (version {}) but the sample durations sum to {}", name, t.mdhd.duration, t.mdhd.version, total),
            );
        }
        let ts = m.mvhd.timescale as u128;
        let lo = total * ts / 90000;
        let hi = (total * ts + 89999) / 90000;
        track_ms.push((is_video, lo, hi));
        let tkd = t.tkhd.duration as u128;
        if !(tkd >= lo && tkd <= hi) {
            o.fail(
                "tkhd_duration",
                format!("tkhd_duration.{}.got={}{}", name, if tkd == 0 { "0" } else { "other" }, tag),
                format!("{} tkhd duration {} but the track lasts {}..{} movie units", name, tkd, lo, hi),
            );
        }
    }
    if !track_ms.is_empty() {
        let lo = track_ms.iter().map(|x| x.1).max().unwrap();
        let hi = track_ms.iter().map(|x| x.2).max().unwrap();
        let got = m.mvhd.duration as u128;
        if !(got >= lo && got <= hi) {
            let longest_is_audio = track_ms.iter().any(|x| !x.0 && x.2 == hi) && track_ms.iter().any(|x| x.0 && x.2 < hi);
            o.fail(
                "mvhd_duration",
                format!("mvhd_duration.{}{}", if longest_is_audio { "audio_longer_than_video" } else { "other" }, tag),
                format!("mvhd duration {} but the longest track lasts {}..{} movie units (tracks: {:?})", got, lo, hi, track_ms),
            );
        }
    }
}

// ---- (a) durations around 2^32 ticks, cts around 2^31, audio longer than video: ValidCase based

pub fn eval_timeline(c: &ValidCase) -> Outcome {
    let mut o = Outcome::default();
    let l = lower(c);
    let run = run_history(&l.cfg, &l.ops);
    if let Some(p) = &run.panic {
        o.aborted_by_panic = Some(p.clone());
        return o;
    }
    let (v, a) = accepted(&l, &run);
    let total_v: u128 = if v.len() >= 2 { (v[v.len() - 1].dts - v[0].dts) as u128 + (v[v.len() - 1].dts - v[v.len() - 2].dts) as u128 } else { 0 };
    let total_a: u128 = if a.len() >= 2 { (a[a.len() - 1].dts - a[0].dts) as u128 + (a[a.len() - 1].dts - a[a.len() - 2].dts) as u128 } else { 0 };
    let max_cts = v.iter().map(|s| (s.pts as i128 - s.dts as i128).unsigned_abs()).max().unwrap_or(0);
    let near = |x: u128, lim: u128| x + 2 >= lim && x <= lim + 2;
    o.nontrivial = near(total_v, 1 << 32) || near(total_a, 1 << 32) || near(max_cts, 1 << 31) || total_a > total_v || v.len() + a.len() > 1024;
    if total_v > u32::MAX as u128 || total_a > u32::MAX as u128 {
        o.class("total_duration_beyond_u32");
    }
    if max_cts > i32::MAX as u128 {
        o.class("cts_beyond_i32");
    }
    if total_a > total_v && !v.is_empty() {
        o.class("audio_longer_than_video");
    }
    if run.finished_at.is_none() {
        // an error is fine iff something really does not fit
        let fits = total_v <= u32::MAX as u128 && total_a <= u32::MAX as u128 && max_cts <= i32::MAX as u128;
        if fits && run.results.last().map(|r| r.is_err()).unwrap_or(false) {
            o.fail("spurious_error", "spurious_error.finish", format!("finish failed ({}) although every derived value fits its field", run.results.last().unwrap().short()));
        }
        o.class("finish_returned_error");
        return o;
    }
    // some call may have been rejected for not fitting (then the sample simply is not there) - fine.
    check_numbers(&mut o, &l, &run, "");
    o
}

/// Reordered streams whose total decode duration / one decode gap lands within a composition offset of the 32-bit limits
/// (a guard that mixes up presentation and decode times is off by exactly such an offset).
fn boundary_reorder_strategy() -> BoxedStrategy<ValidCase> {
    (valid_case_strategy(0, 0), 0u8..2, -3i64..6003, proptest::sample::select(vec![0i64, 3000, 6000, -3000, 1, -1]), proptest::sample::select(vec![0i64, -3000, 3000, -1]), 3usize..6)
        .prop_map(|(mut c, which, over, first_cts, late_cts, n)| {
            c.fps_mode = None;
            c.const_rate = None;
            c.rejects.clear();
            c.reorder = true;
            c.cfg.audio = 0;
            c.v_start = 1 << 33;
            let g = |ddts: u32, cts: i64| VGene { ddts, cts, key: false, size: 9, shape: 0, jit: 0, big: 0 };
            let limit = u32::MAX as i64;
            c.video = if which == 0 {
                // total = sum of the n-1 deltas + the last delta again = 2^32 - 1 + over
                let last = 3000i64;
                let rest = limit + over - 2 * last;
                let mut v = vec![g(0, first_cts)];
                let per = rest / (n as i64 - 2).max(1);
                for i in 0..(n - 2) {
                    let d = if i == 0 { rest - per * (n as i64 - 3).max(0) } else { per };
                    v.push(g(d.clamp(1, limit) as u32, if i % 2 == 0 { late_cts } else { 0 }));
                }
                v.push(g(last as u32, 0));
                v
            } else {
                // one decode gap of 2^32 - 1 + over in front of a frame with a (negative) composition offset
                let mut v = vec![g(0, 0), g(3000, 3000), g(3000, -3000)];
                v.push(g((limit + over).clamp(1, limit) as u32, late_cts));
                v.push(g(3000, 0));
                v
            };
            c
        })
        .boxed()
}

pub fn timeline_strategy(t: Tier) -> BoxedStrategy<ValidCase> {
    prop_oneof![4 => plain_timeline_strategy(t), 1 => boundary_reorder_strategy()].boxed()
}

fn plain_timeline_strategy(_t: Tier) -> BoxedStrategy<ValidCase> {
    let edge = prop_oneof![
        3 => (u32::MAX - 3)..=u32::MAX,
        2 => (1u32 << 31) - 2..(1u32 << 31) + 3,
        2 => Just(3000u32),
        1 => 1u32..100000,
    ];
    (valid_case_strategy(4, 4), vec(edge.clone(), 0..5), vec(edge, 0..5), vec(prop_oneof![Just(0i64), ((1i64 << 31) - 3)..((1i64 << 31) + 3), (-(1i64 << 31) - 3)..(-(1i64 << 31) + 3), -5i64..5], 0..5), any::<bool>())
        .prop_map(|(mut c, vg, ag, cts, reorder)| {
            c.fps_mode = None;
            c.const_rate = None;
            c.rejects.clear();
            for (g, d) in c.video.iter_mut().zip(vg.iter()) {
                g.ddts = *d;
            }
            for (g, d) in c.audio.iter_mut().zip(ag.iter()) {
                g.dpts = *d;
            }
            if reorder {
                c.reorder = true;
                for (g, x) in c.video.iter_mut().zip(cts.iter()) {
                    g.cts = *x;
                }
                // leave room below for negative offsets
                c.v_start = c.v_start.max(1 << 33);
            }
            c
        })
        .boxed()
}

// ---- (b) parameter sets / dims / rates / channels around their field limits (progressive)

#[derive(Clone, Debug, Serialize, Deserialize, PartialEq, Eq, Hash)]
pub struct FieldCase {
    pub codec: u8,
    pub width: u32,
    pub height: u32,
    pub audio: u8,
    pub rate: u32,
    pub channels: u16,
    /// total length of the SPS NAL (header included) for H.264/H.265, 0 = ordinary
    pub sps_len: u32,
    pub pps_len: u32,
    pub fragmented: bool,
    pub via_builder: bool,
}

fn big_nal(hevc: bool, typ: u8, total: usize) -> Vec<u8> {
    let mut n = Vec::with_capacity(total);
    if hevc {
        n.push(typ << 1);
        n.push(1);
    } else {
        n.push(0x60 | typ);
    }
    while n.len() < total {
        n.push(0x11 + (n.len() % 200) as u8);
    }
    n.truncate(total.max(1));
    n
}

pub fn eval_fields(c: &FieldCase) -> Outcome {
    let mut o = Outcome::default();
    let codec = c.codec % 2; // H.264 / H.265 carry parameter sets
    let hevc = codec == 1;
    let sps = big_nal(hevc, if hevc { 33 } else { 7 }, if c.sps_len == 0 { 12 } else { c.sps_len as usize });
    let pps = big_nal(hevc, if hevc { 34 } else { 8 }, if c.pps_len == 0 { 5 } else { c.pps_len as usize });
    let vps = big_nal(true, 32, 7);
    let near16 = |x: u32| x + 3 >= 65536 && x <= 65539;
    o.nontrivial = near16(c.width) || near16(c.height) || near16(c.sps_len) || near16(c.pps_len) || near16(c.rate) || near16(c.channels as u32) || (c.channels >= 254 && c.channels <= 258);
    let fits_dims = c.width <= 65535 && c.height <= 65535;
    let fits_psets = sps.len() <= 65535 && pps.len() <= 65535;
    if c.fragmented {
        let f = FCfg {
            codec,
            width: c.width,
            height: c.height,
            sps: sps.clone(),
            pps: pps.clone(),
            vps: vps.clone(),
            av1: vec![],
            vp9: Vp9Lite { width: 0, height: 0, profile: 0, bit_depth: 8, color_space: 0, transfer_function: 0, matrix_coefficients: 0, level: 0, full_range_flag: 0 },
            via_builder: c.via_builder,
            timescale: 90000,
            frag_ms: 2000,
            stray: 0,
        };
        let run = run_frag(&f, &[FOp::Init]);
        if let Some(p) = &run.panic {
            o.aborted_by_panic = Some(p.clone());
            return o;
        }
        if !run.built {
            if fits_dims && fits_psets {
                o.fail("spurious_error", "spurious_error.new_with_fragment", format!("builder failed ({:?}) although everything fits", run.build_err));
            }
            o.class("builder_returned_error");
            return o;
        }
        let init = match run.results.first() {
            Some(FRes::Init(b)) => b,
            _ => return o,
        };
        let m = match parse_movie(init) {
            Ok((_, m)) => m,
            Err(_) => {
                o.class("unparseable_not_judged(C02)");
                return o;
            }
        };
        let t = &m.tracks[0];
        check_entry(&mut o, t, c, &sps, &pps, "fragmented");
        return o;
    }
    let mut cfg = CCfg::basic(codec);
    cfg.width = c.width;
    cfg.height = c.height;
    cfg.audio = c.audio % 8;
    cfg.sample_rate = c.rate;
    cfg.channels = c.channels;
    let mut frame = Vec::new();
    for n in [if hevc { Some(&vps) } else { None }, Some(&sps), Some(&pps)].into_iter().flatten() {
        frame.extend_from_slice(&[0, 0, 0, 1]);
        frame.extend_from_slice(n);
    }
    frame.extend_from_slice(&[0, 0, 0, 1]);
    frame.extend_from_slice(&big_nal(hevc, if hevc { 19 } else { 5 }, 30));
    let ops = vec![COp::Video { pts: 0.0, data: frame, key: true }, COp::Finish(FinishKind::InPlace)];
    let run = run_history(&cfg, &ops);
    if let Some(p) = &run.panic {
        o.aborted_by_panic = Some(p.clone());
        return o;
    }
    let any_err = !run.build.is_ok() || run.results.iter().any(|r| r.is_err());
    if any_err {
        let fits_audio = true; // the audio fields are only written at finish; an error there is judged below
        if fits_dims && fits_psets && fits_audio && c.rate <= 65535 && c.channels <= 255 {
            let which = if !run.build.is_ok() { run.build.short() } else { run.results.iter().find(|r| r.is_err()).unwrap().short() };
            o.fail("spurious_error", "spurious_error.progressive", format!("{} although every value fits its field", which));
        }
        o.class("call_returned_error");
        return o;
    }
    let m = match parse_movie(&run.out) {
        Ok((_, m)) => m,
        Err(_) => {
            o.class("unparseable_not_judged(C02)");
            return o;
        }
    };
    if let Some(t) = video_track(&m) {
        check_entry(&mut o, t, c, &sps, &pps, "progressive");
    }
    if let Some(t) = audio_track(&m) {
        let e = &t.entry;
        if e.channels != c.channels {
            o.fail("channels", "channels.sample_entry", format!("channelcount {} but configured {}", e.channels, c.channels));
        }
        if cfg.audio == 7 {
            if let ConfigRecord::Dops { payload } = &e.config {
                if payload.len() >= 2 && payload[1] as u16 != c.channels {
                    o.fail("channels", format!("channels.dOps.{}", if c.channels > 255 { "beyond_u8" } else { "within_u8" }), format!("dOps OutputChannelCount {} but configured {}", payload[1], c.channels));
                }
            }
        } else {
            let want = (c.rate as u64) << 16;
            if e.samplerate_16_16 as u64 != want {
                o.fail(
                    "samplerate",
                    format!("samplerate.16_16.{}", if c.rate > 65535 { "beyond_u16" } else { "within_u16" }),
                    format!("sample entry rate field {:#010x} = {} Hz but configured {} Hz", e.samplerate_16_16, e.samplerate_16_16 >> 16, c.rate),
                );
            }
        }
    }
    o
}

fn check_entry(o: &mut Outcome, t: &crate::reader::Track, c: &FieldCase, sps: &[u8], pps: &[u8], ctx: &str) {
    let e = &t.entry;
    if e.width as u32 != c.width || e.height as u32 != c.height {
        o.fail(
            "dims",
            format!("dims.sample_entry.{}.{}", if c.width > 65535 || c.height > 65535 { "beyond_u16" } else { "within_u16" }, ctx),
            format!("sample entry {}x{} but configured {}x{}", e.width, e.height, c.width, c.height),
        );
    }
    // tkhd 16.16 (progressive tkhd sits 4 bytes late: judged through the shifted decoder by C19; here only when in place)
    if t.tkhd.payload_len == 84 && ((t.tkhd.width as u64) != (c.width as u64) << 16 || (t.tkhd.height as u64) != (c.height as u64) << 16) {
        o.fail(
            "dims",
            format!("dims.tkhd.{}.{}", if c.width > 65535 || c.height > 65535 { "beyond_u16" } else { "within_u16" }, ctx),
            format!("tkhd {:#010x}x{:#010x} but configured {}x{}", t.tkhd.width, t.tkhd.height, c.width, c.height),
        );
    }
    let (gs, gp): (Option<Vec<u8>>, Option<Vec<u8>>) = match &e.config {
        ConfigRecord::Avc { sps, pps, .. } => (sps.first().cloned(), pps.first().cloned()),
        ConfigRecord::Hevc { arrays, .. } => (
            arrays.iter().find(|(b, _)| b & 0x3f == 33).and_then(|(_, n)| n.first().cloned()),
            arrays.iter().find(|(b, _)| b & 0x3f == 34).and_then(|(_, n)| n.first().cloned()),
        ),
        _ => (None, None),
    };
    let bad = e.config_err.is_some() || gs.as_deref() != Some(sps) || gp.as_deref() != Some(pps);
    if bad {
        let big = sps.len() > 65535 || pps.len() > 65535;
        o.fail(
            "pset_len",
            format!("pset_len.{}.{}", if big { "beyond_u16" } else { "within_u16" }, ctx),
            format!(
                "parameter sets in the record have lengths {:?}/{:?} (decode error {:?}) but SPS is {} and PPS {} bytes",
                gs.as_ref().map(|x| x.len()),
                gp.as_ref().map(|x| x.len()),
                e.config_err,
                sps.len(),
                pps.len()
            ),
        );
    }
}

fn edge16() -> impl Strategy<Value = u32> {
    prop_oneof![3 => 65533u32..65540, 1 => Just(0u32), 1 => 1u32..300, 1 => any::<u32>()]
}

pub fn fields_strategy(_t: Tier) -> BoxedStrategy<FieldCase> {
    (
        0u8..2,
        prop_oneof![3 => Just(640u32), 2 => 65533u32..65540, 1 => any::<u32>()],
        prop_oneof![3 => Just(480u32), 2 => 65533u32..65540, 1 => any::<u32>()],
        0u8..8,
        prop_oneof![2 => Just(48000u32), 1 => Just(88200u32), 1 => Just(96000u32), 2 => 65533u32..65540, 1 => 1u32..400000],
        prop_oneof![3 => 1u16..9, 2 => 253u16..260, 1 => 65530u16..=65535],
        edge16(),
        edge16(),
        any::<bool>(),
        any::<bool>(),
    )
        .prop_map(|(codec, width, height, audio, rate, channels, sps_len, pps_len, fragmented, via_builder)| FieldCase {
            codec,
            width,
            height,
            audio,
            rate,
            channels,
            sps_len: if sps_len > 200_000 { 12 } else { sps_len },
            pps_len: if pps_len > 200_000 { 5 } else { pps_len },
            fragmented,
            via_builder,
        })
        .boxed()
}

// ---- (c) fragmented: DTS gaps around 2^32, |pts-dts| around 2^31

#[derive(Clone, Debug, Serialize, Deserialize, PartialEq, Eq, Hash)]
pub struct FragNum {
    pub start: u64,
    pub gaps: Vec<u64>,
    pub cts: Vec<i64>,
}

pub fn eval_fragnum(c: &FragNum) -> Outcome {
    let mut o = Outcome::default();
    let f = FCfg {
        codec: 0,
        width: 640,
        height: 480,
        sps: vec![0x67, 0x42, 0, 0x1e],
        pps: vec![0x68, 0xce],
        vps: vec![],
        av1: vec![],
        vp9: Vp9Lite { width: 0, height: 0, profile: 0, bit_depth: 8, color_space: 0, transfer_function: 0, matrix_coefficients: 0, level: 0, full_range_flag: 0 },
        via_builder: false,
        timescale: 90000,
        frag_ms: 2000,
        stray: 0,
    };
    let mut ops = Vec::new();
    let mut dts = c.start;
    let mut samples = Vec::new();
    for (i, g) in std::iter::once(&0u64).chain(c.gaps.iter()).enumerate() {
        dts = dts.saturating_add(*g);
        let ct = c.cts.get(i).copied().unwrap_or(0);
        let pts = if ct >= 0 { dts.saturating_add(ct as u64) } else { dts.saturating_sub((-ct) as u64) };
        samples.push((pts, dts));
        ops.push(FOp::Write { pts, dts, data: vec![0x11; 5 + i], sync: i == 0 });
    }
    ops.push(FOp::Flush);
    let run = run_frag(&f, &ops);
    if let Some(p) = &run.panic {
        o.aborted_by_panic = Some(p.clone());
        return o;
    }
    let max_gap = c.gaps.iter().copied().max().unwrap_or(0);
    let max_cts = samples.iter().map(|(p, d)| (*p as i128 - *d as i128).unsigned_abs()).max().unwrap_or(0);
    let near = |x: u128, lim: u128| x + 2 >= lim && x <= lim + 2;
    o.nontrivial = near(max_gap as u128, 1 << 32) || near(max_cts, 1 << 31);
    let accepted: Vec<(u64, u64)> = samples.iter().zip(run.results.iter()).filter(|(_, r)| matches!(r, FRes::WriteOk)).map(|(s, _)| *s).collect();
    let seg = match run.results.last() {
        Some(FRes::Flush(Some(b))) => b,
        _ => return o,
    };
    let s = match parse_segment(seg, None) {
        Ok(s) => s,
        Err(_) => {
            o.class("unparseable_not_judged(C02)");
            return o;
        }
    };
    if s.samples.len() != accepted.len() {
        o.class("count_mismatch_not_judged(C10)");
        return o;
    }
    for i in 0..accepted.len() {
        if i + 1 < accepted.len() {
            let want = (accepted[i + 1].1 - accepted[i].1) as u128;
            if s.samples[i].duration as u128 != want {
                o.fail(
                    "trun_duration",
                    format!("trun_duration.{}", if want > u32::MAX as u128 { "beyond_u32" } else { "within_u32" }),
                    format!("sample {} duration {} but the decode times differ by {}", i, s.samples[i].duration, want),
                );
                return o;
            }
        }
        let want = accepted[i].0 as i128 - accepted[i].1 as i128;
        if s.samples[i].cts as i128 != want {
            o.fail(
                "trun_cts",
                format!("trun_cts.{}", if want.unsigned_abs() > i32::MAX as u128 { "beyond_i32" } else { "within_i32" }),
                format!("sample {} composition offset {} but pts-dts = {}", i, s.samples[i].cts, want),
            );
            return o;
        }
    }
    if s.base_decode_time != accepted.first().map(|x| x.1).unwrap_or(0) && s.tfdt_version == 0 {
        o.fail("tfdt", "tfdt.truncated", "32-bit tfdt cannot hold the decode time");
    }
    o
}

pub fn fragnum_strategy(_t: Tier) -> BoxedStrategy<FragNum> {
    (
        prop_oneof![Just(0u64), (1u64 << 33)..(1u64 << 34), (1u64 << 40)..(1u64 << 41)],
        vec(prop_oneof![3 => ((1u64 << 32) - 3)..((1u64 << 32) + 3), 2 => Just(3000u64), 1 => 0u64..100000], 1..5),
        vec(prop_oneof![2 => Just(0i64), 2 => ((1i64 << 31) - 3)..((1i64 << 31) + 3), 2 => (-(1i64 << 31) - 3)..(-(1i64 << 31) + 3), 1 => -5000i64..5000], 0..6),
    )
        .prop_map(|(start, gaps, cts)| FragNum { start, gaps, cts })
        .boxed()
}

// ---- (d) timestamps beyond 2^53 / 2^63 ticks

#[derive(Clone, Debug, Serialize, Deserialize, PartialEq, Eq, Hash)]
pub struct HugeTs {
    pub exp2: u8,
    pub frac: u16,
    pub audio: bool,
}

pub fn eval_huge(c: &HugeTs) -> Outcome {
    let mut o = Outcome::default();
    // seconds value whose tick count is about 2^exp2
    let ticks = 2f64.powi(c.exp2 as i32) * (1.0 + c.frac as f64 / 65536.0);
    let secs = ticks / 90000.0;
    let mut cfg = CCfg::basic(0);
    if c.audio {
        cfg.audio = 1;
    }
    let key = AnnexBFrame {
        nals: vec![
            NalGene { typ: 7, len: 6, fill: 0, sc4: true, aux: 3 },
            NalGene { typ: 8, len: 3, fill: 0, sc4: true, aux: 3 },
            NalGene { typ: 5, len: 20, fill: 0, sc4: true, aux: 3 },
        ],
        lead_zeros: 0,
        trail_zeros: 0,
    }
    .build(false, 1)
    .0;
    let ops = vec![COp::Video { pts: secs, data: key, key: true }, COp::Finish(FinishKind::InPlaceStats)];
    let run = run_history(&cfg, &ops);
    if let Some(p) = &run.panic {
        o.aborted_by_panic = Some(p.clone());
        return o;
    }
    o.nontrivial = c.exp2 >= 63;
    let exact = crate::model::ticks_exact(secs);
    if run.results[0].is_err() {
        if !exact.huge && exact.tick < (1u64 << 53) {
            o.fail("spurious_error", "spurious_error.timestamp", format!("timestamp {} s ({} ticks) rejected although it is exactly representable", secs, exact.tick));
        }
        o.class("rejected");
        return o;
    }
    // accepted: the tick value used must be the exact one; observable through stats.duration (end = pts + 0)
    if let Some(st) = run.stats {
        let got = st.duration_secs() * 90000.0;
        if c.exp2 >= 64 {
            o.fail(
                "timestamp_range",
                "timestamp_range.saturated_beyond_u64_ticks",
                format!("a timestamp of {:e} s (2^{} ticks, beyond any 64-bit tick counter) was accepted; reported end {:e} ticks", secs, c.exp2, got),
            );
        }
    }
    o
}

pub fn huge_strategy(_t: Tier) -> BoxedStrategy<HugeTs> {
    (prop_oneof![2 => 50u8..56, 2 => 60u8..70, 1 => 70u8..200], any::<u16>(), any::<bool>()).prop_map(|(exp2, frac, audio)| HugeTs { exp2, frac, audio }).boxed()
}

// ---- (e) the 4 GiB limits: mdat size field and 32-bit chunk offsets

#[derive(Clone, Debug, Serialize, Deserialize, PartialEq, Eq, Hash)]
pub struct LimitCase {
    pub fast_start: bool,
    pub audio: bool,
    /// total media payload = 2^32 - below bytes
    pub below: u32,
    /// true: the recording ends with small samples (their START offsets lie beyond 2^32 in a fast-start file);
    /// false: it ends with a 64 MiB sample (only its end crosses 2^32)
    #[serde(default)]
    pub small_tail: bool,
}

pub fn limit_cases(t: Tier) -> Vec<LimitCase> {
    let mut v = vec![
        // mdat payload of 2^32 - 4 bytes: the 8-byte header no longer fits the 32-bit box size (moov at the end)
        LimitCase { fast_start: false, audio: false, below: 4, small_tail: false },
        // mdat box fits (8 + payload = 2^32 - 101) but ftyp + moov in front push the last chunk offsets beyond 2^32
        LimitCase { fast_start: true, audio: true, below: 109, small_tail: true },
        // moov at the end with audio (one chunk per sample): 8 + payload = 2^32 - 1 fits the mdat box exactly, the last chunk
        // offsets do not fit 32 bits (found fix e4adbc3: a u32 cursor)
        LimitCase { fast_start: false, audio: true, below: 9, small_tail: true },
    ];
    if t == Tier::Thorough {
        v.push(LimitCase { fast_start: true, audio: true, below: 109, small_tail: false });
        v.push(LimitCase { fast_start: false, audio: true, below: 9, small_tail: false }); // 8 + payload = 2^32 - 1: fits exactly
        v.push(LimitCase { fast_start: false, audio: true, below: 8, small_tail: false }); // one byte too many
        v.push(LimitCase { fast_start: true, audio: false, below: 4000, small_tail: true }); // single chunk: everything fits
        v.push(LimitCase { fast_start: true, audio: true, below: 1 << 20, small_tail: true }); // comfortably below: must succeed
    }
    v
}

static LIMIT_LOCK: std::sync::Mutex<()> = std::sync::Mutex::new(());

pub fn eval_limit(c: &LimitCase) -> Outcome {
    use crate::exec::{build_muxer, guarded};
    let _serial = LIMIT_LOCK.lock().unwrap_or_else(|e| e.into_inner()); // ~9 GiB per case: one at a time
    let mut o = Outcome::default();
    o.nontrivial = true;
    struct Shared(std::sync::Arc<std::sync::Mutex<Vec<u8>>>);
    impl std::io::Write for Shared {
        fn write(&mut self, b: &[u8]) -> std::io::Result<usize> {
            self.0.lock().unwrap().extend_from_slice(b);
            Ok(b.len())
        }
        fn flush(&mut self) -> std::io::Result<()> {
            Ok(())
        }
    }
    let target: u64 = (1u64 << 32) - c.below as u64;
    let n_frames = 64u64;
    let key_hdr = crate::gen::Vp9Key { profile: 0, byte4: 0, sync: 0, width: 320, height: 240, wlen: 2, hlen: 2, render: None, color: Some((0, None)), tail: 0 }.build(1).0;
    let delta_hdr = vec![0x49u8, 0x83, 0x42, 0x10];
    let audio_pkts: Vec<Vec<u8>> = if c.audio {
        (0..20u64).map(|i| crate::gen::OpusGene { config: 4, stereo: false, code: 0, count_byte: 0, len: 40 + (i % 7) as u16, corrupt: 0 }.build((9u64 << 60) | i).0).collect()
    } else {
        vec![]
    };
    let audio_total: u64 = audio_pkts.iter().map(|p| p.len() as u64).sum();
    let video_total = target - audio_total;
    // small_tail: 60 large frames, then four frames of a few hundred bytes (with the audio packets next to them)
    let n_big = if c.small_tail { n_frames - 4 } else { n_frames - 1 };
    let tail_each = 300u64;
    let base = if c.small_tail { (video_total - 3 * tail_each - 400) / n_big } else { video_total / n_frames };
    let frame_len = |i: u64| -> usize {
        (if i < n_big {
            base
        } else if i + 1 == n_frames {
            video_total - base * n_big - if c.small_tail { 3 * tail_each } else { 0 }
        } else {
            tail_each
        }) as usize
    };
    // frame i: codec header, a 16-byte tag, then the constant byte (i + 1)
    let frame = |i: u64| -> Vec<u8> {
        let hdr = if i == 0 { &key_hdr } else { &delta_hdr };
        let mut v = Vec::with_capacity(frame_len(i));
        v.extend_from_slice(hdr);
        v.extend_from_slice(&crate::gen::filler(16, (0xcu64 << 60) | i, 0));
        v.resize(frame_len(i), (i + 1) as u8);
        v
    };
    let out = std::sync::Arc::new(std::sync::Mutex::new(Vec::<u8>::with_capacity(target as usize + (4 << 20))));
    let mut cfg = CCfg::basic(3);
    cfg.audio = if c.audio { 7 } else { 0 };
    cfg.channels = 1;
    cfg.fast_start = Some(c.fast_start);
    let sink = Shared(out.clone());
    let res = guarded(|| -> Result<Result<(), String>, String> {
        let mut m = build_muxer(sink, &cfg).map_err(|e| format!("build: {}", e))?;
        for i in 0..n_frames {
            let f = frame(i);
            m.write_video(i as f64 / 30.0, &f, i == 0).map_err(|e| format!("write_video {}: {}", i, e))?;
            // audio packets accompany the first frames, or (small_tail) the last ones
            let ai = if c.small_tail { (i + 20).checked_sub(n_frames) } else { Some(i) };
            if let Some(p) = ai.and_then(|k| audio_pkts.get(k as usize)) {
                m.write_audio(i as f64 / 30.0, p).map_err(|e| format!("write_audio {}: {}", i, e))?;
            }
        }
        Ok(m.finish_in_place().map_err(|e| format!("{}", e)))
    });
    let fin = match res {
        Err(p) => {
            o.aborted_by_panic = Some(p);
            return o;
        }
        Ok(Err(e)) => {
            o.class(&format!("write_rejected:{}", clip(&e, 40)));
            return o;
        }
        Ok(Ok(f)) => f,
    };
    let tag = format!("{}{}.below={}", if c.fast_start { "fast_start" } else { "moov_last" }, if c.audio { "+audio" } else { "" }, c.below);
    match fin {
        Err(e) => {
            // an error is the right answer when something does not fit; far below the limit it is spurious
            o.class("finish_returned_error");
            if c.below >= 1 << 20 {
                o.fail("spurious_error", format!("spurious_error.finish.{}", tag), format!("finish failed ({}) although the file stays {} bytes below 4 GiB", e, c.below));
            }
        }
        Ok(()) => {
            let bytes = out.lock().unwrap();
            match parse(&bytes) {
                Err(e) => o.fail("box_size", format!("box_size.unparseable.{}", tag), format!("finish returned Ok for a {}-byte payload but the file does not parse (a wrapped size or offset): {}", target, e)),
                Ok(p) => {
                    let mut bad = None;
                    if let Some(vt) = video_track(&p.movie) {
                        if vt.samples.len() as u64 != n_frames {
                            bad = Some(format!("{} video samples in the tables, {} written", vt.samples.len(), n_frames));
                        }
                        for (i, sm) in vt.samples.iter().enumerate() {
                            let want = frame(i as u64);
                            let off = sm.offset as usize;
                            if sm.size as usize != want.len() || off.checked_add(want.len()).map(|e| e > bytes.len()).unwrap_or(true) || bytes[off..off + want.len()] != want[..] {
                                bad = Some(format!("video sample {}: tables give offset {} size {}, its {} bytes are not there", i, sm.offset, sm.size, want.len()));
                                break;
                            }
                        }
                    }
                    if bad.is_none() {
                        if let Some(at) = audio_track(&p.movie) {
                            for (i, sm) in at.samples.iter().enumerate() {
                                let want = &audio_pkts[i];
                                let off = sm.offset as usize;
                                if off.checked_add(want.len()).map(|e| e > bytes.len()).unwrap_or(true) || bytes[off..off + want.len()] != want[..] {
                                    bad = Some(format!("audio sample {}: tables give offset {}, its bytes are not there", i, sm.offset));
                                    break;
                                }
                            }
                        }
                    }
                    if let Some(b) = bad {
                        o.fail("stco", format!("stco.offset.near_4GiB.{}", tag), b);
                    }
                    o.class("finish_ok_near_4GiB");
                }
            }
        }
    }
    o
}

pub fn def() -> PropertyDef {
    PropertyDef {
        fuzz_targets: &[],
        id: "C16",
        level: "exploration",
        rule: "boundary-directed generators, one per narrowing site, drawing values within +-3 of each limit: total media duration around 2^32 ticks \
               (few frames with gaps up to 2^32-1), |pts-dts| around 2^31, audio longer than video, parameter-set length / width / height / sample rate \
               around 2^16, channels around 2^8 and 2^16, fragmented DTS gaps around 2^32 and composition offsets around 2^31, timestamps of 2^50..2^200 \
               ticks; oracle: either some call returned an error and the value really does not fit, or every field read back with its declared width \
               equals the exact value recomputed from the history. Non-trivial = exact value within +-2 (or beyond) a field limit, or a recording of more than 1 024 samples (long_recordings: counts beyond 2^10..2^20)",
        assumptions: &[
            "the 4 GiB limits (mdat size, chunk offset > u32) are probed by the fixed list `four_gib_limit` only (two cases in the quick tier), not searched",
            "progressive tkhd width/height are judged by C19 through its shifted decoder (listed finding), here only the sample entry",
        ],
        subs: vec![
            Box::new(PSub { name: "durations_and_offsets", quick: 20000, thorough: 600000, strat: timeline_strategy, eval: eval_timeline }),
            Box::new(LSub { name: "long_recordings", cases: long_cases_all, eval: eval_timeline, note: LONG_NOTE }),
            Box::new(LSub {
                name: "four_gib_limit",
                cases: limit_cases,
                eval: eval_limit,
                note: "fixed list: 64 VP9 frames (+ Opus) whose payload ends 4 .. 2^20 bytes below 2^32 (3 cases quick, 8 thorough; ~9 GiB of memory each, one at a time): either finish returns an error, or the mdat size and every chunk offset are exact",
            }),
            Box::new(PSub { name: "fields_around_2^16", quick: 6000, thorough: 150000, strat: fields_strategy, eval: eval_fields }),
            Box::new(PSub { name: "fragmented_boundaries", quick: 12000, thorough: 300000, strat: fragnum_strategy, eval: eval_fragnum }),
            Box::new(PSub { name: "huge_timestamps", quick: 4000, thorough: 80000, strat: huge_strategy, eval: eval_huge }),
        ],
    }
}
