//! Engine: proptest runner wrapper with sharding, known-finding handling, replay files, evidence.

use proptest::strategy::{BoxedStrategy, Strategy};
use proptest::test_runner::{Config, RngSeed, TestCaseError, TestError, TestRunner};
use serde::de::DeserializeOwned;
use serde::Serialize;
use serde_json::{json, Value};
use std::cell::RefCell;
use std::collections::{BTreeMap, HashSet};
use std::fmt::Debug;
use std::hash::{Hash, Hasher};
use std::path::PathBuf;
use std::sync::atomic::{AtomicBool, Ordering};
use std::time::Instant;

#[derive(Clone, Copy, Debug, PartialEq, Eq)]
pub enum Tier {
    Quick,
    Thorough,
}

#[derive(Clone, Debug, Serialize)]
pub struct Violation {
    pub clause: String,
    /// signature: clause plus the discriminating observed value (stable across inputs with the same root cause)
    pub sig: String,
    pub detail: String,
}

pub fn viol(clause: &str, sig: impl Into<String>, detail: impl Into<String>) -> Violation {
    Violation { clause: clause.to_string(), sig: sig.into(), detail: detail.into() }
}

#[derive(Clone, Debug, Default)]
pub struct Outcome {
    pub violations: Vec<Violation>,
    pub nontrivial: bool,
    pub classes: Vec<String>,
    pub unconstrained: Vec<String>,
    /// a panic inside muxide aborted the case (only C12/C13 judge panics)
    pub aborted_by_panic: Option<String>,
    /// cases the generator excluded / neutralised by construction, by reason
    pub excluded: Vec<String>,
    /// checks that enumerate a sub-space per generated case (fault points, ...): number of executions and the
    /// hashes of the non-trivial ones (added to the evidence counters)
    pub sub_evals: u64,
    pub sub_nontrivial: Vec<u64>,
    /// class counters with explicit weights
    pub class_counts: Vec<(String, u64)>,
}

impl Outcome {
    pub fn class(&mut self, c: &str) {
        self.classes.push(c.to_string());
    }
    pub fn fail(&mut self, clause: &str, sig: impl Into<String>, detail: impl Into<String>) {
        self.violations.push(viol(clause, sig, detail));
    }
}

#[derive(Clone, Debug)]
pub struct KnownFinding {
    pub property: String,
    pub sig: String,
    pub replay: Option<String>,
    pub text: String,
}

pub struct Ctx {
    pub property: String,
    pub tier: Tier,
    pub seed: u64,
    pub threads: usize,
    pub root: PathBuf, // /verif
    pub known: Vec<KnownFinding>,
    pub strict: bool,
}

impl Ctx {
    pub fn is_known(&self, sig: &str) -> bool {
        !self.strict && self.known.iter().any(|k| k.sig == sig)
    }
}

#[derive(Debug, Default)]
pub struct SubReport {
    pub name: String,
    pub evaluations: u64,
    pub nontrivial: HashSet<u64>,
    pub classes: BTreeMap<String, u64>,
    pub samples: Vec<Value>,
    pub excluded_known: BTreeMap<String, u64>,
    pub excluded_by_construction: BTreeMap<String, u64>,
    pub unconstrained: BTreeMap<String, u64>,
    pub aborted_by_panic: BTreeMap<String, u64>,
    pub exhaustive: bool,
    pub failure: Option<Failure>,
    pub notes: Vec<String>,
}

#[derive(Debug, Clone)]
pub struct Failure {
    pub case: Value,
    pub violations: Vec<Violation>,
    pub replay_path: Option<String>,
}

impl SubReport {
    pub fn new(name: &str) -> Self {
        SubReport { name: name.to_string(), ..Default::default() }
    }
    pub fn merge(&mut self, o: SubReport) {
        self.evaluations += o.evaluations;
        self.nontrivial.extend(o.nontrivial);
        for (k, v) in o.classes {
            *self.classes.entry(k).or_default() += v;
        }
        for (k, v) in o.excluded_known {
            *self.excluded_known.entry(k).or_default() += v;
        }
        for (k, v) in o.excluded_by_construction {
            *self.excluded_by_construction.entry(k).or_default() += v;
        }
        for (k, v) in o.unconstrained {
            *self.unconstrained.entry(k).or_default() += v;
        }
        for (k, v) in o.aborted_by_panic {
            *self.aborted_by_panic.entry(k).or_default() += v;
        }
        for s in o.samples {
            if self.samples.len() < 4 {
                self.samples.push(s);
            }
        }
        if self.failure.is_none() {
            self.failure = o.failure;
        }
        self.notes.extend(o.notes);
    }

    /// Record one evaluated case. Returns the unknown (non-listed) violations.
    pub fn record(&mut self, ctx: &Ctx, hash: u64, case_json: impl FnOnce() -> Value, out: &Outcome) -> Vec<Violation> {
        self.evaluations += 1 + out.sub_evals;
        for h in &out.sub_nontrivial {
            self.nontrivial.insert(*h);
        }
        for (c, n) in &out.class_counts {
            *self.classes.entry(c.clone()).or_default() += n;
        }
        for c in &out.classes {
            *self.classes.entry(c.clone()).or_default() += 1;
        }
        for u in &out.unconstrained {
            *self.unconstrained.entry(u.clone()).or_default() += 1;
        }
        for u in &out.excluded {
            *self.excluded_by_construction.entry(u.clone()).or_default() += 1;
        }
        if let Some(p) = &out.aborted_by_panic {
            *self.aborted_by_panic.entry(p.clone()).or_default() += 1;
        }
        let mut unknown = Vec::new();
        for v in &out.violations {
            if ctx.is_known(&v.sig) {
                *self.excluded_known.entry(v.sig.clone()).or_default() += 1;
            } else {
                unknown.push(v.clone());
            }
        }
        if out.nontrivial {
            let fresh = self.nontrivial.insert(hash);
            if fresh && self.samples.len() < 4 && (self.nontrivial.len() % 7 == 1 || self.samples.is_empty()) {
                self.samples.push(case_json());
            }
        }
        unknown
    }
}

pub fn hash_of<T: Hash>(t: &T) -> u64 {
    let mut h = std::collections::hash_map::DefaultHasher::new();
    t.hash(&mut h);
    h.finish()
}

pub fn hash_debug<T: Debug>(t: &T) -> u64 {
    hash_of(&format!("{:?}", t))
}

fn mix(seed: u64, prop: &str, sub: &str, shard: u64) -> u64 {
    let mut h = std::collections::hash_map::DefaultHasher::new();
    seed.hash(&mut h);
    prop.hash(&mut h);
    sub.hash(&mut h);
    shard.hash(&mut h);
    h.finish()
}

/// Run `cases` generated cases of `strat` through `eval`, sharded over ctx.threads.
pub fn run_generated<C>(
    ctx: &Ctx,
    sub: &str,
    cases: u32,
    strat: &(dyn Fn() -> BoxedStrategy<C> + Sync),
    eval: &(dyn Fn(&C) -> Outcome + Sync),
) -> SubReport
where
    C: Serialize + Debug + Clone + Hash + 'static,
{
    let shards = ctx.threads.max(1).min(cases.max(1) as usize);
    let per = cases / shards as u32;
    let extra = cases % shards as u32;
    let stop = AtomicBool::new(false);
    let mut total = SubReport::new(sub);
    let reports: Vec<SubReport> = std::thread::scope(|s| {
        let mut hs = Vec::new();
        for sh in 0..shards {
            let n = per + if (sh as u32) < extra { 1 } else { 0 };
            let stop = &stop;
            hs.push(s.spawn(move || run_shard(ctx, sub, sh as u64, n, strat, eval, stop)));
        }
        hs.into_iter().map(|h| h.join().expect("shard thread panicked (harness bug)")).collect()
    });
    for r in reports {
        total.merge(r);
    }
    if let Some(f) = total.failure.as_mut() {
        let path = write_replay(ctx, sub, &f.case, &f.violations);
        f.replay_path = Some(path);
    }
    total
}

fn run_shard<C>(
    ctx: &Ctx,
    sub: &str,
    shard: u64,
    cases: u32,
    strat: &(dyn Fn() -> BoxedStrategy<C> + Sync),
    eval: &(dyn Fn(&C) -> Outcome + Sync),
    stop: &AtomicBool,
) -> SubReport
where
    C: Serialize + Debug + Clone + Hash + 'static,
{
    let rep = RefCell::new(SubReport::new(sub));
    if cases == 0 {
        return rep.into_inner();
    }
    let failed = RefCell::new(false);
    let cfg = Config {
        cases,
        rng_seed: RngSeed::Fixed(mix(ctx.seed, &ctx.property, sub, shard)),
        failure_persistence: None,
        max_shrink_iters: 30000,
        max_shrink_time: 0,
        verbose: 0,
        source_file: None,
        test_name: None,
        ..Config::default()
    };
    let mut runner = TestRunner::new(cfg);
    let s = strat();
    let res = runner.run(&s, |c| {
        if *failed.borrow() {
            // shrinking: evaluate without counting
            let out = eval(&c);
            let bad = out.violations.iter().any(|v| !ctx.is_known(&v.sig));
            return if bad { Err(TestCaseError::fail("shrink")) } else { Ok(()) };
        }
        if stop.load(Ordering::Relaxed) {
            return Ok(());
        }
        let out = eval(&c);
        let unknown = rep.borrow_mut().record(ctx, hash_of(&c), || serde_json::to_value(&c).unwrap_or(Value::Null), &out);
        if !unknown.is_empty() {
            *failed.borrow_mut() = true;
            stop.store(true, Ordering::Relaxed);
            return Err(TestCaseError::fail(unknown[0].sig.clone()));
        }
        Ok(())
    });
    let mut rep = rep.into_inner();
    match res {
        Ok(()) => {}
        Err(TestError::Fail(_, minimal)) => {
            let out = eval(&minimal);
            let mut vs: Vec<Violation> = out.violations.into_iter().filter(|v| !ctx.is_known(&v.sig)).collect();
            if vs.is_empty() {
                vs.push(viol("flaky", "flaky", "minimal case did not reproduce on re-evaluation"));
            }
            rep.failure =
                Some(Failure { case: serde_json::to_value(&minimal).unwrap_or(Value::Null), violations: vs, replay_path: None });
        }
        Err(TestError::Abort(r)) => {
            rep.notes.push(format!("shard {} aborted by proptest: {}", shard, r));
        }
    }
    rep
}

/// Evaluate explicitly enumerated cases (exhaustive sub-spaces). `cases` yields (hash, case) lazily per shard.
pub fn run_enumerated<C, I>(
    ctx: &Ctx,
    sub: &str,
    shards_of: &(dyn Fn(usize, usize) -> I + Sync),
    eval: &(dyn Fn(&C) -> Outcome + Sync),
) -> SubReport
where
    C: Serialize + Debug + Clone + Send + Hash + 'static,
    I: Iterator<Item = C>,
{
    let shards = ctx.threads.max(1);
    let reports: Vec<SubReport> = std::thread::scope(|s| {
        let mut hs = Vec::new();
        for sh in 0..shards {
            hs.push(s.spawn(move || {
                let mut rep = SubReport::new(sub);
                for c in shards_of(sh, shards) {
                    let out = eval(&c);
                    let unknown = rep.record(ctx, hash_of(&c), || serde_json::to_value(&c).unwrap_or(Value::Null), &out);
                    if !unknown.is_empty() && rep.failure.is_none() {
                        rep.failure = Some(Failure {
                            case: serde_json::to_value(&c).unwrap_or(Value::Null),
                            violations: unknown,
                            replay_path: None,
                        });
                        break;
                    }
                }
                rep
            }));
        }
        hs.into_iter().map(|h| h.join().expect("enum shard panicked (harness bug)")).collect()
    });
    let mut total = SubReport::new(sub);
    total.exhaustive = true;
    for r in reports {
        total.merge(r);
    }
    if let Some(f) = total.failure.as_mut() {
        total.exhaustive = false;
        let path = write_replay(ctx, sub, &f.case, &f.violations);
        f.replay_path = Some(path);
    }
    total
}

pub fn write_replay(ctx: &Ctx, sub: &str, case: &Value, violations: &[Violation]) -> String {
    let dir = ctx.root.join("replays");
    let _ = std::fs::create_dir_all(&dir);
    let body = json!({
        "property": ctx.property,
        "sub": sub,
        "case": case,
        "violations": violations,
    });
    let txt = serde_json::to_string_pretty(&body).unwrap();
    let h = hash_of(&txt);
    let name = format!("{}-{}-{:08x}.json", ctx.property, sub, h as u32);
    let p = dir.join(&name);
    let _ = std::fs::write(&p, txt);
    format!("replays/{}", name)
}

pub trait DynSub: Sync {
    fn name(&self) -> &'static str;
    fn run(&self, ctx: &Ctx) -> SubReport;
    fn replay(&self, case: &Value) -> Result<Outcome, String>;
}

pub struct PSub<C: 'static> {
    pub name: &'static str,
    pub quick: u32,
    pub thorough: u32,
    pub strat: fn(Tier) -> BoxedStrategy<C>,
    pub eval: fn(&C) -> Outcome,
}

impl<C> DynSub for PSub<C>
where
    C: Serialize + DeserializeOwned + Debug + Clone + Hash + 'static,
{
    fn name(&self) -> &'static str {
        self.name
    }
    fn run(&self, ctx: &Ctx) -> SubReport {
        let cases = match ctx.tier {
            Tier::Quick => self.quick,
            Tier::Thorough => self.thorough,
        };
        let tier = ctx.tier;
        let st = self.strat;
        let ev = self.eval;
        run_generated(ctx, self.name, cases, &move || st(tier), &move |c| ev(c))
    }
    fn replay(&self, case: &Value) -> Result<Outcome, String> {
        let c: C = serde_json::from_value(case.clone()).map_err(|e| format!("cannot decode case: {}", e))?;
        Ok((self.eval)(&c))
    }
}

pub struct ESub {
    pub name: &'static str,
    pub run: fn(&Ctx) -> SubReport,
    pub replay: fn(&Value) -> Result<Outcome, String>,
}
impl DynSub for ESub {
    fn name(&self) -> &'static str {
        self.name
    }
    fn run(&self, ctx: &Ctx) -> SubReport {
        (self.run)(ctx)
    }
    fn replay(&self, case: &Value) -> Result<Outcome, String> {
        (self.replay)(case)
    }
}

/// Fixed list of (large) cases, evaluated in parallel with the property's own oracle; a failing case is the replay file.
pub struct LSub<C> {
    pub name: &'static str,
    pub cases: fn(Tier) -> Vec<C>,
    pub eval: fn(&C) -> Outcome,
    pub note: &'static str,
}
impl<C> DynSub for LSub<C>
where
    C: Serialize + serde::de::DeserializeOwned + Debug + Clone + Send + Sync + Hash + 'static,
{
    fn name(&self) -> &'static str {
        self.name
    }
    fn run(&self, ctx: &Ctx) -> SubReport {
        let all = (self.cases)(ctx.tier);
        let mk = |shard: usize, shards: usize| all.clone().into_iter().enumerate().filter(move |(i, _)| i % shards == shard).map(|(_, c)| c);
        let ev = self.eval;
        let mut r = run_enumerated(ctx, self.name, &mk, &move |c: &C| ev(c));
        r.exhaustive = false;
        r.notes.push(self.note.to_string());
        r
    }
    fn replay(&self, case: &Value) -> Result<Outcome, String> {
        let c: C = serde_json::from_value(case.clone()).map_err(|e| e.to_string())?;
        Ok((self.eval)(&c))
    }
}

/// The first `n` bytes of `s`, cut back to a character boundary (diagnostic text may contain any UTF-8).
pub fn clip(s: &str, n: usize) -> &str {
    if s.len() <= n {
        return s;
    }
    let cut = (0..=n).rev().find(|i| s.is_char_boundary(*i)).unwrap_or(0);
    &s[..cut]
}

pub fn boxed<S: Strategy + 'static>(s: S) -> BoxedStrategy<S::Value> {
    s.boxed()
}

// --------------------------------------------------------------------------------------------
// known findings file

pub fn load_known(root: &std::path::Path) -> Vec<KnownFinding> {
    let mut out = Vec::new();
    let txt = match std::fs::read_to_string(root.join("KNOWN_FINDINGS.txt")) {
        Ok(t) => t,
        Err(_) => return out,
    };
    for line in txt.lines() {
        let line = line.trim();
        if !line.starts_with("open:") {
            continue;
        }
        let rest = line["open:".len()..].trim();
        let (head, text) = match rest.split_once(" :: ") {
            Some((h, t)) => (h, t.to_string()),
            None => (rest, String::new()),
        };
        let mut property = String::new();
        let mut sig = String::new();
        let mut replay = None;
        for tok in head.split_whitespace() {
            if let Some(v) = tok.strip_prefix("property=") {
                property = v.to_string();
            } else if let Some(v) = tok.strip_prefix("sig=") {
                sig = v.to_string();
            } else if let Some(v) = tok.strip_prefix("replay=") {
                replay = Some(v.to_string());
            }
        }
        if !property.is_empty() && !sig.is_empty() {
            out.push(KnownFinding { property, sig, replay, text });
        }
    }
    out
}

// --------------------------------------------------------------------------------------------
// property-level driver

pub struct PropertyDef {
    /// libFuzzer targets (under /verif/fuzz) that carry this property's oracle; run in the thorough tier
    pub fuzz_targets: &'static [&'static str],
    pub id: &'static str,
    pub level: &'static str,
    pub rule: &'static str,
    pub assumptions: &'static [&'static str],
    pub subs: Vec<Box<dyn DynSub>>,
}

pub fn run_property(def: &PropertyDef, ctx: &Ctx) -> i32 {
    let t0 = Instant::now();
    let mut exit = 0;
    // 1. known findings: replay each, print KNOWN-FINDING when it still reproduces with its signature
    for k in &ctx.known {
        let mut reproduced = false;
        let mut why = String::from("no replay file listed");
        if let Some(rp) = &k.replay {
            match std::fs::read_to_string(ctx.root.join(rp)) {
                Ok(txt) => match serde_json::from_str::<Value>(&txt) {
                    Ok(v) => {
                        let sub = v["sub"].as_str().unwrap_or("");
                        if let Some(s) = def.subs.iter().find(|s| s.name() == sub) {
                            match s.replay(&v["case"]) {
                                Ok(out) => {
                                    if out.violations.iter().any(|x| x.sig == k.sig) {
                                        reproduced = true;
                                    } else {
                                        why = format!(
                                            "replay no longer shows signature (now: {:?})",
                                            out.violations.iter().map(|x| x.sig.clone()).collect::<Vec<_>>()
                                        );
                                    }
                                }
                                Err(e) => why = e,
                            }
                        } else {
                            why = format!("unknown sub-check '{}'", sub);
                        }
                    }
                    Err(e) => why = format!("bad replay json: {}", e),
                },
                Err(e) => why = format!("cannot read {}: {}", rp, e),
            }
        }
        if reproduced {
            println!("KNOWN-FINDING: property={} sig={} {}", k.property, k.sig, k.text);
        } else {
            println!("NOTE: listed finding property={} sig={} did not reproduce: {}", k.property, k.sig, why);
        }
    }
    // 2. the search
    let mut reports = Vec::new();
    for s in &def.subs {
        let st = Instant::now();
        let r = s.run(ctx);
        println!(
            "  [{}:{}] evaluations={} nontrivial={} known_excluded={} panics_aborted={} {:.1}s{}",
            def.id,
            r.name,
            r.evaluations,
            r.nontrivial.len(),
            r.excluded_known.values().sum::<u64>(),
            r.aborted_by_panic.values().sum::<u64>(),
            st.elapsed().as_secs_f64(),
            if r.exhaustive { " (exhaustive)" } else { "" }
        );
        for n in &r.notes {
            println!("  NOTE: {}", n);
        }
        for (sig, n) in &r.aborted_by_panic {
            println!("  NOTE: {} case(s) aborted by a panic inside muxide [{}] (judged by C12, not here)", n, sig);
        }
        if let Some(f) = &r.failure {
            exit = 1;
            for v in &f.violations {
                println!("  violation clause={} sig={} :: {}", v.clause, v.sig, v.detail);
            }
            println!("VIOLATION property={} replay={}", def.id, f.replay_path.clone().unwrap_or_default());
        }
        reports.push(r);
    }
    // 2b. coverage-guided campaigns (thorough tier only)
    if ctx.tier == Tier::Thorough && exit == 0 {
        for t in def.fuzz_targets {
            let r = crate::fuzzrun::campaign(def.id, t, ctx);
            println!(
                "  [{}:libfuzzer:{}] executions={} corpus={} {}",
                def.id,
                t,
                r.evaluations,
                r.nontrivial.len(),
                r.notes.first().cloned().unwrap_or_default()
            );
            if let Some(f) = &r.failure {
                exit = 1;
                for v in &f.violations {
                    println!("  violation clause={} sig={} :: {}", v.clause, v.sig, v.detail);
                }
                println!("VIOLATION property={} replay={}", def.id, f.replay_path.clone().unwrap_or_default());
            }
            reports.push(r);
        }
    }
    // 3. evidence
    let evaluations: u64 = reports.iter().map(|r| r.evaluations).sum();
    let distinct: usize = reports.iter().map(|r| r.nontrivial.len()).sum();
    let mut samples = Vec::new();
    let mut subs_json = serde_json::Map::new();
    for r in &reports {
        for s in r.samples.iter().take(2) {
            // a sample is an illustration, not a replay file: long cases are abbreviated
            let txt = serde_json::to_string(s).unwrap_or_default();
            if txt.len() > 6000 {
                let cut = (0..=3000).rev().find(|i| txt.is_char_boundary(*i)).unwrap_or(0);
                samples.push(json!({"sub": r.name, "case_abbreviated": format!("{} ... ({} bytes of JSON in total)", &txt[..cut], txt.len())}));
            } else {
                samples.push(json!({"sub": r.name, "case": s}));
            }
        }
        subs_json.insert(
            r.name.clone(),
            json!({
                "evaluations": r.evaluations,
                "distinct_nontrivial": r.nontrivial.len(),
                "exhaustive": r.exhaustive,
                "classes": r.classes,
                "excluded_known": r.excluded_known,
                "excluded_by_construction": r.excluded_by_construction,
                "unconstrained": r.unconstrained,
                "aborted_by_panic": r.aborted_by_panic,
                "notes": r.notes,
            }),
        );
    }
    if samples.is_empty() {
        samples.push(json!("no non-trivial case was produced"));
    }
    let all_exh = !reports.is_empty() && reports.iter().all(|r| r.exhaustive);
    let ev = json!({
        "property_id": def.id,
        "tier": if ctx.tier == Tier::Quick { "quick" } else { "thorough" },
        "seed": ctx.seed,
        "level": def.level,
        "coverage": {
            "evaluations": evaluations,
            "distinct_nontrivial": distinct,
            "rule": def.rule,
            "samples": samples,
            "exhaustive": all_exh,
            "sub_checks": subs_json,
        },
        "assumptions": def.assumptions,
        "wall_s": t0.elapsed().as_secs_f64(),
        "violations": reports.iter().filter(|r| r.failure.is_some()).count(),
    });
    let dir = ctx.root.join("evidence");
    let _ = std::fs::create_dir_all(&dir);
    if let Err(e) = std::fs::write(dir.join(format!("{}.json", def.id)), serde_json::to_string_pretty(&ev).unwrap()) {
        eprintln!("cannot write evidence: {}", e);
        return 2;
    }
    println!(
        "{} {}: evaluations={} distinct_nontrivial={} wall={:.1}s => {}",
        def.id,
        if ctx.tier == Tier::Quick { "quick" } else { "thorough" },
        evaluations,
        distinct,
        t0.elapsed().as_secs_f64(),
        if exit == 0 { "held on everything explored" } else { "VIOLATED" }
    );
    exit
}

pub fn replay_file(def: &PropertyDef, ctx: &Ctx, path: &str) -> i32 {
    let txt = match std::fs::read_to_string(path).or_else(|_| std::fs::read_to_string(ctx.root.join(path))) {
        Ok(t) => t,
        Err(e) => {
            eprintln!("cannot read {}: {}", path, e);
            return 2;
        }
    };
    let v: Value = match serde_json::from_str(&txt) {
        Ok(v) => v,
        Err(e) => {
            eprintln!("bad json in {}: {}", path, e);
            return 2;
        }
    };
    let sub = v["sub"].as_str().unwrap_or("");
    let result = if let Some(t) = sub.strip_prefix("libfuzzer:") {
        crate::fuzzrun::replay(def.id, t, v["case"]["input_hex"].as_str().unwrap_or(""))
    } else {
        match def.subs.iter().find(|s| s.name() == sub) {
            Some(s) => s.replay(&v["case"]),
            None => {
                eprintln!("unknown sub-check '{}' for {}", sub, def.id);
                return 2;
            }
        }
    };
    match result {
        Ok(out) => {
            if let Some(p) = &out.aborted_by_panic {
                println!("NOTE: case aborted by panic inside muxide: {}", p);
            }
            if out.violations.is_empty() {
                println!("replay {}: property {} holds on this case", path, def.id);
                0
            } else {
                for x in &out.violations {
                    let k = if ctx.known.iter().any(|k| k.sig == x.sig) { " (listed known finding)" } else { "" };
                    println!("  violation clause={} sig={}{} :: {}", x.clause, x.sig, k, x.detail);
                }
                println!("VIOLATION property={} replay={}", def.id, path);
                1
            }
        }
        Err(e) => {
            eprintln!("{}", e);
            2
        }
    }
}
