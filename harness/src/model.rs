//! Reference arithmetic and small models (independent restatements of the documentation).

pub const TS: u64 = 90_000;

#[derive(Clone, Copy, Debug, PartialEq, Eq)]
pub struct Tick {
    /// nearest tick (ties rounded away from zero, like f64::round)
    pub tick: u64,
    /// the exact product lies so close to a half-integer that a floating-point evaluation may round either way
    pub tie: bool,
    /// value >= 2^63 ticks (saturated)
    pub huge: bool,
}

/// Exact rounding of a finite non-negative f64 number of seconds to 90 kHz ticks using integer arithmetic.
pub fn ticks_exact(v: f64) -> Tick {
    assert!(v.is_finite() && v >= 0.0);
    if v == 0.0 {
        return Tick { tick: 0, tie: false, huge: false };
    }
    let bits = v.to_bits();
    let exp = ((bits >> 52) & 0x7ff) as i64;
    let frac = bits & ((1u64 << 52) - 1);
    let (m, e) = if exp == 0 { (frac, -1074i64) } else { (frac | (1u64 << 52), exp - 1075) };
    // v = m * 2^e ; product = m*90000 * 2^e
    let p = m as u128 * TS as u128; // < 2^70
    if e >= 0 {
        if e >= 58 || (p << e) >= (1u128 << 63) {
            return Tick { tick: u64::MAX, tie: false, huge: true };
        }
        return Tick { tick: (p << e) as u64, tie: false, huge: false };
    }
    let sh = (-e) as u32;
    if sh >= 127 {
        return Tick { tick: 0, tie: false, huge: false };
    }
    let q = p >> sh;
    let rem = p & ((1u128 << sh) - 1);
    let half = 1u128 << (sh - 1);
    if q >= (1u128 << 63) {
        return Tick { tick: u64::MAX, tie: false, huge: true };
    }
    let tick = if rem >= half { q as u64 + 1 } else { q as u64 };
    // distance from the half point, relative to one ulp of the product in f64
    let prod = v * TS as f64;
    let ulp = if prod > 0.0 { prod - f64::from_bits(prod.to_bits() - 1) } else { 0.0 };
    let dist = if rem >= half { rem - half } else { half - rem };
    let dist_f = dist as f64 / (1u128 << sh) as f64;
    let tie = dist_f <= 2.0 * ulp;
    Tick { tick, tie, huge: false }
}

/// Seconds for a tick value plus a sub-tick jitter in hundredths of a tick (|j| <= 49).
pub fn secs(tick: u64, jitter_centi: i8) -> f64 {
    let j = (jitter_centi.clamp(-49, 49)) as f64 / 100.0;
    let t = tick as f64 + j;
    if t <= 0.0 {
        0.0
    } else {
        t / TS as f64
    }
}

// ------------------------------------------------------------------------------------------
// independent calendar (civil from days; Howard Hinnant's algorithm, proleptic Gregorian)

pub fn civil_from_days(z: i64) -> (i64, u32, u32) {
    let z = z + 719_468;
    let era = if z >= 0 { z } else { z - 146_096 } / 146_097;
    let doe = (z - era * 146_097) as u64; // [0, 146096]
    let yoe = (doe - doe / 1460 + doe / 36524 - doe / 146_096) / 365; // [0, 399]
    let y = yoe as i64 + era * 400;
    let doy = doe - (365 * yoe + yoe / 4 - yoe / 100); // [0, 365]
    let mp = (5 * doy + 2) / 153; // [0, 11]
    let d = (doy - (153 * mp + 2) / 5 + 1) as u32; // [1, 31]
    let m = if mp < 10 { mp + 3 } else { mp - 9 } as u32; // [1, 12]
    (if m <= 2 { y + 1 } else { y }, m, d)
}

pub fn iso8601(unix: u64) -> String {
    let days = (unix / 86_400) as i64;
    let rem = unix % 86_400;
    let (y, m, d) = civil_from_days(days);
    format!("{:04}-{:02}-{:02}T{:02}:{:02}:{:02}Z", y, m, d, rem / 3600, (rem % 3600) / 60, rem % 60)
}

#[cfg(test)]
mod tests {
    use super::*;
    #[test]
    fn tick_basics() {
        assert_eq!(ticks_exact(1.0).tick, 90000);
        assert_eq!(ticks_exact(1.0 / 30.0).tick, 3000);
        assert_eq!(ticks_exact(secs(12345, 49)).tick, 12345);
        assert_eq!(ticks_exact(secs(12345, -49)).tick, 12345);
        assert!(!ticks_exact(secs(12345, 49)).tie);
        assert!(ticks_exact(0.5 / 90000.0).tie);
    }
    #[test]
    fn calendar() {
        assert_eq!(iso8601(0), "1970-01-01T00:00:00Z");
        assert_eq!(iso8601(951_782_400), "2000-02-29T00:00:00Z");
        assert_eq!(iso8601(1_234_567_890), "2009-02-13T23:31:30Z");
        assert_eq!(iso8601(4_107_542_399), "2100-02-28T23:59:59Z");
        assert_eq!(iso8601(4_107_542_400), "2100-03-01T00:00:00Z");
        assert_eq!(iso8601(253_402_300_799), "9999-12-31T23:59:59Z");
    }
}
