use harness::engine::{load_known, replay_file, run_property, Ctx, Tier};
use std::path::PathBuf;

fn main() {
    let args: Vec<String> = std::env::args().skip(1).collect();
    if args.len() < 2 && args.first().map(|a| a != "gen-fuzz-seeds" && a != "dump-fuzz" && a != "frag-init" && a != "case-digest" && a != "dump-case").unwrap_or(true) {
        eprintln!("usage: verif <Cxx> <quick|thorough> | verif <Cxx> --replay <file>");
        std::process::exit(2);
    }
    if args[0] == "gen-fuzz-seeds" {
        harness::fuzz::write_seeds(&PathBuf::from(std::env::var("VERIF_ROOT").unwrap_or_else(|_| "/verif".into())));
        return;
    }
    if args[0] == "dump-case" {
        // verif dump-case @<replay or case json>: the lowered calls of a ValidCase in hex (debugging aid)
        let arg = args.get(1).cloned().unwrap_or_default();
        let text = if let Some(path) = arg.strip_prefix('@') { std::fs::read_to_string(path).unwrap_or_default() } else { arg };
        let v: serde_json::Value = serde_json::from_str(&text).unwrap_or_default();
        let v = v.get("case").cloned().unwrap_or(v);
        if let Ok(c) = serde_json::from_value::<harness::scenario::ValidCase>(v) {
            let l = harness::scenario::lower(&c);
            if let Ok(dir) = std::env::var("VERIF_DUMP_DIR") {
                let r = harness::exec::run_history(&l.cfg, &l.ops);
                let _ = std::fs::write(format!("{}/out.mp4", dir), &r.out);
                for (k, e) in l.vexp.iter().enumerate() {
                    let _ = std::fs::write(format!("{}/vexp{}.bin", dir, k), &e.bytes);
                }
            }
            for (i, op) in l.ops.iter().enumerate() {
                let s = format!("{:?}", op);
                println!("{} {}", i, &s[..s.len().min(100)]);
                let data: Option<&Vec<u8>> = match op {
                    harness::exec::COp::Video { data, .. } | harness::exec::COp::VideoDts { data, .. } | harness::exec::COp::Audio { data, .. } => Some(data),
                    _ => None,
                };
                if let Some(d) = data {
                    let h: String = d.iter().take(80).map(|x| format!("{:02x}", x)).collect();
                    let t: String = d.iter().rev().take(24).rev().map(|x| format!("{:02x}", x)).collect();
                    println!("   len {} head {} tail {}", d.len(), h, t);
                    if let Ok(dir) = std::env::var("VERIF_DUMP_DIR") {
                        let _ = std::fs::write(format!("{}/op{}.bin", dir, i), d);
                    }
                }
            }
        }
        return;
    }
    if args[0] == "case-digest" {
        // verif case-digest <ValidCase json>: every return value (with its error text) and the output bytes of the history, as
        // computed in this process and its environment
        harness::exec::install_panic_hook();
        // "@<file>": the case is read from the file; "verif case-digest @<file> <out>": the digest is written to <out>
        // instead of standard output (for runs whose standard streams are a terminal)
        let arg = args.get(1).cloned().unwrap_or_default();
        let text = if let Some(path) = arg.strip_prefix('@') { std::fs::read_to_string(path).unwrap_or_default() } else { arg };
        match serde_json::from_str::<harness::scenario::ValidCase>(&text) {
            Ok(c) => {
                let l = harness::scenario::lower(&c);
                let r = harness::exec::run_history(&l.cfg, &l.ops);
                let digest = format!("{:?}\n{}\n", r.results, r.out.iter().map(|x| format!("{:02x}", x)).collect::<String>());
                match args.get(2) {
                    Some(out) => {
                        let _ = std::fs::write(out, digest);
                    }
                    None => print!("{}", digest),
                }
            }
            Err(e) => {
                eprintln!("bad case: {}", e);
                std::process::exit(2);
            }
        }
        return;
    }
    if args[0] == "frag-init" {
        // verif frag-init <InitCase json>: hex of the init segment, computed in this (fresh) process - C17's reference for
        // "nothing carried over from other muxers in the process"
        harness::exec::install_panic_hook();
        match serde_json::from_str::<harness::props::c07::InitCase>(args.get(1).map(|s| s.as_str()).unwrap_or("")) {
            Ok(c) => match harness::props::c07::init_bytes(&c) {
                Some(b) => println!("{}", b.iter().map(|x| format!("{:02x}", x)).collect::<String>()),
                None => println!("none"),
            },
            Err(e) => {
                eprintln!("bad case: {}", e);
                std::process::exit(2);
            }
        }
        return;
    }
    if args[0] == "dump-fuzz" {
        // verif dump-fuzz <target> <hex>: the structured case a fuzz input decodes to (debugging aid)
        let hex = args.get(2).cloned().unwrap_or_default();
        let bytes: Vec<u8> = (0..hex.len() / 2).filter_map(|i| u8::from_str_radix(&hex[2 * i..2 * i + 2], 16).ok()).collect();
        match args[1].as_str() {
            "c04_history" => println!("{}", serde_json::to_string(&harness::fuzz::raw_case(&bytes)).unwrap()),
            "c10_frag" => println!("{}", serde_json::to_string(&harness::fuzz::frag_case(&bytes)).unwrap()),
            "c01_scenario" => println!("{}", serde_json::to_string(&harness::fuzz::valid_case(&bytes)).unwrap()),
            t => eprintln!("no structured decoder registered for {}", t),
        }
        return;
    }
    let prop = args[0].clone();
    let root = PathBuf::from(std::env::var("VERIF_ROOT").unwrap_or_else(|_| "/verif".into()));
    let seed: u64 = std::env::var("VERIF_SEED").ok().and_then(|s| s.parse().ok()).unwrap_or(20261003);
    let threads: usize = std::env::var("VERIF_THREADS")
        .ok()
        .and_then(|s| s.parse().ok())
        .unwrap_or_else(|| std::thread::available_parallelism().map(|n| n.get()).unwrap_or(4));
    harness::exec::install_panic_hook();
    let def = match harness::props::property(&prop) {
        Some(d) => d,
        None => {
            eprintln!("unknown property {}", prop);
            std::process::exit(2);
        }
    };
    let known: Vec<_> = load_known(&root).into_iter().filter(|k| k.property == prop).collect();
    if args[1] == "--replay" {
        let path = args.get(2).cloned().unwrap_or_default();
        let ctx = Ctx { property: prop, tier: Tier::Quick, seed, threads, root, known, strict: true };
        std::process::exit(replay_file(&def, &ctx, &path));
    }
    let tier = match args[1].as_str() {
        "quick" => Tier::Quick,
        "thorough" => Tier::Thorough,
        t => {
            eprintln!("unknown tier {}", t);
            std::process::exit(2);
        }
    };
    // global watchdog: a run that exceeds it is reported as an infrastructure problem (exit 2, no verdict), never as a violation
    let limit: u64 = std::env::var("VERIF_WATCHDOG_SECS").ok().and_then(|s| s.parse().ok()).unwrap_or(if tier == Tier::Quick { 1500 } else { 6 * 3600 });
    let pname = prop.clone();
    std::thread::spawn(move || {
        std::thread::sleep(std::time::Duration::from_secs(limit));
        eprintln!("INFRA: {} exceeded the {} s watchdog (VERIF_WATCHDOG_SECS); no verdict", pname, limit);
        std::process::exit(2);
    });
    let ctx = Ctx { property: prop, tier, seed, threads, root, known, strict: false };
    std::process::exit(run_property(&def, &ctx));
}
