//! Valid call histories ("scenarios"): gene type, proptest strategy, lowering to concrete calls with
//! the expected stored samples and ticks.  Everything generated here satisfies the documented contract
//! by construction, so every call is expected to be accepted (the checks nevertheless only rely on the
//! calls that actually returned Ok).

use crate::exec::{CCfg, COp, FinishKind};
use crate::gen::*;
use crate::model::{secs, ticks_exact};
use proptest::collection::vec;
use proptest::option;
use proptest::prelude::*;
use serde::{Deserialize, Serialize};

#[derive(Clone, Debug, Serialize, Deserialize, PartialEq, Eq, Hash)]
pub struct CfgGene {
    pub codec: u8,
    pub audio: u8,
    pub rate_idx: u8,
    pub channels: u8,
    pub width: u16,
    pub height: u16,
    pub fast_start: bool,
    pub title: Option<String>,
    pub ctime: Option<u64>,
    pub lang: Option<String>,
    pub av1: Option<Av1Seq>,
    pub vp9: Vp9Key,
}

#[derive(Clone, Debug, Serialize, Deserialize, PartialEq, Eq, Hash)]
pub struct VGene {
    pub ddts: u32,
    pub cts: i64,
    pub key: bool,
    pub size: u16,
    pub shape: u8,
    pub jit: i8,
    /// extra payload bytes appended to the frame as one more unit (NAL / OBU / raw VP9 tail): samples beyond 64 KiB
    #[serde(default)]
    pub big: u32,
}

#[derive(Clone, Debug, Serialize, Deserialize, PartialEq, Eq, Hash)]
pub struct AGene {
    pub dpts: u32,
    pub size: u16,
    pub shape: u8,
    pub jit: i8,
}

#[derive(Clone, Debug, Serialize, Deserialize, PartialEq, Eq, Hash)]
pub struct ValidCase {
    pub cfg: CfgGene,
    pub v_start: u64,
    pub a_off: u32,
    pub video: Vec<VGene>,
    pub audio: Vec<AGene>,
    /// Some(d): every video delta is d ticks (constant frame rate)
    pub const_rate: Option<u32>,
    /// Some(k): video timestamps are computed as `i as f64 / FPS[k]` the way a caller would (no reordering)
    pub fps_mode: Option<u8>,
    /// 0: write_video when no reordering else with_dts; 1: always with_dts; 2: alternate where legal
    pub use_dts: u8,
    /// submission order, see `lower`
    pub order: u8,
    pub finish: u8,
    /// illegal calls sprinkled into the history: (position selector, kind). They must be rejected and leave no trace.
    /// kind 0: video re-submitting the previous video timestamp; 1: empty video frame; 2: audio with invalid framing at a
    /// later time; 3: audio earlier than the previous audio; 4: video with NaN timestamp; 5: reordered video frame whose decode
    /// time does not advance
    #[serde(default)]
    pub rejects: Vec<(u8, u8)>,
    /// false: composition offsets of the genes are ignored (pts == dts everywhere)
    #[serde(default = "default_true")]
    pub reorder: bool,
    /// Some: `video` / `audio` are empty and are generated from this compact description when the case is lowered
    /// (long recordings: the replay file stays small)
    #[serde(default)]
    pub expand: Option<Expand>,
}

/// Compact description of a long, regular recording.
#[derive(Clone, Debug, Serialize, Deserialize, PartialEq, Eq, Hash)]
pub struct Expand {
    pub nv: u32,
    pub na: u32,
    /// video / audio inter-sample distance in ticks
    pub vd: u32,
    pub ad: u32,
    pub vsize: u16,
    pub asize: u16,
    /// video samples from this index on carry composition offsets (u32::MAX: never)
    pub reorder_from: u32,
    pub key_every: u32,
    /// every n-th video delta is doubled (0: constant frame rate)
    pub irregular_every: u32,
    /// (video sample index, extra bytes)
    pub bigs: Vec<(u32, u32)>,
    /// vary frame shapes (false: the simplest one-unit frames, for the very long cases)
    pub shapes: bool,
    /// Some((n, v, a)): the first n video / audio samples all have the shapes v / a (a uniform warm-up: one start-code style,
    /// one ADTS header), the samples after them vary
    #[serde(default)]
    pub uniform: Option<(u32, u8, u8)>,
    /// shapes of the 16 samples right after the warm-up, cycled (empty: the warm-up shape with one bit flipped at a time)
    #[serde(default)]
    pub post: Vec<u8>,
}

impl ValidCase {
    /// The case with `expand` turned into explicit genes.
    pub fn materialised(&self) -> std::borrow::Cow<'_, ValidCase> {
        let e = match &self.expand {
            None => return std::borrow::Cow::Borrowed(self),
            Some(e) => e,
        };
        let mut c = self.clone();
        c.expand = None;
        let cts_pat = [1i64, 3, 0, 1];
        c.video = (0..e.nv)
            .map(|i| VGene {
                ddts: if e.irregular_every > 0 && i % e.irregular_every == 0 { e.vd * 2 } else { e.vd },
                cts: if i >= e.reorder_from { cts_pat[(i % 4) as usize] * e.vd as i64 } else { 0 },
                key: e.key_every > 0 && i % e.key_every == 0,
                size: e.vsize,
                shape: match e.uniform {
                    Some((n, v, _)) if i < n => v,
                    // right after the warm-up: the uniform shape with exactly one property changed at a time
                    Some((n, v, _)) if i < n + 16 => {
                        if e.post.is_empty() {
                            v ^ (1u8 << ((i - n) % 8))
                        } else {
                            e.post[(i - n) as usize % e.post.len()]
                        }
                    }
                    _ => {
                        if e.shapes {
                            (i.wrapping_mul(37) % 256) as u8
                        } else {
                            0
                        }
                    }
                },
                jit: 0,
                big: e.bigs.iter().find(|b| b.0 == i).map(|b| b.1).unwrap_or(0),
            })
            .collect();
        c.audio = (0..e.na)
            .map(|i| AGene {
                dpts: e.ad,
                size: e.asize,
                shape: match e.uniform {
                    Some((n, _, a)) if i < n => a,
                    Some((n, _, a)) if i < n + 16 => {
                        if e.post.is_empty() {
                            a ^ (1u8 << ((i - n) % 8))
                        } else {
                            e.post[(i - n) as usize % e.post.len()]
                        }
                    }
                    _ => {
                        if e.shapes {
                            (i.wrapping_mul(29) % 256) as u8
                        } else {
                            1
                        }
                    }
                },
                jit: 0,
            })
            .collect();
        c.const_rate = None;
        c.fps_mode = None;
        c.reorder = e.reorder_from != u32::MAX;
        std::borrow::Cow::Owned(c)
    }
}

pub const LONG_NOTE: &str = "fixed list of long / large recordings (compact `expand` descriptions): 1 100, 2 048, 2 200, 2 100 (reordering starts at \
     sample 2 060), 4 096, 20 000, 36 000, 70 000 video samples; 27 000 + 42 188 A/V samples with ties; 70 000 audio samples; single samples of 1 MiB + 1, \
     1.25 MiB, 1.5 MiB + 17, 2 MB, 2.5 MiB, 3 MiB, 4 MiB - 3, 4 MiB, 4 MiB + 5, 8 MiB + 3, 16 MiB + 1 at first / middle / last position, video-only and A/V, both layouts; uniform warm-ups of 600 .. 1 500 frames followed by frames of every shape; recordings that cross \
     2^33 / 2^39 / 2^50 ticks or carry Unix-epoch timestamps; tracks of very different lengths (3 + 400, 400 + 3, 1 + 1 000, 2 + 257, 600 + 1 samples); slideshows with 8 .. 100 audio packets per frame and 2 .. 7 packets stamped on the next frame's tick; a constant decoder delay; thorough tier: 1 048 700 video samples with audio ties after sample 2^20";

fn long_cfg(codec: u8, audio: u8, fast_start: bool) -> CfgGene {
    CfgGene {
        codec,
        audio,
        rate_idx: 3,
        channels: 2,
        width: 640,
        height: 360,
        fast_start,
        title: None,
        ctime: None,
        lang: None,
        av1: None,
        vp9: Vp9Key { profile: 0, byte4: 0, sync: 0, width: 640, height: 360, wlen: 2, hlen: 2, render: None, color: Some((0, None)), tail: 0 },
    }
}

fn long_case(cfg: CfgGene, v_start: u64, a_off: u32, order: u8, e: Expand) -> ValidCase {
    ValidCase { cfg, v_start, a_off, video: vec![], audio: vec![], const_rate: None, fps_mode: None, use_dts: 0, order, finish: 0, rejects: vec![], reorder: false, expand: Some(e) }
}

/// Long and large recordings (counts and sizes the random histories do not reach).  `huge`: also the > 2^20-sample recording.
pub fn long_cases(huge: bool) -> Vec<ValidCase> {
    let ex = |nv: u32, na: u32| Expand { nv, na, vd: 3000, ad: 1920, vsize: 19, asize: 17, reorder_from: u32::MAX, key_every: 30, irregular_every: 0, bigs: vec![], shapes: true, uniform: None, post: vec![] };
    let mut v = vec![
        long_case(long_cfg(0, 0, true), 0, 0, 0, ex(1100, 0)),
        long_case(long_cfg(1, 0, false), 9000, 0, 0, Expand { irregular_every: 7, ..ex(2200, 0) }),
        long_case(long_cfg(0, 1, true), 0, 0, 1, Expand { reorder_from: 2060, ..ex(2100, 300) }),
        long_case(long_cfg(2, 0, true), 0, 0, 0, ex(20_000, 0)),
        long_case(long_cfg(3, 0, false), 0, 0, 0, Expand { key_every: 250, ..ex(36_000, 0) }),
        long_case(long_cfg(0, 0, true), 0, 0, 0, Expand { shapes: false, ..ex(70_000, 0) }),
        long_case(long_cfg(1, 2, false), 0, 0, 1, ex(27_000, 42_188)),
        long_case(long_cfg(1, 7, true), 0, 0, 5, Expand { ad: 960, ..ex(27_000, 67_000) }),
        long_case(long_cfg(0, 1, true), 0, 0, 1, Expand { vd: 448_000, ..ex(300, 70_000) }),
        // single samples beyond 1 MiB
        long_case(long_cfg(0, 0, false), 0, 0, 0, Expand { bigs: vec![(2, 1_310_720)], ..ex(5, 0) }),
        long_case(long_cfg(1, 1, true), 0, 0, 1, Expand { bigs: vec![(0, 1_572_864 + 17)], ..ex(6, 8) }),
        long_case(long_cfg(2, 7, false), 0, 0, 1, Expand { bigs: vec![(3, 3_145_728)], ..ex(4, 4) }),
        long_case(long_cfg(3, 0, true), 0, 0, 0, Expand { bigs: vec![(1, 1_048_577), (2, 2_621_440)], ..ex(3, 0) }),
        long_case(long_cfg(0, 3, false), 0, 0, 5, Expand { bigs: vec![(4, 2_000_000)], ..ex(8, 12) }),
        long_case(long_cfg(1, 0, true), 0, 0, 0, Expand { bigs: vec![(8, 1_048_576 - 4)], ..ex(9, 0) }),
        // constant rate in both tracks with the audio starting a fraction of an audio frame late; a slideshow (1 fps) with 20 ms
        // audio packets: more than 32 audio samples between two video frames, and a tie at every video frame
        long_case(long_cfg(0, 1, true), 0, 900, 1, Expand { shapes: false, ..ex(140, 140) }),
        long_case(long_cfg(1, 1, false), 0, 1000, 5, Expand { shapes: false, ..ex(300, 400) }),
        long_case(long_cfg(2, 7, true), 0, 0, 1, Expand { vd: 90_000, ad: 1800, ..ex(6, 251) }),
        long_case(long_cfg(0, 1, false), 0, 0, 5, Expand { vd: 96_000, ad: 1920, ..ex(5, 201) }),
        // a long uniform warm-up (one start-code style, one ADTS header form), then frames of every other shape
        long_case(long_cfg(0, 1, true), 0, 0, 1, Expand { uniform: Some((1500, 1, 1)), ..ex(1600, 1600) }),
        long_case(long_cfg(1, 2, false), 0, 0, 5, Expand { uniform: Some((1100, 0, 0)), ..ex(1200, 1200) }),
        long_case(long_cfg(0, 1, false), 0, 0, 1, Expand { uniform: Some((600, 129, 0)), key_every: 1, ..ex(700, 700) }),
        // ... and warm-ups followed by ONE other kind of frame (a state machine that resets on the first odd frame would
        // hide everything behind it): mixed start codes with a 4-byte / 3-byte first unit, 3-byte only, AUD + SEI in front,
        // trailing zeros; the other ADTS protection form / another profile
        long_case(long_cfg(0, 1, true), 0, 0, 1, Expand { uniform: Some((1100, 1, 1)), post: vec![32], ..ex(1130, 1130) }),
        long_case(long_cfg(1, 1, false), 0, 0, 1, Expand { uniform: Some((1100, 1, 0)), post: vec![33], ..ex(1130, 1130) }),
        long_case(long_cfg(0, 2, true), 0, 0, 1, Expand { uniform: Some((1100, 1, 1)), post: vec![48, 96], ..ex(1130, 600) }),
        long_case(long_cfg(1, 0, true), 0, 0, 0, Expand { uniform: Some((1100, 1, 0)), post: vec![7, 129, 160], ..ex(1130, 0) }),
        long_case(long_cfg(0, 1, false), 0, 0, 1, Expand { uniform: Some((1100, 0, 0)), post: vec![1, 33], ..ex(1130, 1130) }),
        // single samples at the next powers of two (4, 8, 16 MiB), never the first sample of the file
        long_case(long_cfg(0, 1, true), 0, 0, 1, Expand { bigs: vec![(2, (4 << 20) + 5)], ..ex(5, 6) }),
        long_case(long_cfg(3, 0, false), 0, 0, 0, Expand { bigs: vec![(1, (4 << 20) - 3), (3, 4 << 20)], ..ex(5, 0) }),
        long_case(long_cfg(1, 7, false), 0, 0, 5, Expand { bigs: vec![(3, (8 << 20) + 3)], ..ex(6, 6) }),
        long_case(long_cfg(2, 0, true), 0, 0, 0, Expand { bigs: vec![(1, (16 << 20) + 1)], ..ex(4, 0) }),
        // sample counts that are exact powers of two / multiples of 1024 (the other lengths are "one more")
        long_case(long_cfg(0, 0, true), 0, 0, 0, ex(2048, 0)),
        long_case(long_cfg(1, 0, false), 0, 0, 0, ex(4096, 0)),
        long_case(long_cfg(3, 0, true), 0, 0, 0, Expand { shapes: false, ..ex(65_536, 0) }),
        long_case(long_cfg(0, 2, false), 0, 0, 1, ex(1024, 2048)),
        // a recording that crosses 2^39 ticks of the media clock (absolute / uptime-based timestamps)
        long_case(long_cfg(0, 1, true), (1u64 << 39) - 45_000, 0, 1, ex(60, 90)),
        long_case(long_cfg(1, 7, false), (1u64 << 33) - 4_500, 0, 1, ex(40, 40)),
        // wall-clock (Unix epoch) timestamps: 1.79e9 s = 1.6e14 ticks, and a start just below 2^50 ticks
        long_case(long_cfg(0, 1, false), 1_790_000_000u64 * 90_000, 0, 1, ex(30, 45)),
        long_case(long_cfg(2, 0, true), (1u64 << 50) - 6_000, 0, 0, ex(12, 0)),
    ];
    // tracks of very different lengths: a handful of samples on one, hundreds on the other (chunk runs, interleave tails)
    for (n, &(nv, na)) in [(3u32, 400u32), (400, 3), (1, 1000), (2, 257), (600, 1)].iter().enumerate() {
        let audio = if n % 2 == 0 { 1 } else { 7 };
        v.push(long_case(long_cfg((n % 4) as u8, audio, n % 2 == 0), 0, 0, (n % 3) as u8, Expand { key_every: 7, ..ex(nv, na) }));
    }
    // a slideshow whose audio arrives in batches: `run` running packets per video frame and then `ties` packets stamped with
    // exactly the next frame's time (several ties at the end of a long audio run)
    for (n, &(run, ties)) in [(25u32, 3u32), (9, 2), (100, 5), (40, 4), (8, 2), (63, 7)].iter().enumerate() {
        let mut c = long_case(long_cfg(2, 7, true), 0, 0, 1, ex(0, 0));
        c.expand = None;
        // `run` steps of 1800 and one more onto the frame's tick
        let period = (run + 1) * 1800;
        c.video = (0..4u32).map(|i| VGene { ddts: period, cts: 0, key: i == 0, size: 40, shape: 0, jit: 0, big: 0 }).collect();
        let mut audio = Vec::new();
        for _k in 0..3u32 {
            for i in 0..run {
                audio.push(AGene { dpts: 1800, size: 20 + (i % 7) as u16 * 3 + 1, shape: 3, jit: 0 });
            }
            // `ties` packets on the frame's tick: the first closes the run (dpts 1800), the others share its time
            for t in 0..ties {
                audio.push(AGene { dpts: if t == 0 { 1800 } else { 0 }, size: 31 + 2 * t as u16, shape: 3, jit: 0 });
            }
        }
        c.audio = audio;
        // the first packet sits one step after the first frame
        c.a_off = 1800;
        if n % 2 == 1 {
            c.cfg = long_cfg(0, 1, false);
            c.order = 5;
        }
        v.push(c.clone());
        if n == 0 {
            c.cfg = long_cfg(0, 1, false);
            c.order = 5;
            v.push(c);
        }
    }
    // a constant decoder delay of two frames on a long constant-rate recording with audio (no reordering)
    {
        let mut c = long_case(long_cfg(1, 1, true), 0, 0, 1, ex(0, 0));
        c.expand = None;
        c.reorder = true;
        c.video = (0..300u32).map(|i| VGene { ddts: 3000, cts: 6000, key: i % 30 == 0, size: 19, shape: (i * 37 % 256) as u8, jit: 0, big: 0 }).collect();
        c.audio = (0..460u32).map(|i| AGene { dpts: 1920, size: 17, shape: (i * 29 % 256) as u8, jit: 0 }).collect();
        v.push(c);
    }
    if huge {
        // more than 2^20 video samples; the audio starts after video sample 2^20 and every audio sample ties with a video sample
        v.push(long_case(
            long_cfg(0, 1, true),
            0,
            1_048_580u32 * 3000,
            1,
            Expand { ad: 3000, shapes: false, key_every: 100_000, ..ex(1_048_700, 110) },
        ));
    }
    v
}
pub fn long_cases_quick_or_all(t: crate::engine::Tier) -> Vec<ValidCase> {
    long_cases(t == crate::engine::Tier::Thorough)
}
pub fn long_cases_all(_t: crate::engine::Tier) -> Vec<ValidCase> {
    long_cases(true)
}

fn default_true() -> bool {
    true
}

/// Recordings whose file reaches an exact absolute offset (4 KiB .. 128 KiB powers of two) at the END of one of its samples:
/// constructed in two passes (mux once, read the sample's offset from the file, resize that sample by the difference, mux
/// again and keep the case only if the aim was hit).  A writer that gathers output in fixed-size blocks changes its behaviour
/// exactly there.  The aimed sample is a plain video frame in the middle of the history; both layouts, with and without audio.
pub fn aimed_cases(_t: crate::engine::Tier) -> Vec<ValidCase> {
    let mut out = Vec::new();
    for (n, &target) in [4096u64, 8192, 16_384, 32_768, 65_536, 131_072, 65_536, 65_536, 65_536, 65_536, 131_072, 32_768].iter().enumerate() {
        let codec = (n % 4) as u8;
        let audio = if n % 3 == 1 { 1 } else if n % 3 == 2 { 7 } else { 0 };
        let fast = n % 2 == 1;
        let frames = [9usize, 5, 14, 30][n % 4];
        let mut c = long_case(long_cfg(codec, audio, fast), 0, 0, 1, Expand { nv: 0, na: 0, vd: 3000, ad: 1920, vsize: 19, asize: 17, reorder_from: u32::MAX, key_every: 30, irregular_every: 0, bigs: vec![], shapes: true, uniform: None, post: vec![] });
        c.expand = None;
        let per = ((target / frames as u64).saturating_sub(40)).clamp(8, 60_000) as u16;
        c.video = (0..frames + 3).map(|i| VGene { ddts: 3000, cts: 0, key: i == 0, size: if i < frames { per } else { 30 }, shape: 0, jit: 0, big: 0 }).collect();
        if audio != 0 {
            c.audio = (0..4).map(|_| AGene { dpts: 1920, size: 24, shape: 3, jit: 0 }).collect();
        }
        // first pass
        let aim = |c: &ValidCase| -> Option<(usize, u64)> {
            let l = lower(c);
            let r = crate::exec::run_history(&l.cfg, &l.ops);
            let p = crate::mp4check::parse(&r.out).ok()?;
            let vt = crate::mp4check::video_track(&p.movie)?;
            // the last sample whose end is at or below the target
            let (j, sm) = vt.samples.iter().enumerate().filter(|(_, sm)| sm.offset + sm.size as u64 <= target).last()?;
            Some((j, sm.offset + sm.size as u64))
        };
        let (j, end) = match aim(&c) {
            Some(x) => x,
            None => continue,
        };
        if j == 0 || j >= c.video.len() {
            continue;
        }
        let grow = target - end;
        if c.video[j].size as u64 + grow > 60_000 {
            continue;
        }
        c.video[j].size += grow as u16;
        match aim(&c) {
            Some((j2, end2)) if j2 == j && end2 == target => out.push(c),
            _ => {}
        }
    }
    out
}

pub const FPS: [f64; 12] =
    [1.0, 10.0, 24000.0 / 1001.0, 24.0, 25.0, 30000.0 / 1001.0, 30.0, 50.0, 60000.0 / 1001.0, 60.0, 120.0, 240.0];

#[derive(Clone, Debug)]
pub struct ExpSample {
    pub bytes: Vec<u8>,
    pub key: bool,
    pub pts: u64,
    pub dts: u64,
    /// rounding of a timestamp of this sample is ambiguous (half-tick): timing clauses skip it
    pub tie: bool,
    pub op: usize,
    pub pts_secs: f64,
    pub dts_secs: f64,
}

#[derive(Clone, Debug)]
pub struct Lowered {
    pub cfg: CCfg,
    pub ops: Vec<COp>,
    /// for op i: (is_video, index within track)
    pub op_sample: Vec<Option<(bool, usize)>>,
    pub vexp: Vec<ExpSample>,
    pub aexp: Vec<ExpSample>,
    pub reordered: bool,
    /// first-keyframe facts for C07
    pub first_cfg: FirstCfg,
}

#[derive(Clone, Debug, Default)]
pub struct FirstCfg {
    pub sps: Option<Vec<u8>>,
    pub pps: Option<Vec<u8>>,
    pub vps: Option<Vec<u8>>,
    pub av1_obu: Option<Vec<u8>>,
    pub av1_expect: Option<Av1Expect>,
    pub vp9_expect: Option<Vp9Expect>,
    /// H.264/H.265: the first frame as submitted and its units (for later frames that share a prefix with it)
    pub first_raw: Vec<u8>,
    pub first_units: Vec<Vec<u8>>,
    pub first_types: Vec<u8>,
}

/// Index of the first PPS unit of the first frame (with an SPS before it) and the offset just behind it in the submitted bytes.
fn shared_prefix_end(hevc: bool, fc: &FirstCfg) -> Option<(usize, usize)> {
    let (sps_t, pps_t) = if hevc { (h265t::SPS, h265t::PPS) } else { (h264t::SPS, h264t::PPS) };
    let k = fc.first_types.iter().position(|t| *t == pps_t)?;
    if !fc.first_types[..k].contains(&sps_t) || k >= fc.first_units.len() {
        return None;
    }
    // the units were emitted in order: locate each one behind the previous one
    let mut cur = 0usize;
    for u in &fc.first_units[..=k] {
        if u.is_empty() {
            return None;
        }
        let at = fc.first_raw[cur..].windows(u.len()).position(|w| w == &u[..])?;
        cur += at + u.len();
    }
    Some((k, cur))
}

/// How many scenario frames had a mono_chrome AV1 header replaced (see `video_frame`).
pub static EXCLUDED_AV1_MONO: std::sync::atomic::AtomicU64 = std::sync::atomic::AtomicU64::new(0);

pub fn ccfg(g: &CfgGene) -> CCfg {
    // some configurations without audio say so explicitly (AudioCodec::None through the builder, see CCfg::audio == 8)
    let audio = if g.audio % 8 == 0 && g.channels % 3 == 0 { 8 } else { g.audio % 8 };
    let channels = if audio == 7 { (g.channels % 8) + 1 } else { (g.channels % 6) + 1 };
    CCfg {
        codec: g.codec % 4,
        video: true,
        audio,
        sample_rate: AAC_RATES[(g.rate_idx % 13) as usize],
        channels: channels as u16,
        width: g.width.max(1) as u32,
        height: g.height.max(1) as u32,
        fps: 30.0,
        fast_start: Some(g.fast_start),
        title: g.title.clone(),
        ctime: g.ctime,
        lang: g.lang.clone(),
        empty_metadata: false,
        alias_builder: g.rate_idx % 2 == 1,
        // a third of the configurations set things twice (decoy first, real value last), see CCfg::reconfig
        misalign: 0,
        reconfig: (if (g.width as u32 + g.height as u32) % 3 == 0 { (g.width % 16) as u8 } else { 0 }) | ((g.height % 6) as u8) << 4,
    }
}

fn vtag(idx: usize, size: u16) -> u64 {
    (1u64 << 60) | ((idx as u64) << 20) | size as u64
}
fn atag(idx: usize, size: u16) -> u64 {
    (2u64 << 60) | ((idx as u64) << 20) | size as u64
}

/// Build one video frame: (submitted bytes, expected stored sample, first-config facts if `first`).
pub fn video_frame(cfg: &CfgGene, g: &VGene, idx: usize, first: bool, fc: &mut FirstCfg) -> (Vec<u8>, Vec<u8>) {
    let tag = vtag(idx, g.size);
    let size = g.size.max(1);
    let sh = g.shape;
    match cfg.codec % 4 {
        c @ (0 | 1) if !first && !g.key && g.size % 64 == 21 && g.big == 0 => {
            // a frame without any start code ("the whole input is one unit"): opaque bytes, or bytes shaped like another
            // framing - a chain of 4-byte length-prefixed units (what an MP4 demuxer hands out), an ADTS header, an Ogg page
            let _ = c;
            let body = filler(5 + (sh as usize % 40), tag, 0);
            let raw: Vec<u8> = match sh % 4 {
                0 => body.clone(),
                1 => {
                    let mut v = (body.len() as u32).to_be_bytes().to_vec();
                    v.extend_from_slice(&body);
                    v
                }
                2 => {
                    let (a, b) = body.split_at(body.len() / 2);
                    let mut v = (a.len() as u32).to_be_bytes().to_vec();
                    v.extend_from_slice(a);
                    v.extend_from_slice(&(b.len() as u32).to_be_bytes());
                    v.extend_from_slice(b);
                    v
                }
                _ => {
                    let mut v = b"OggS".to_vec();
                    v.extend_from_slice(&[0xff, 0xf1, 0x4c, 0x80]);
                    v.extend_from_slice(&body);
                    v
                }
            };
            let exp = length_prefixed(&[raw.clone()]);
            (raw, exp)
        }
        c @ (0 | 1) if !first && g.key && g.size % 16 == 7 && g.big == 0 && !fc.first_raw.is_empty() && shared_prefix_end(c == 1, fc).is_some() => {
            // a later keyframe that repeats the FIRST frame byte for byte up to the end of its first PPS and then goes on
            // differently: the PPS continues with two more bytes (a new PPS that has the old one as a prefix), or a new slice
            // follows at once (a cache keyed on the leading bytes must not replay the old conversion)
            let hevc = c == 1;
            let (k, end) = shared_prefix_end(hevc, fc).unwrap();
            let mut raw = fc.first_raw[..end].to_vec();
            let mut units: Vec<Vec<u8>> = fc.first_units[..=k].to_vec();
            // zeros at the very end of the first frame counted as part of its last unit; in front of a start code they would
            // be part of that start code instead, so the shared prefix stops before them
            while units[k].len() > 1 && units[k].last() == Some(&0) {
                units[k].pop();
                raw.pop();
            }
            if sh & 1 != 0 {
                let ext = [0x2c | (sh & 0x80), 0x40 | ((sh >> 1) & 0x3f)];
                raw.extend_from_slice(&ext);
                units[k].extend_from_slice(&ext);
            }
            let slice_t = if hevc { h265t::IDR_W } else { h264t::IDR };
            let fr = AnnexBFrame { nals: vec![NalGene { typ: slice_t, len: size, fill: sh >> 6, sc4: sh & 2 != 0, aux: 2 }], lead_zeros: 0, trail_zeros: 0 };
            let (b2, u2) = fr.build(hevc, tag);
            raw.extend_from_slice(&b2);
            units.extend(u2);
            let exp = length_prefixed(&units);
            (raw, exp)
        }
        c @ (0 | 1) if !first && !g.key && g.size % 64 == 22 && g.big == 0 && fc.sps.is_some() && fc.pps.is_some() => {
            // a buffer that holds nothing but the parameter sets of the first keyframe, byte for byte (the "codec config" buffer
            // that some capture stacks deliver again in front of every IDR picture): a frame like any other
            let mut units: Vec<Vec<u8>> = Vec::new();
            if c == 1 {
                if let Some(v) = &fc.vps {
                    units.push(v.clone());
                }
            }
            units.push(fc.sps.clone().unwrap());
            units.push(fc.pps.clone().unwrap());
            // a unit that was the LAST one of the first frame may end in the zero bytes that closed that buffer; in front of
            // another start code such zeros would belong to the start code, so they are not part of the unit here
            for u in units.iter_mut() {
                while u.len() > 1 && u.last() == Some(&0) {
                    u.pop();
                }
            }
            let mut raw = Vec::new();
            for (i, u) in units.iter().enumerate() {
                raw.extend_from_slice(if (i + sh as usize) % 2 == 0 { &[0, 0, 0, 1][..] } else { &[0, 0, 1][..] });
                raw.extend_from_slice(u);
            }
            let exp = length_prefixed(&units);
            (raw, exp)
        }
        c @ (0 | 1) => {
            let hevc = c == 1;
            let sc = |i: usize| if sh & 32 != 0 { (i + sh as usize) % 2 == 0 } else { sh & 1 != 0 };
            let mut nals: Vec<NalGene> = Vec::new();
            let mut push = |typ: u8, len: u16, fill: u8, aux: u8| {
                let i = nals.len();
                nals.push(NalGene { typ, len, fill, sc4: sc(i), aux });
            };
            let with_cfg = first || (g.key && sh & 8 != 0);
            // one configuration in 8 carries a box type's bytes in one of its parameter sets
            // ... and one in 8 opens its H.264 SPS like a real one (profile / chroma format / bit depth codes, see gen::nal_bytes)
            let dict = |slot: u16, fill: u8| {
                if g.size % 8 == 5 && (g.size / 8) % 3 == slot {
                    192 + ((g.size / 24) % 48) as u8
                } else if g.size % 8 == 3 && slot == 0 {
                    // (slot 0 is the SPS of both codecs)
                    160 + ((g.size / 8) % 32) as u8
                } else {
                    fill
                }
            };
            if sh & 2 != 0 {
                push(if hevc { h265t::AUD } else { h264t::AUD }, 1, 0, 0);
            }
            if sh & 4 != 0 {
                push(if hevc { h265t::SEI } else { h264t::SEI }, 5 + (sh as u16 % 7), 2, 0);
            }
            if with_cfg {
                // order / repetition of the parameter sets inside the access unit (all legal; the record must carry the FIRST
                // set of each type): 0 canonical; 1 reversed order (PPS before SPS [before VPS]); 2 a byte-identical second PPS;
                // 3 the whole group twice, byte-identical
                let variant = (g.size / 5) % 5;
                let mut group: Vec<(u8, u16, u8, u8)> = if hevc {
                    vec![(h265t::VPS, 4 + (sh as u16 % 9), dict(2, 1), 0), (h265t::SPS, 14 + (sh as u16 % 11), dict(0, 2), 0), (h265t::PPS, 2 + (sh as u16 % 3), dict(1, 0), 0)]
                } else {
                    vec![(h264t::SPS, 3 + (sh as u16 % 13), dict(0, 2), 3), (h264t::PPS, 1 + (sh as u16 % 4), dict(1, 0), 3)]
                };
                if variant == 1 {
                    group.reverse();
                }
                for &(t, l, f, a) in &group {
                    push(t, l, f, a);
                }
                if variant == 2 {
                    let pps = if hevc { h265t::PPS } else { h264t::PPS };
                    push(pps, 1, 255, if hevc { 0 } else { 3 });
                }
                if variant == 3 {
                    for &(t, _, _, a) in &group {
                        push(t, 1, 255, a);
                    }
                }
                if sh & 8 != 0 && first {
                    // repeated, later-differing parameter sets: the FIRST ones must be used
                    if hevc {
                        push(h265t::SPS, 9, 3, 1);
                        push(h265t::PPS, 4, 1, 1);
                        push(h265t::VPS, 6, 0, 1);
                    } else {
                        push(h264t::PPS, 6, 1, 2);
                        push(h264t::SPS, 8, 3, 2);
                    }
                }
            }
            // variant 4: the sets FOLLOW the (first) slice inside the buffer ([IDR][SPS][PPS]): they are still in the frame
            let sets_after_slice = with_cfg && (g.size / 5) % 5 == 4 && g.size % 3 == 0;
            let held: Vec<NalGene> = if sets_after_slice {
                let keep = nals.iter().take_while(|n| { let t = if hevc { n.typ & 0x3f } else { n.typ & 0x1f }; if hevc { !(32..=34).contains(&t) } else { t != 7 && t != 8 } }).count();
                nals.split_off(keep)
            } else {
                Vec::new()
            };
            let mut push = |typ: u8, len: u16, fill: u8, aux: u8| {
                let i = nals.len();
                nals.push(NalGene { typ, len, fill, sc4: sc(i), aux });
            };
            let slice_t = if g.key || first {
                if hevc {
                    [h265t::IDR_W, h265t::IDR_N, h265t::CRA][(sh % 3) as usize]
                } else {
                    h264t::IDR
                }
            } else if hevc {
                h265t::TRAIL
            } else {
                h264t::SLICE
            };
            // one first frame in 32 is the bare "codec config" buffer: the parameter sets and no slice at all (some encoders hand
            // it over as a buffer of its own before the first picture); the library takes it as the first sample
            let config_only = first && g.size % 32 == 13 && g.big == 0;
            if config_only {
                // nothing
            } else if sh & 16 != 0 && size > 4 {
                push(slice_t, size / 2, sh >> 6, 2);
                push(slice_t, size - size / 2, (sh >> 6) + 1, 2);
            } else {
                push(slice_t, size, sh >> 6, 2);
            }
            if sh % 11 == 7 {
                // filler data after the slices (H.264 type 12, H.265 type 38): 0xFF padding and the trailing bits
                push(if hevc { 38 } else { 12 }, 3 + (sh as u16 % 40), 254, 0);
            }
            nals.extend(held);
            let fr = AnnexBFrame {
                nals,
                lead_zeros: if sh & 64 != 0 { 1 + (sh & 1) } else { 0 },
                trail_zeros: if g.big > 0 {
                    0
                } else if sh & 128 != 0 {
                    1 + ((sh >> 1) & 1)
                } else if sh % 13 == 5 {
                    100 + (sh & 1)
                } else {
                    0
                },
            };
            let (mut bytes, mut units) = fr.build(hevc, tag);
            if g.big > 0 {
                // one more slice NAL of `big` bytes (no zero bytes, so no emulation prevention and no start code inside)
                let mut nal = if hevc { vec![h265t::TRAIL << 1, 1] } else { vec![0x40 | h264t::SLICE] };
                nal.extend_from_slice(&filler(g.big as usize, tag ^ 0x5a5a_0000_0000, 0));
                bytes.extend_from_slice(&[0, 0, 1]);
                bytes.extend_from_slice(&nal);
                units.push(nal);
            }
            if first && g.big == 0 {
                fc.first_raw = bytes.clone();
                fc.first_units = units.clone();
                fc.first_types = fr.nals.iter().map(|n| n.typ).collect();
            }
            if first {
                for (gn, u) in fr.nals.iter().zip(units.iter()) {
                    if hevc {
                        if gn.typ == h265t::VPS && fc.vps.is_none() {
                            fc.vps = Some(u.clone());
                        }
                        if gn.typ == h265t::SPS && fc.sps.is_none() {
                            fc.sps = Some(u.clone());
                        }
                        if gn.typ == h265t::PPS && fc.pps.is_none() {
                            fc.pps = Some(u.clone());
                        }
                    } else {
                        if gn.typ == h264t::SPS && fc.sps.is_none() {
                            fc.sps = Some(u.clone());
                        }
                        if gn.typ == h264t::PPS && fc.pps.is_none() {
                            fc.pps = Some(u.clone());
                        }
                    }
                }
            }
            let exp = length_prefixed(&units);
            (bytes, exp)
        }
        2 => {
            let mut obus = Vec::new();
            if sh & 2 != 0 {
                obus.push(ObuGene { typ: 2, ext: false, ext_byte: 0, has_size: true, leb_pad: sh & 1, len: 0, fill: 0 });
            }
            let with_seq = first || (g.key && sh & 8 != 0);
            if with_seq {
                obus.push(ObuGene {
                    typ: 1,
                    ext: sh & 16 != 0,
                    ext_byte: sh & 0xf8,
                    has_size: true,
                    leb_pad: (sh >> 5) & 3,
                    len: 0,
                    fill: 0,
                });
            }
            if sh & 4 != 0 {
                obus.push(ObuGene { typ: 5, ext: false, ext_byte: 0, has_size: true, leb_pad: 0, len: 3 + (sh as u16 % 9), fill: 1 });
            }
            obus.push(ObuGene {
                typ: 6,
                ext: sh & 16 != 0,
                ext_byte: sh & 0xf8,
                has_size: sh & 128 == 0,
                leb_pad: sh & 1,
                len: size,
                fill: sh >> 6,
            });
            // half of the later keyframes that carry a sequence header carry ANOTHER valid one (an encoder reconfiguration):
            // the record still describes the first
            let seq = if !first && sh & 32 != 0 {
                let mut s2 = Av1Seq::simple();
                s2.w_m1 = 100 + (idx as u32 % 1000);
                s2.h_m1 = 50 + (sh as u32 % 7);
                s2.cdef = !s2.cdef;
                s2
            } else {
                let mut s0 = cfg.av1.clone().unwrap_or_else(Av1Seq::simple);
                if s0.color.mono {
                    // open finding (C07, KNOWN_FINDINGS: av1C ... mono_chrome): the library reads two bits that mono_chrome
                    // headers do not code; depending on how the header ends it stores a wrong chroma_sample_position or
                    // refuses the keyframe altogether, and then nothing a scenario expects holds.  Excluded here by
                    // construction (counted); C07's own generators keep producing mono_chrome headers.
                    s0.color.mono = false;
                    EXCLUDED_AV1_MONO.fetch_add(1, std::sync::atomic::Ordering::Relaxed);
                }
                s0
            };
            let fr = Av1Frame { obus, seq: Some(seq) };
            let (mut bytes, seq_obu) = fr.build(tag);
            if first {
                fc.av1_obu = seq_obu;
                fc.av1_expect = Some(fr.seq.as_ref().unwrap().normalised().expect());
            }
            if g.big > 0 {
                bytes.extend_from_slice(&obu(4, false, 0, true, 0, &filler(g.big as usize, tag ^ 0x5a5a_0000_0000, 0)));
            }
            (bytes.clone(), bytes)
        }
        _ => {
            if first || g.key {
                let mut k = cfg.vp9.clone();
                if !first {
                    // later keyframes: keep the layout simple, vary the tail for uniqueness
                    k.render = None;
                }
                k.tail = size;
                if k.color.is_none() && k.tail > 0 {
                    k.color = Some((0, None));
                }
                let (mut bytes, exp) = k.build(tag);
                if first {
                    fc.vp9_expect = Some(exp);
                }
                if g.big > 0 {
                    bytes.extend_from_slice(&filler(g.big as usize, tag ^ 0x5a5a_0000_0000, 0));
                }
                (bytes.clone(), bytes)
            } else {
                let mut b = vp9_delta(size as usize, tag);
                if g.big > 0 {
                    b.extend_from_slice(&filler(g.big as usize, tag ^ 0x5a5a_0000_0000, 0));
                }
                (b.clone(), b)
            }
        }
    }
}

pub fn audio_frame(cfg: &CfgGene, g: &AGene, idx: usize) -> (Vec<u8>, Vec<u8>) {
    let tag = atag(idx, g.size);
    let size = g.size.max(1);
    if cfg.audio % 8 == 7 && g.size % 32 == 7 {
        // what an Ogg demuxer hands out first: the OpusHead / OpusTags header packets (whether the library takes them as
        // audio packets is its decision; if it accepts one, the sample is the packet)
        let p: Vec<u8> = if g.shape & 1 == 0 {
            let mut v = b"OpusHead".to_vec();
            v.extend_from_slice(&[1, 2, 0x38, 0x01, 0x80, 0xbb, 0x00, 0x00, 0x00, 0x00, 0x00]);
            v
        } else {
            let mut v = b"OpusTags".to_vec();
            v.extend_from_slice(&[7, 0, 0, 0]);
            v.extend_from_slice(b"harness");
            v.extend_from_slice(&[0, 0, 0, 0]);
            v.extend_from_slice(&filler(40 + (idx % 5) as usize, tag, 0));
            v
        };
        return (p.clone(), p);
    }
    if cfg.audio % 8 != 7 && cfg.audio % 8 != 0 && g.size % 32 == 7 {
        // "packed audio" as in HLS .aac segments: an ID3v2 tag alone, or in front of the ADTS frame.  Whether the library takes
        // such a buffer is its decision (the unmodified one does not); if a call is accepted its sample must exist.
        let mut v = b"ID3\x04\x00\x00".to_vec();
        let body = filler(10 + (idx % 20) as usize, tag, 0);
        v.extend_from_slice(&[0, 0, 0, body.len() as u8]);
        v.extend_from_slice(&body);
        return (v.clone(), v);
    }
    if cfg.audio % 8 == 7 {
        let code = g.shape & 3;
        let og = OpusGene {
            config: g.shape >> 3,
            stereo: g.shape & 4 != 0,
            code,
            count_byte: 1 + (g.shape >> 7),
            len: size,
            corrupt: 0,
        };
        // 60 ms configs (12..15) with 2 frames = 120 ms: still fine; count byte 1..2 only
        let (p, _) = og.build(tag);
        (p.clone(), p)
    } else {
        let ag = AdtsGene {
            protection_absent: g.shape & 1 != 0,
            profile: (g.shape >> 1) & 3,
            // a quarter of the configurations carry the CORE rate in their ADTS headers - half the configured output rate, as
            // implicitly signalled HE-AAC streams do (the muxer is configured with the rate the caller states, not the header's)
            sfi: if cfg.channels % 4 == 1 && cfg.rate_idx % 13 + 3 < 13 { cfg.rate_idx % 13 + 3 } else { cfg.rate_idx % 13 },
            chan: (cfg.channels % 6),
            payload_len: size.min(8000),
            extra: if g.shape & 8 != 0 { 3 } else { 0 },
            fill: (g.shape >> 4) & 1,
            corrupt: 0,
            // independent of bit 0 of the shape: two shapes that differ in bit 0 differ in the protection flag only
            misc: ((g.shape >> 1) as u16).wrapping_mul(0x0123) ^ (g.size & !1),
        };
        let (f, exp) = ag.build(tag);
        (f, exp.expect("uncorrupted ADTS gene must be valid"))
    }
}

pub fn lower(c: &ValidCase) -> Lowered {
    let c = &*c.materialised();
    let mut cfg = ccfg(&c.cfg);
    if let Some(k) = c.fps_mode {
        // the caller stamps frames as i / fps: the same rate is what it tells the builder
        cfg.fps = FPS[(k as usize) % FPS.len()];
    }
    let has_audio = cfg.has_audio();
    let mut fc = FirstCfg::default();
    // ---- video timeline
    let mut vexp: Vec<ExpSample> = Vec::new();
    let mut vdata: Vec<Vec<u8>> = Vec::new();
    let mut dts = c.v_start;
    let mut reordered = false;
    let nojit = c.v_start >= (1u64 << 44);
    for (i, g) in c.video.iter().enumerate() {
        if i > 0 {
            let d = c.const_rate.unwrap_or(g.ddts).max(1) as u64;
            dts += d;
        }
        let (dts_secs, pts_secs, dts_t, pts_t, tie) = if let Some(k) = c.fps_mode {
            let v = i as f64 / FPS[(k as usize) % FPS.len()] + (c.v_start as f64 / 90000.0);
            let t = ticks_exact(v);
            (v, v, t.tick, t.tick, t.tie)
        } else {
            let cts = if c.reorder { g.cts } else { 0 };
            let pts_tick = if cts >= 0 { dts + cts as u64 } else { dts.saturating_sub((-cts) as u64) };
            // beyond 2^44 ticks an f64 second count no longer resolves a jittered tick: exact ticks only there
            let jit = if nojit { 0 } else { g.jit };
            let ds = secs(dts, jit);
            let ps = if pts_tick != dts {
                // the presentation time has its own sub-tick phase in half of the cases (two clocks, or two roundings)
                secs(pts_tick, if g.shape & 0x20 != 0 && !nojit { -jit } else { jit })
            } else if g.shape & 0x20 != 0 && !nojit {
                // same tick, but not the same f64 (pts and dts computed in two ways by the caller)
                secs(pts_tick, if jit > 0 { jit - 1 - (g.shape % 7) as i8 } else { jit + 1 + (g.shape % 7) as i8 })
            } else {
                ds
            };
            (ds, ps, dts, pts_tick, false)
        };
        if pts_t != dts_t {
            reordered = true;
        }
        let (bytes, exp) = video_frame(&c.cfg, g, i, i == 0, &mut fc);
        vdata.push(bytes);
        vexp.push(ExpSample {
            bytes: exp,
            key: g.key || i == 0,
            pts: pts_t,
            dts: dts_t,
            tie,
            op: 0,
            pts_secs,
            dts_secs,
        });
    }
    if c.fps_mode.is_some() {
        // ticks must be strictly increasing for the calls to be legal; drop the tail where rounding collides
        let mut keep = vexp.len();
        for i in 1..vexp.len() {
            if vexp[i].dts <= vexp[i - 1].dts {
                keep = i;
                break;
            }
        }
        vexp.truncate(keep);
        vdata.truncate(keep);
    }
    // ---- audio timeline
    let mut aexp: Vec<ExpSample> = Vec::new();
    let mut adata: Vec<Vec<u8>> = Vec::new();
    if has_audio && !vexp.is_empty() {
        let v0_pts = vexp[0].pts;
        let v0_jit = if c.fps_mode.is_some() { None } else { Some(if nojit { 0 } else { c.video[0].jit }) };
        let mut pts = v0_pts + c.a_off as u64;
        let mut prev_jit: i8 = 0;
        for (i, g) in c.audio.iter().enumerate() {
            if i > 0 {
                pts += g.dpts as u64;
            }
            let mut jit = if nojit { 0 } else { g.jit };
            if nojit {
                // exact ticks only (see above)
            } else if i > 0 && g.dpts == 0 {
                // same tick as the previous audio frame: either the very same f64, or (half of the cases) a strictly later
                // instant less than one tick away, e.g. a backlog stamped with a fine-grained clock
                jit = if g.shape & 0x40 != 0 && prev_jit < 49 { (prev_jit + 1 + (g.shape % 5) as i8).min(49) } else { prev_jit };
            }
            let mut s = secs(pts, jit);
            if pts == v0_pts {
                // equal ticks: must not be earlier than the first video PTS as f64
                s = match v0_jit {
                    Some(j) => secs(pts, j),
                    None => vexp[0].pts_secs,
                };
                jit = v0_jit.unwrap_or(0);
                if i > 0 && s < aexp[i - 1].pts_secs {
                    s = aexp[i - 1].pts_secs;
                }
            }
            if s < vexp[0].pts_secs {
                s = vexp[0].pts_secs;
            }
            prev_jit = jit;
            let t = ticks_exact(s);
            let (mut bytes, mut exp) = audio_frame(&c.cfg, g, i);
            if i > 0 && g.dpts == 0 && g.size % 16 == 0 {
                // the very same packet delivered twice with the same timestamp (legal: audio time is non-decreasing)
                bytes = adata[i - 1].clone();
                exp = aexp[i - 1].bytes.clone();
            }
            adata.push(bytes);
            aexp.push(ExpSample { bytes: exp, key: true, pts: t.tick, dts: t.tick, tie: t.tie, op: 0, pts_secs: s, dts_secs: s });
        }
    }
    // ---- submission order
    let mut order: Vec<(bool, usize)> = Vec::new();
    let nv = vexp.len();
    let na = aexp.len();
    if nv > 0 {
        order.push((true, 0));
        match c.order % 4 {
            0 => {
                order.extend((1..nv).map(|i| (true, i)));
                order.extend((0..na).map(|i| (false, i)));
            }
            1 => {
                let (mut vi, mut ai) = (1, 0);
                while vi < nv || ai < na {
                    let take_v = if vi >= nv {
                        false
                    } else if ai >= na {
                        true
                    } else {
                        // ties: video first, or (other half of the cases) audio first as submission order
                        if (c.order / 4) % 2 == 0 {
                            vexp[vi].dts <= aexp[ai].pts
                        } else {
                            vexp[vi].dts < aexp[ai].pts
                        }
                    };
                    if take_v {
                        order.push((true, vi));
                        vi += 1;
                    } else {
                        order.push((false, ai));
                        ai += 1;
                    }
                }
            }
            2 => {
                order.extend((0..na).map(|i| (false, i)));
                order.extend((1..nv).map(|i| (true, i)));
            }
            _ => {
                let burst = 1 + (c.order as usize / 4) % 5;
                let (mut vi, mut ai) = (1, 0);
                while vi < nv || ai < na {
                    for _ in 0..burst {
                        if ai < na {
                            order.push((false, ai));
                            ai += 1;
                        }
                    }
                    for _ in 0..burst {
                        if vi < nv {
                            order.push((true, vi));
                            vi += 1;
                        }
                    }
                }
            }
        }
    }
    let mut ops = Vec::new();
    let mut op_sample = Vec::new();
    for (isv, i) in order {
        if isv {
            let e = &mut vexp[i];
            e.op = ops.len();
            let with_dts = if reordered || e.pts != e.dts {
                true
            } else {
                match c.use_dts % 3 {
                    0 => false,
                    1 => true,
                    _ => i % 2 == 1,
                }
            };
            if with_dts {
                ops.push(COp::VideoDts { pts: e.pts_secs, dts: e.dts_secs, data: vdata[i].clone(), key: e.key });
            } else {
                ops.push(COp::Video { pts: e.pts_secs, data: vdata[i].clone(), key: e.key });
            }
            op_sample.push(Some((true, i)));
        } else {
            let e = &mut aexp[i];
            e.op = ops.len();
            ops.push(COp::Audio { pts: e.pts_secs, data: adata[i].clone() });
            op_sample.push(Some((false, i)));
        }
    }
    // sprinkle illegal calls (never expected as samples)
    for &(pos, kind) in &c.rejects {
        if ops.is_empty() {
            break;
        }
        let at = 1 + (pos as usize) % ops.len();
        let prev_video = ops[..at].iter().rev().find(|o| o.is_video()).cloned();
        let prev_audio = ops[..at].iter().rev().find(|o| matches!(o, COp::Audio { .. })).cloned();
        let first_video_pts = ops.iter().find_map(|o| match o {
            COp::Video { pts, .. } | COp::VideoDts { pts, .. } => Some(*pts),
            _ => None,
        });
        let junk = match (kind % 7, prev_video, prev_audio) {
            // kind 6: audio one tick before the first video frame's presentation time (whatever was written since): rejected
            (6, _, Some(COp::Audio { data, .. })) if has_audio && first_video_pts.map(|p| p > 2.0 / 90000.0).unwrap_or(false) => {
                Some(COp::Audio { pts: first_video_pts.unwrap() - 1.0 / 90000.0, data })
            }
            // kind 5: a reordered frame (pts != dts) whose decode time does not advance: rejected by the writer, and whatever its
            // composition offset was must leave no trace
            (5, Some(COp::Video { pts, data, .. }), _) => Some(COp::VideoDts { pts: pts + 0.1, dts: pts, data, key: false }),
            (5, Some(COp::VideoDts { dts, data, .. }), _) => Some(COp::VideoDts { pts: dts + 0.2, dts, data, key: false }),
            (0, Some(COp::Video { pts, data, .. }), _) => Some(COp::Video { pts, data, key: false }),
            (0, Some(COp::VideoDts { pts, dts, data, .. }), _) => Some(COp::VideoDts { pts, dts, data, key: false }),
            (1, Some(COp::Video { pts, .. }), _) => Some(COp::Video { pts: pts + 1.0, data: vec![], key: false }),
            (1, Some(COp::VideoDts { pts, dts, .. }), _) => Some(COp::VideoDts { pts: pts + 1.0, dts: dts + 1.0, data: vec![], key: false }),
            (2, _, Some(COp::Audio { pts, .. })) if has_audio => Some(COp::Audio { pts: pts + 1024.0 / 90000.0, data: vec![0x12, 0x34, 0x56, 0x78, 0x9a, 0xbc, 0xde, 0xf0, 0x11] }),
            (3, _, Some(COp::Audio { pts, data })) if has_audio && pts > 1.0 / 90000.0 => Some(COp::Audio { pts: pts - 1.0 / 90000.0, data }),
            (4, Some(COp::Video { data, .. }), _) | (4, Some(COp::VideoDts { data, .. }), _) => Some(COp::Video { pts: f64::NAN, data, key: false }),
            _ => None,
        };
        if let Some(j) = junk {
            // an Opus "packet" 0x12.. is a valid TOC; make the junk invalid for Opus too: code 3 with count 0
            let j = match j {
                COp::Audio { pts, data } if cfg.audio == 7 && kind % 7 == 2 => COp::Audio { pts, data: vec![0x03, 0x00, data[2]] },
                other => other,
            };
            ops.insert(at, j);
            op_sample.insert(at, None);
        }
    }
    // op indices of the expected samples moved: recompute
    for (i, os) in op_sample.iter().enumerate() {
        match os {
            Some((true, k)) => vexp[*k].op = i,
            Some((false, k)) => aexp[*k].op = i,
            None => {}
        }
    }
    ops.push(COp::Finish(FinishKind::from_idx(c.finish)));
    op_sample.push(None);
    Lowered { cfg, ops, op_sample, vexp, aexp, reordered, first_cfg: fc }
}

// ------------------------------------------------------------------------------------------
// strategies

pub fn size_strategy() -> impl Strategy<Value = u16> {
    prop_oneof![
        6 => 1u16..300,
        2 => 1u16..16,
        1 => 300u16..5000,
        1 => 5000u16..=65000,
        1 => 65480u16..=65535,
        // encoding boundaries: leb128 / descriptor lengths (127|128, 16 383|16 384), one- and two-byte counts, powers of two
        1 => proptest::sample::select(vec![125u16, 126, 127, 128, 129, 130, 254, 255, 256, 257, 4095, 4096, 4097, 16_381, 16_382, 16_383, 16_384, 16_385, 32_767, 32_768, 32_769]),
    ]
}

pub fn ddts_strategy() -> impl Strategy<Value = u32> {
    prop_oneof![
        4 => Just(3000u32),
        2 => Just(3003u32),
        2 => 1u32..10,
        3 => 1u32..200_000,
        1 => 200_000u32..400_000_000,
        1 => (u32::MAX - 3)..=u32::MAX,
    ]
}

pub fn title_strategy() -> impl Strategy<Value = String> {
    prop_oneof![
        3 => "[ -~]{0,40}",
        2 => "\\PC{0,60}",
        1 => Just(String::new()),
        1 => "[a-z ]{200,400}",
        // dictionary: a box type inside the title (a byte search for a fourcc in the moov must not hit it)
        1 => ("[ -~]{0,12}", 0usize..48, "[ -~]{0,12}").prop_map(|(a, i, b)| format!("{}{}{}", a, String::from_utf8_lossy(&FOURCC_DICT[i][..]), b)),
        // dictionary: code points that text handling likes to "clean up" (byte order mark, zero-width and bidi marks, NUL, white
        // space at the ends, replacement character, the last code points of the planes, combining marks), at the start / end / alone
        2 => (0usize..16, "\\PC{0,10}", 0u8..4).prop_map(|(i, body, place)| {
            let sp = ['\u{feff}', '\u{200b}', '\u{202e}', '\u{0}', ' ', '\t', '\n', '\u{a0}', '\u{fffd}', '\u{ffff}', '\u{10ffff}', '\u{301}', '\u{d7ff}', '\u{e000}', '"', '\\'][i];
            match place {
                0 => format!("{}{}", sp, body),
                1 => format!("{}{}", body, sp),
                2 => format!("{}{}{}", sp, body, sp),
                _ => sp.to_string(),
            }
        }),
    ]
}

pub fn lang_strategy() -> impl Strategy<Value = String> {
    prop_oneof![4 => "[a-z]{3}", 1 => Just("und".to_string()), 1 => Just("eng".to_string())]
}

pub fn av1_color_strategy() -> impl Strategy<Value = Av1Color> {
    (
        any::<bool>(),
        any::<bool>(),
        prop::bool::weighted(0.25),
        option::weighted(
            0.5,
            prop_oneof![
                2 => (any::<u8>(), any::<u8>(), any::<u8>()),
                1 => Just((1u8, 13u8, 0u8)),
                1 => Just((1u8, 1u8, 1u8)),
            ],
        ),
        any::<bool>(),
        any::<bool>(),
        any::<bool>(),
        0u8..4,
        any::<bool>(),
    )
        .prop_map(|(high_bitdepth, twelve_bit, mono, desc, range, ssx, ssy, csp, sep_uv)| Av1Color {
            high_bitdepth,
            twelve_bit,
            mono,
            desc,
            range,
            ssx,
            ssy,
            csp,
            sep_uv,
        })
}

pub fn av1_seq_strategy() -> impl Strategy<Value = Av1Seq> {
    let timing = option::weighted(
        0.5,
        (
            any::<u32>(),
            any::<u32>(),
            option::weighted(0.5, prop_oneof![4 => 0u32..8, 4 => any::<u32>(), 1 => Just(u32::MAX), 1 => Just(u32::MAX - 1), 1 => Just(0x7fff_ffffu32)]),
            option::weighted(
                0.5,
                (0u8..32, any::<u32>(), 0u8..32, 0u8..32).prop_map(|(a, b, c, d)| Av1DecoderModel {
                    buffer_delay_length_minus_1: a,
                    num_units_in_decoding_tick: b,
                    buffer_removal_time_length_minus_1: c,
                    frame_presentation_time_length_minus_1: d,
                }),
            ),
        )
            .prop_map(|(a, b, e, d)| Av1Timing {
                num_units_in_display_tick: a,
                time_scale: b,
                equal_picture_interval: e,
                decoder_model: d,
            }),
    );
    let op = (
        0u16..4096,
        0u8..32,
        any::<bool>(),
        option::weighted(0.5, (any::<u32>(), any::<u32>(), any::<bool>())),
        option::weighted(0.5, 0u8..16),
    )
        .prop_map(|(idc, level, tier, decoder_model, display_delay)| Av1OpPoint { idc, level, tier, decoder_model, display_delay });
    let ops = prop_oneof![3 => vec(op.clone(), 1..2), 2 => vec(op.clone(), 2..5), 1 => vec(op, 30..33)];
    let a = (0u8..3, any::<bool>(), prop::bool::weighted(0.2), 0u8..32, timing, any::<bool>(), ops);
    let b = (0u8..16, 0u8..16, any::<u32>(), any::<u32>(), option::weighted(0.3, (0u8..16, 0u8..8)));
    let c = (any::<bool>(), any::<bool>(), any::<bool>(), any::<bool>(), any::<bool>(), any::<bool>(), any::<bool>());
    let d = (
        option::weighted(0.6, (any::<bool>(), any::<bool>(), 0u8..8)),
        0u8..3,
        0u8..3,
        any::<bool>(),
        any::<bool>(),
        any::<bool>(),
        av1_color_strategy(),
        any::<bool>(),
    );
    (a, b, c, d).prop_map(|(a, b, c, d)| {
        Av1Seq {
            profile: a.0,
            still: a.1,
            reduced: a.2,
            reduced_level: a.3,
            timing: a.4,
            init_display_delay_present: a.5,
            ops: a.6,
            wbits_m1: b.0,
            hbits_m1: b.1,
            w_m1: b.2,
            h_m1: b.3,
            frame_id: b.4,
            sb128: c.0,
            filter_intra: c.1,
            intra_edge: c.2,
            interintra: c.3,
            masked: c.4,
            warped: c.5,
            dual: c.6,
            order_hint: d.0,
            sct: d.1,
            imv: d.2,
            superres: d.3,
            cdef: d.4,
            restoration: d.5,
            color: d.6,
            film_grain: d.7,
        }
        .normalised()
    })
}

pub fn vp9_key_strategy() -> impl Strategy<Value = Vp9Key> {
    (
        0u8..4,
        any::<u8>(),
        any::<u8>(),
        prop_oneof![1u32..5000, any::<u32>()],
        prop_oneof![1u32..5000, any::<u32>()],
        1u8..6,
        1u8..6,
        option::weighted(0.3, (any::<u8>(), 0u32..70000, 0u32..70000)),
        option::weighted(0.8, (any::<u8>(), option::weighted(0.6, any::<u8>()))),
        0u16..40,
    )
        .prop_map(|(profile, byte4, sync, width, height, wlen, hlen, render, color, tail)| Vp9Key {
            profile,
            byte4,
            sync,
            width,
            height,
            wlen,
            hlen,
            render,
            color,
            tail,
        })
}

pub fn cfg_strategy() -> impl Strategy<Value = CfgGene> {
    (
        0u8..4,
        prop_oneof![3 => Just(0u8), 4 => 1u8..7, 2 => Just(7u8)],
        0u8..13,
        0u8..8,
        prop_oneof![6 => 16u16..4097, 2 => 1u16..=65535, 1 => proptest::sample::select(vec![1000u16, 1001, 1024, 1080, 1920, 720, 1280, 480, 640, 255, 256, 257, 90, 900, 9000, 48000, 44100])],
        prop_oneof![6 => 16u16..2161, 2 => 1u16..=65535, 1 => proptest::sample::select(vec![1000u16, 1001, 1024, 1080, 1920, 720, 1280, 480, 640, 255, 256, 257, 90, 900, 9000, 48000, 44100])],
        any::<bool>(),
        option::weighted(0.3, title_strategy()),
        option::weighted(0.3, prop_oneof![8 => 0u64..4_102_444_800, 8 => 0u64..253_402_300_800, 1 => 253_402_300_800u64..=u64::MAX, 1 => Just(1_759_536_000_000u64), 1 => Just(253_402_300_800u64)]),
        option::weighted(0.3, lang_strategy()),
        option::weighted(0.6, av1_seq_strategy()),
        vp9_key_strategy(),
    )
        .prop_map(|(codec, audio, rate_idx, channels, width, height, fast_start, title, ctime, lang, av1, vp9)| CfgGene {
            codec,
            audio,
            rate_idx,
            channels,
            width,
            height,
            fast_start,
            title,
            ctime,
            lang,
            av1,
            vp9,
        })
        .prop_map(|mut g| {
            // one configuration in eight is square (numeric coincidence of two independent fields)
            if g.width % 8 == 3 {
                g.height = g.width;
            }
            g
        })
}

pub fn vgene_strategy(reorder: bool) -> impl Strategy<Value = VGene> {
    let cts = if reorder {
        prop_oneof![2 => Just(0i64), 3 => 0i64..20000, 2 => -20000i64..0, 1 => any::<i32>().prop_map(|v| (v / 4) as i64)].boxed()
    } else {
        Just(0i64).boxed()
    };
    // samples beyond 1 MiB are rare (about one frame in 600) so that throughput stays high; the sizes straddle 2^20 and 2^21
    let big = prop_oneof![
        1200 => Just(0u32),
        1 => 1_048_400u32..1_048_700,
        1 => 2_097_000u32..2_097_300,
        1 => 66_000u32..3_300_000,
    ];
    (ddts_strategy(), cts, prop::bool::weighted(0.2), size_strategy(), any::<u8>(), -49i8..=49, big)
        .prop_map(|(ddts, cts, key, size, shape, jit, big)| VGene { ddts, cts, key, size, shape, jit, big })
}

pub fn agene_strategy() -> impl Strategy<Value = AGene> {
    (
        prop_oneof![3 => Just(1920u32), 2 => Just(2090u32), 2 => Just(0u32), 2 => 0u32..10000, 1 => 0u32..40_000_000],
        size_strategy(),
        any::<u8>(),
        -49i8..=49,
    )
        .prop_map(|(dpts, size, shape, jit)| AGene { dpts, size: size.min(8000), shape, jit })
}

/// General valid scenario. `maxv`/`maxa`: upper bounds for the number of frames.
pub fn valid_case_strategy(maxv: usize, maxa: usize) -> impl Strategy<Value = ValidCase> {
    (
        (any::<bool>(), cfg_strategy()),
        prop_oneof![2 => Just(0u64), 2 => 0u64..1_000_000, 1 => 0u64..40_000_000_000],
        prop_oneof![8 => Just(0u32), 4 => 1u32..3, 8 => 0u32..200_000, 4 => 0u32..60_000_000, 1 => (u32::MAX - 400_000)..=u32::MAX, 1 => any::<u32>()],
        vec(vgene_strategy(true), 0..=maxv),
        vec(agene_strategy(), 0..=maxa),
        option::weighted(0.3, prop_oneof![Just(3000u32), Just(3003u32), Just(3750u32), Just(1500u32), 1u32..100000]),
        option::weighted(0.2, 0u8..12),
        0u8..3,
        0u8..24,
        (0u8..5, prop_oneof![1 => Just(Vec::new()), 1 => vec((any::<u8>(), 0u8..7), 1..4)]),
    )
        .prop_map(|((reorder, cfg), v_start, a_off, video, audio, const_rate, fps_mode, use_dts, order, (finish, rejects))| ValidCase {
            cfg,
            v_start,
            a_off,
            video,
            audio,
            const_rate,
            fps_mode: if reorder { None } else { fps_mode },
            use_dts,
            order,
            finish,
            rejects,
            reorder,
            expand: None,
        })
            .prop_perturb(|mut c, mut rng| {
                use proptest::prelude::RngCore;
                // "one frame stamped early/late, then the stream recovers": deltas d, d-k, d+k, d ... whose sum equals n*d
                // (a constant-rate shortcut that only looks at first/last/sum would flatten it). 15 % of the cases.
                let r = rng.next_u32();
                if r % 100 < 15 && c.fps_mode.is_none() {
                    let d = [3000u32, 3003, 1920, 1500, 3750][(r as usize >> 8) % 5];
                    c.const_rate = None;
                    for g in c.video.iter_mut() {
                        g.ddts = d;
                    }
                    // audio: the same step, or (half of the cases) the codec's nominal frame duration for the configured rate
                    // (1024 samples of AAC, 20 ms of Opus) so that the timeline sits exactly on the frame grid at both ends
                    let rate = AAC_RATES[(c.cfg.rate_idx % 13) as usize] as u64;
                    let nominal = if c.cfg.audio % 8 == 7 { 1800 } else { (1024 * 90_000 / rate) as u32 };
                    let da = if r & 0x80 != 0 { nominal.max(2) } else { d };
                    for g in c.audio.iter_mut() {
                        g.dpts = da;
                    }
                    let k = 1 + (r >> 16) % (d.min(da) / 2);
                    let nv = c.video.len();
                    if nv >= 5 {
                        let i = 2 + (rng.next_u32() as usize) % (nv - 4);
                        c.video[i].ddts = d - k;
                        c.video[i + 1].ddts = d + k;
                    }
                    let na = c.audio.len();
                    if na >= 5 {
                        let i = 2 + (rng.next_u32() as usize) % (na - 4);
                        c.audio[i].dpts = da - k;
                        c.audio[i + 1].dpts = da + k;
                    }
                }
                // a capture clock slightly off nominal: every audio delta is the nominal frame duration +1 (or -1) tick, with an
                // occasional exact one (3 % of the cases)
                if r % 100 >= 15 && r % 100 < 18 && c.fps_mode.is_none() {
                    let rate = AAC_RATES[(c.cfg.rate_idx % 13) as usize] as u64;
                    let nominal = if c.cfg.audio % 8 == 7 { 1800i64 } else { (1024 * 90_000 / rate) as i64 };
                    let e = if r & 0x100 != 0 { 1i64 } else { -1 };
                    for (k, g) in c.audio.iter_mut().enumerate() {
                        g.dpts = (nominal + if k % 7 == 6 { 0 } else { e }).max(1) as u32;
                        g.jit = 0;
                    }
                }
                // a constant decoder delay: every frame is presented c ticks after it is decoded (no reordering)
                if r % 100 >= 18 && r % 100 < 21 && c.fps_mode.is_none() {
                    let d = [1i64, 3000, 6000, 2][(r as usize >> 8) % 4];
                    c.reorder = true;
                    for g in c.video.iter_mut() {
                        g.cts = d;
                    }
                }
                // the audio starts around the END of the video (a late commentary, a tail of room tone): first audio packet
                // within two frames of the last video sample's decode / presentation time (4 % of the cases)
                if r % 100 >= 21 && r % 100 < 25 && c.video.len() >= 2 {
                    let span: u64 = c.video.iter().skip(1).map(|g| c.const_rate.unwrap_or(g.ddts) as u64).sum();
                    let last = c.video.last().map(|g| g.cts).unwrap_or(0);
                    let wiggle = [0i64, 1, -1, 1500, -1500, 3000, -3000, 4500, -4500, 6000][(r as usize >> 8) % 10];
                    let target = span as i64 + if r & 0x4000 != 0 { last } else { 0 } + wiggle;
                    c.a_off = target.clamp(0, u32::MAX as i64) as u32;
                }
                // dictionary: timestamps whose bytes spell a box type (a byte search for a fourcc must not hit them)
                if r % 100 >= 97 {
                    let magic = FOURCC_DICT[(r as usize >> 8) % FOURCC_DICT.len()];
                    c.v_start = u32::from_be_bytes(*magic) as u64;
                } else if r % 100 >= 93 {
                    // the recording straddles a power of two of the media clock (2^32 .. 2^51 ticks): arithmetic that keeps only
                    // the low bits of a timestamp, or packs it with other fields, goes wrong exactly there
                    let k = 32 + (r >> 8) % 20; // 2^32 .. 2^51; from 2^44 on the timestamps are exact ticks without jitter (see `lower`)
                    let back = [1u64, 2, 1500, 3000, 4500, 9000, 90_000, 200_000][(r as usize >> 16) % 8];
                    c.v_start = (1u64 << k) - back;
                }
                c
            })
}
