pub mod engine;
pub mod exec;
pub mod gen;
pub mod model;
pub mod mp4check;
pub mod props;
pub mod reader;
pub mod scenario;
