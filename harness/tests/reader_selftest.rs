//! Self-validation of the trusted base: the independent reader is run against (i) the repository's golden
//! fixture and (ii) files produced by a tiny spec-driven writer in this test that uses exactly the generalities
//! muxide does NOT emit (largesize, co64, version-1 headers, edit lists, multi-sample chunks, uniform stsz, stz2,
//! tfhd defaults), so that reader bugs cannot hide behind "muxide is fine".

use harness::reader::*;

fn bx(t: &[u8; 4], p: &[u8]) -> Vec<u8> {
    let mut v = ((8 + p.len()) as u32).to_be_bytes().to_vec();
    v.extend_from_slice(t);
    v.extend_from_slice(p);
    v
}
fn large(t: &[u8; 4], p: &[u8]) -> Vec<u8> {
    let mut v = 1u32.to_be_bytes().to_vec();
    v.extend_from_slice(t);
    v.extend_from_slice(&((16 + p.len()) as u64).to_be_bytes());
    v.extend_from_slice(p);
    v
}
fn cat(parts: &[Vec<u8>]) -> Vec<u8> {
    parts.concat()
}
fn u32s(v: &[u32]) -> Vec<u8> {
    v.iter().flat_map(|x| x.to_be_bytes()).collect()
}

fn matrix() -> Vec<u8> {
    u32s(&[0x10000, 0, 0, 0, 0x10000, 0, 0, 0, 0x40000000])
}

fn trak(id: u32, video: bool, stbl_tail: Vec<u8>, elst: Option<Vec<u8>>) -> Vec<u8> {
    // version-1 tkhd / mdhd
    let mut tk = vec![1, 0, 0, 3];
    tk.extend_from_slice(&[0; 16]); // creation, modification (64-bit each)
    tk.extend_from_slice(&id.to_be_bytes());
    tk.extend_from_slice(&[0; 4]);
    tk.extend_from_slice(&5000u64.to_be_bytes());
    tk.extend_from_slice(&[0; 8]);
    tk.extend_from_slice(&[0, 0, 0, 0, if video { 0 } else { 1 }, 0, 0, 0]);
    tk.extend_from_slice(&matrix());
    tk.extend_from_slice(&u32s(&[if video { 320 << 16 } else { 0 }, if video { 240 << 16 } else { 0 }]));
    assert_eq!(tk.len(), 96);
    let mut md = vec![1, 0, 0, 0];
    md.extend_from_slice(&[0; 16]);
    md.extend_from_slice(&48000u32.to_be_bytes());
    md.extend_from_slice(&123456789012u64.to_be_bytes());
    md.extend_from_slice(&[0x15, 0xc7, 0, 0]); // 'eng'
    assert_eq!(md.len(), 36);
    let mut hd = vec![0; 8];
    hd.extend_from_slice(if video { b"vide" } else { b"soun" });
    hd.extend_from_slice(&[0; 12]);
    hd.extend_from_slice(b"h\0");
    let entry = if video {
        let mut e = vec![0u8; 78];
        e[7] = 1;
        e[24..26].copy_from_slice(&320u16.to_be_bytes());
        e[26..28].copy_from_slice(&240u16.to_be_bytes());
        e.extend_from_slice(&bx(b"avcC", &[1, 0x42, 0, 0x1e, 0xff, 0xe1, 0, 2, 0x67, 0x42, 1, 0, 1, 0x68]));
        bx(b"avc1", &e)
    } else {
        let mut e = vec![0u8; 28];
        e[7] = 1;
        e[17] = 2;
        e[19] = 16;
        e[24..28].copy_from_slice(&(48000u32 << 16).to_be_bytes());
        // esds with multi-byte (0x80-continued) descriptor lengths
        let dsi = [0x05, 0x80, 0x80, 0x80, 0x02, 0x11, 0x90];
        let mut dc = vec![0x04, 0x80, 0x80, 0x80, (13 + dsi.len()) as u8, 0x40, 0x15, 0, 0, 0, 0, 0, 0, 0, 0, 0, 0, 0];
        dc.extend_from_slice(&dsi);
        let sl = [0x06, 0x80, 0x80, 0x80, 0x01, 0x02];
        let mut es = vec![0x03, 0x80, 0x80, 0x80, (3 + dc.len() + sl.len()) as u8, 0, 1, 0];
        es.extend_from_slice(&dc);
        es.extend_from_slice(&sl);
        let mut p = vec![0, 0, 0, 0];
        p.extend_from_slice(&es);
        e.extend_from_slice(&bx(b"esds", &p));
        bx(b"mp4a", &e)
    };
    let stsd = bx(b"stsd", &cat(&[vec![0, 0, 0, 0, 0, 0, 0, 1], entry]));
    let stbl = bx(b"stbl", &cat(&[stsd, stbl_tail]));
    let dinf = bx(b"dinf", &bx(b"dref", &cat(&[vec![0, 0, 0, 0, 0, 0, 0, 1], bx(b"url ", &[0, 0, 0, 1])])));
    let mh = if video { bx(b"vmhd", &[0, 0, 0, 1, 0, 0, 0, 0, 0, 0, 0, 0]) } else { bx(b"smhd", &[0; 8]) };
    let minf = bx(b"minf", &cat(&[mh, dinf, stbl]));
    let mdia = bx(b"mdia", &cat(&[bx(b"mdhd", &md), bx(b"hdlr", &hd), minf]));
    let mut kids = vec![bx(b"tkhd", &tk)];
    if let Some(e) = elst {
        kids.push(bx(b"edts", &bx(b"elst", &e)));
    }
    kids.push(mdia);
    bx(b"trak", &cat(&kids))
}

#[test]
fn golden_fixture_parses() {
    let d = std::fs::read("/repo/fixtures/minimal.mp4").expect("fixture");
    let (tree, m) = parse_movie(&d).expect("golden fixture must parse strictly");
    assert_eq!(tree.iter().map(|n| n.name()).collect::<Vec<_>>(), ["ftyp", "moov", "mdat"]);
    assert_eq!(m.tracks.len(), 1);
    assert_eq!(&m.tracks[0].hdlr.handler, b"vide");
    assert_eq!(m.tracks[0].samples.len(), 0);
    assert_eq!(m.mvhd.timescale, 1000);
    assert_eq!((m.tracks[0].entry.width, m.tracks[0].entry.height), (640, 480));
}

#[test]
fn reader_handles_what_muxide_does_not_emit() {
    // video: 5 samples in 2 chunks (3 + 2), co64, uniform stsz, ctts v0, stss; audio: stz2 16-bit, stco, elst v1
    let ftyp = bx(b"ftyp", b"isom\0\0\0\0isom");
    // mdat as a largesize box first, so offsets are known: ftyp(20) + 16 header
    let vdata: Vec<Vec<u8>> = (0..5u8).map(|i| vec![0xA0 + i; 4]).collect();
    let adata: Vec<Vec<u8>> = vec![vec![0xB0; 3], vec![0xB1; 5]];
    let mdat_payload = cat(&[vdata[0].clone(), vdata[1].clone(), vdata[2].clone(), adata[0].clone(), adata[1].clone(), vdata[3].clone(), vdata[4].clone()]);
    let mdat = large(b"mdat", &mdat_payload);
    let base = (ftyp.len() + 16) as u64;
    let v_tail = cat(&[
        bx(b"stts", &cat(&[vec![0; 4], u32s(&[2, 3, 1000, 2, 500])])),
        bx(b"ctts", &cat(&[vec![0; 4], u32s(&[2, 1, 200, 4, 0])])),
        bx(b"stsc", &cat(&[vec![0; 4], u32s(&[2, 1, 3, 1, 2, 2, 1])])),
        bx(b"stsz", &cat(&[vec![0; 4], u32s(&[4, 5])])),
        bx(b"co64", &cat(&[vec![0; 4], u32s(&[2]), base.to_be_bytes().to_vec(), (base + 12 + 8).to_be_bytes().to_vec()])),
        bx(b"stss", &cat(&[vec![0; 4], u32s(&[2, 1, 4])])),
    ]);
    let a_tail = cat(&[
        bx(b"stts", &cat(&[vec![0; 4], u32s(&[1, 2, 1024])])),
        bx(b"stsc", &cat(&[vec![0; 4], u32s(&[1, 1, 2, 1])])),
        bx(b"stz2", &cat(&[vec![0, 0, 0, 0, 0, 0, 0, 16], u32s(&[2]), vec![0, 3, 0, 5]])),
        bx(b"stco", &cat(&[vec![0; 4], u32s(&[1, (base + 12) as u32])])),
    ]);
    let mut elst = vec![1, 0, 0, 0];
    elst.extend_from_slice(&2u32.to_be_bytes());
    elst.extend_from_slice(&500u64.to_be_bytes());
    elst.extend_from_slice(&(-1i64).to_be_bytes());
    elst.extend_from_slice(&0x10000u32.to_be_bytes());
    elst.extend_from_slice(&0u64.to_be_bytes());
    elst.extend_from_slice(&0i64.to_be_bytes());
    elst.extend_from_slice(&0x10000u32.to_be_bytes());
    let mut mv = vec![1, 0, 0, 0];
    mv.extend_from_slice(&[0; 16]);
    mv.extend_from_slice(&1000u32.to_be_bytes());
    mv.extend_from_slice(&9_999_999_999u64.to_be_bytes());
    mv.extend_from_slice(&0x10000u32.to_be_bytes());
    mv.extend_from_slice(&[1, 0, 0, 0]);
    mv.extend_from_slice(&[0; 8]);
    mv.extend_from_slice(&matrix());
    mv.extend_from_slice(&[0; 24]);
    mv.extend_from_slice(&3u32.to_be_bytes());
    assert_eq!(mv.len(), 112);
    let moov = bx(b"moov", &cat(&[bx(b"mvhd", &mv), trak(1, true, v_tail, None), trak(2, false, a_tail, Some(elst)), bx(b"free", &[0; 5])]));
    let file = cat(&[ftyp, mdat, bx(b"free", &[]), moov]);
    let (_, m) = parse_movie(&file).expect("generalised file must parse");
    assert_eq!(m.mvhd.version, 1);
    assert_eq!(m.mvhd.duration, 9_999_999_999);
    assert_eq!(m.mvhd.next_track_id, 3);
    let v = &m.tracks[0];
    assert!(v.co64);
    assert_eq!(v.tkhd.version, 1);
    assert_eq!(v.tkhd.duration, 5000);
    assert_eq!(v.tkhd.width, 320 << 16);
    assert_eq!(v.mdhd.duration, 123456789012);
    assert_eq!(&v.mdhd.lang, b"eng");
    assert_eq!(v.samples.len(), 5);
    for (i, s) in v.samples.iter().enumerate() {
        assert_eq!(&file[s.offset as usize..s.offset as usize + s.size as usize], &vdata[i][..], "video sample {}", i);
    }
    assert_eq!(v.samples.iter().map(|s| s.dts).collect::<Vec<_>>(), [0, 1000, 2000, 3000, 3500]);
    assert_eq!(v.samples.iter().map(|s| s.cts).collect::<Vec<_>>(), [200, 0, 0, 0, 0]);
    assert_eq!(v.samples.iter().map(|s| s.sync).collect::<Vec<_>>(), [true, false, false, true, false]);
    let a = &m.tracks[1];
    assert_eq!(a.samples.len(), 2);
    for (i, s) in a.samples.iter().enumerate() {
        assert_eq!(&file[s.offset as usize..s.offset as usize + s.size as usize], &adata[i][..], "audio sample {}", i);
        assert!(s.sync);
    }
    assert_eq!(a.elst.as_ref().unwrap(), &vec![(500u64, -1i64, 0x10000u32), (0, 0, 0x10000)]);
    match &a.entry.config {
        ConfigRecord::Esds { object_type, asc, lens_consistent, sl_predefined, .. } => {
            assert_eq!(*object_type, 0x40);
            assert_eq!(asc, &vec![0x11, 0x90]);
            assert!(lens_consistent);
            assert_eq!(*sl_predefined, Some(2));
        }
        other => panic!("esds not decoded: {:?}", other),
    }
    // presentation mapping through the empty edit (C09's model): audio sample 0 is presented 500 movie units late
    let p = harness::props::c09::presentation(&m, a, 0).unwrap();
    assert_eq!(p.0 * 1000 / p.1, 500);
}

#[test]
fn strict_walker_rejects_slack_and_overrun() {
    let ftyp = bx(b"ftyp", b"isom\0\0\0\0");
    let mut moov = bx(b"moov", &bx(b"mvhd", &[0; 100]));
    // one byte of slack inside moov
    let n = moov.len() as u32 + 1;
    moov[0..4].copy_from_slice(&n.to_be_bytes());
    moov.push(0);
    assert!(parse_tree(&cat(&[ftyp.clone(), moov])).is_err());
    // child overruns parent
    let mut inner = bx(b"mvhd", &[0; 100]);
    inner[3] += 4;
    let moov2 = bx(b"moov", &inner);
    assert!(parse_tree(&cat(&[ftyp.clone(), moov2])).is_err());
    // size < 8
    assert!(parse_tree(&[0, 0, 0, 7, b'f', b'r', b'e', b'e']).is_err());
    // trailing garbage shorter than a header
    assert!(parse_tree(&cat(&[ftyp, vec![1, 2, 3]])).is_err());
}

#[test]
fn segment_parser_honours_tfhd_defaults_and_trun_flags() {
    // moof with tfhd default duration/size/flags, trun with first-sample-flags and sizes only, tfdt v0
    let mfhd = bx(b"mfhd", &u32s(&[0, 7]));
    let tfhd = bx(b"tfhd", &u32s(&[0x020000 | 0x8 | 0x10 | 0x20, 1, 1234, 9, 0x0101_0000]));
    let tfdt = bx(b"tfdt", &u32s(&[0, 4242]));
    let trun_payload = |off: u32| u32s(&[0x1 | 0x4 | 0x200, 3, off, 0x0200_0000, 4, 5, 6]);
    let moof_len = 8 + mfhd.len() + 8 + tfhd.len() + tfdt.len() + 8 + trun_payload(0).len();
    let trun = bx(b"trun", &trun_payload(moof_len as u32 + 8));
    let moof = bx(b"moof", &cat(&[mfhd, bx(b"traf", &cat(&[tfhd, tfdt, trun]))]));
    assert_eq!(moof.len(), moof_len);
    let payload: Vec<u8> = (0..15u8).collect();
    let seg = cat(&[moof, bx(b"mdat", &payload)]);
    let s = parse_segment(&seg, None).expect("segment");
    assert_eq!(s.seq, 7);
    assert_eq!(s.base_decode_time, 4242);
    assert_eq!(s.samples.len(), 3);
    assert_eq!(s.samples.iter().map(|x| x.size).collect::<Vec<_>>(), [4, 5, 6]);
    assert_eq!(s.samples.iter().map(|x| x.duration).collect::<Vec<_>>(), [1234, 1234, 1234]);
    assert_eq!(s.samples.iter().map(|x| x.flags).collect::<Vec<_>>(), [0x0200_0000, 0x0101_0000, 0x0101_0000]);
    assert_eq!(&seg[s.samples[1].offset..s.samples[1].offset + 5], &payload[4..9]);
}
