use muxide::api::{Muxer, MuxerBuilder};
use std::io::Write;

fn is_send<T: Send>() {}
fn is_sync<T: Sync>() {}

/// Type-checks only if `Muxer<W>: Send` for every `W: Write + Send`.
pub fn muxer_send_for_all_send_sinks<W: Write + Send>() {
    is_send::<Muxer<W>>();
    is_send::<MuxerBuilder<W>>();
}

/// Type-checks only if `Muxer<W>: Sync` for every `W: Write + Sync`.
pub fn muxer_sync_for_all_sync_sinks<W: Write + Sync>() {
    is_sync::<Muxer<W>>();
}

pub fn fragmented_is_send_sync() {
    is_send::<muxide::fragmented::FragmentedMuxer>();
    is_sync::<muxide::fragmented::FragmentedMuxer>();
}
