#![no_main]
use libfuzzer_sys::fuzz_target;
// same oracles as the proptest checks of C01 / C03 / C08 / C09 / C15; harness::fuzz::valid_case maps bytes onto a valid scenario
fuzz_target!(|data: &[u8]| {
    harness::fuzz::fuzz_entry("c01_scenario", data);
});
