#![no_main]
use libfuzzer_sys::fuzz_target;
// same oracle as the proptest check; the decoder in harness::fuzz maps bytes onto the structured case
fuzz_target!(|data: &[u8]| {
    harness::fuzz::fuzz_entry("c04_history", data);
});
