#!/bin/bash
# Runs the repository's own suite (hooks/guards off: none exist) against a tree, offline. Usage: run_repo_tests.sh [dir] 
# Prints the pass/fail summary; exit 0 iff all 228 baseline tests pass.
DIR="${1:-/repo}"
cd "$DIR" || exit 2
export CARGO_NET_OFFLINE=true
OUT=$(cargo nextest run --workspace --no-fail-fast --test-threads 8 --offline 2>&1)
RC=$?
echo "$OUT" | grep -E "Summary|FAIL|error(\[|:)" | head -40
exit $RC
